"""C01 -- mass is conserved at every node at every reported step (equations, adjacency, bookkeeping, demand clock)."""
import ast
import re

import sympy as sp

from ..src import walk, calls, call_name, dotted, const, loc, unparse, norm, AnchorError, ExtractError, last_attr
from ..symx import SymExec, Opaque, Constraint, CondExpr, State, is_zero
from ..cfg import CFG
from .. import builders as B

CON = B.CONSTRAINT
PAR = B.PARAM
VAR = "wntr/sim/models/var.py"
HYD = "wntr/sim/hydraulics.py"
CORE = "wntr/sim/core.py"
MODEL = "wntr/network/model.py"
ELEM = "wntr/network/elements.py"
BASE = "wntr/network/base.py"

EXPLANATION = (
    "Formula extraction of the two junction mass-balance builders (linear form: demand, sum of INLET flows, sum of OUTLET flows, guarded leak term, "
    "isolated guard, index set), of the tank/reservoir demand recomputation in store_results_in_network, and of Demands.at / TimeSeries.at / "
    "Pattern.at; INLET/OUTLET adjacency filters of get_links_for_node; the product of the three sign conventions (balance row x adjacency x "
    "link-row orientation) must be +1; every demand_timeseries_list.at call in wntr.sim passes sim_time + pattern_start and the global demand "
    "multiplier; in run_sim every path of an iteration from the loop head to the solve refreshes the demand and source-head parameters; DD copies "
    "the requested demand, PDD the demand variable; results are appended from node.demand / leak_demand / link.flow. Decides the equations and "
    "bookkeeping for every topology; not the numerical tolerance attained.")
RULE_TEXT = "one instance = one extracted formula / adjacency filter / call site / path rule; distinct by construct text"
ASSUMPTIONS = ["the compiled evaluator evaluates the registered expression (C15); Newton converges (not decided)",
               "flows reported for links are the model's flow variables (store_results_in_network copies m.flow[name].value, checked)"]


def sum_symbols(expr):
    out = {}
    for s in expr.free_symbols:
        if s.name.startswith("SUM{"):
            out[s] = s.name
    return out


def split_balance(expr, dname):
    """-> dict of coefficients for D, IN, OUT, LEAK and the remainder."""
    expr = sp.expand(expr)
    co = {"D": 0, "IN": 0, "OUT": 0, "LEAK": 0}
    rest = expr
    for s in list(expr.free_symbols):
        c = expr.coeff(s)
        role = None
        if s.name == "m.%s[node_name]" % dname:
            role = "D"
        elif s.name == "m.leak_rate[node_name]":
            role = "LEAK"
        elif s.name.startswith("SUM{m.flow[link_name] : link_name in wn.get_links_for_node(node_name") and "'INLET'" in s.name:
            role = "IN"
        elif s.name.startswith("SUM{m.flow[link_name] : link_name in wn.get_links_for_node(node_name") and "'OUTLET'" in s.name:
            role = "OUT"
        if role:
            co[role] += c
            rest = rest - c * s
    return co, sp.simplify(rest)


def adjacency(repo):
    """{flag: set of link end attributes the node is compared with}, and whether the link-type filter is applied."""
    fn = repo.func(MODEL, "WaterNetworkModel.get_links_for_node")
    out = {}
    typed = {}
    for n in walk(fn):
        if isinstance(n, ast.If) and isinstance(n.test, ast.Compare) and "flag" in unparse(n.test.left):
            flag = const(n.test.comparators[0])
            rets = [s for s in n.body if isinstance(s, ast.Return)]
            if not rets or not isinstance(rets[0].value, (ast.ListComp, ast.GeneratorExp)):
                if rets and isinstance(rets[0].value, ast.Call) and rets[0].value.args and isinstance(rets[0].value.args[0], (ast.ListComp, ast.GeneratorExp)):
                    comp = rets[0].value.args[0]
                else:
                    continue
            else:
                comp = rets[0].value
            conds = " and ".join(unparse(i) for g in comp.generators for i in g.ifs)
            ends = set(re.findall(r"\.(start_node_name|end_node_name)", conds))
            out[flag] = ends
            typed[flag] = "link_type in link_types" in conds
    return fn, out, typed


def run(repo, chk):
    # ---------------------------------------------------------------- R-C01-1 balance rows
    sig_mb = {}
    for bname, dname, dictname in (("mass_balance_constraint", "expected_demand", "mass_balance"), ("pdd_mass_balance_constraint", "demand", "pdd_mass_balance")):
        fn, paths, ex = B.run_builder(repo, CON, bname + ".build")
        chk.fn(fn)
        loops = [e for e in paths[0].st.events if e[0] == "loop"]
        main = loops[0] if loops else None
        chk.expect(main is not None and main[2] == "wn.junction_name_list", "R-C01-1", "%s: default index set is every junction" % bname, loc(fn),
                   expected="wn.junction_name_list", found=main[2] if main else None)
        for p in paths:
            iso = [v for t, v in p.conds if t.endswith("._is_isolated")]
            leak = [v for t, v in p.conds if t.endswith(".leak_status")]
            st = p.stores("m.%s[" % dictname)
            if iso and iso[0]:
                chk.expect(not st, "R-C01-1", "%s: isolated junction gets no balance row" % bname, loc(fn), found=[s[0] for s in st])
                continue
            if not iso:
                chk.bad("R-C01-1", "%s: balance row is guarded by the isolated test" % bname, loc(fn), found=p.label)
            ok_key = len(st) == 1 and st[0][0] == "m.%s[node_name]" % dictname and isinstance(st[0][1], Constraint) and not isinstance(st[0][1].expr, CondExpr)
            if not ok_key:
                chk.bad("R-C01-1", "%s: one row per connected junction under the junction's name" % bname, loc(fn), found=[s[0] for s in st])
                continue
            e = ex.S(st[0][1].expr)
            co, rest = split_balance(e, dname)
            has_leak = bool(leak and leak[0])
            cD = co["D"]
            tag = "%s [leak %s]" % (bname, "on" if has_leak else "off")
            good = cD != 0 and rest == 0 and co["IN"] == -cD and co["OUT"] == cD and co["LEAK"] == (cD if has_leak else 0)
            chk.expect(good, "R-C01-1", "%s: row is  D - sum(inlet flows) + sum(outlet flows)%s  (up to one global sign)" % (tag, " + leak" if has_leak else ""), loc(fn, None),
                       "junction mass balance: inflow - outflow = demand + leak", expected="D:+1 IN:-1 OUT:+1 LEAK:%s rest:0" % ("+1" if has_leak else "0"),
                       found="D:%s IN:%s OUT:%s LEAK:%s rest:%s" % (co["D"], co["IN"], co["OUT"], co["LEAK"], rest))
            if cD != 0:
                sig_mb.setdefault(bname, set()).add(sp.sign(-co["IN"] / cD) if co["IN"] != 0 else 0)
            chk.sample({"rule": "R-C01-1", "builder": bname, "leak": has_leak, "row": str(e)})
            if not leak:
                chk.bad("R-C01-1", "%s: leak term is guarded by leak_status" % bname, loc(fn), found=p.label)
        B.check_updaters(chk, "R-C01-1", fn, bname, paths, {"leak_status", "_is_isolated"}, loc(fn))
    chk.floor("R-C01-1", 2 * 5)

    # ---------------------------------------------------------------- R-C01-2 adjacency
    gfn, adj, typed = adjacency(repo)
    chk.fn(gfn)
    want = {"ALL": {"start_node_name", "end_node_name"}, "INLET": {"end_node_name"}, "OUTLET": {"start_node_name"}}
    for flag in ("ALL", "INLET", "OUTLET"):
        if flag not in adj:
            chk.bad("R-C01-2", "get_links_for_node handles flag %s" % flag, loc(gfn), found=sorted(adj))
            continue
        chk.expect(typed.get(flag), "R-C01-2", "get_links_for_node(%s) keeps only link-typed usages" % flag, loc(gfn))
    consistent = adj.get("INLET") and adj.get("OUTLET") and len(adj["INLET"]) == 1 and len(adj["OUTLET"]) == 1 and adj["INLET"] != adj["OUTLET"] \
        and adj.get("ALL") == {"start_node_name", "end_node_name"}
    chk.expect(bool(consistent), "R-C01-2", "INLET and OUTLET select opposite ends and ALL both", loc(gfn), expected=want, found=adj)
    sig_adj = 1 if adj.get("INLET") == {"end_node_name"} else (-1 if adj.get("INLET") == {"start_node_name"} else 0)
    chk.sample({"rule": "R-C01-2", "adjacency": {k: sorted(v) for k, v in adj.items()}})

    # ---------------------------------------------------------------- R-C01-4 tank / reservoir demand, leak demand, flow copy
    sfn = repo.func(HYD, "store_results_in_network")
    chk.fn(sfn)
    ex = SymExec()
    outs = ex.run(sfn)
    sig_tank = set()
    seen = {"tank": 0, "res": 0, "jd": set(), "flow": 0, "leakT": 0, "leakJ": 0}
    for o in outs:
        for e in o.events:
            if e[0] != "store":
                continue
            loops = e[4] if len(e) > 4 else ()
            ctx = loops[-1] if loops else ""
            if e[1] == "node._demand" and ctx in ("wn.tanks()", "wn.reservoirs()"):
                v = sp.expand(ex.S(e[2]))
                sin = [s for s in v.free_symbols if s.name.startswith("SUM{") and "'INLET'" in s.name and ".flow" in s.name and "get_links_for_node(name" in s.name]
                sout = [s for s in v.free_symbols if s.name.startswith("SUM{") and "'OUTLET'" in s.name and ".flow" in s.name and "get_links_for_node(name" in s.name]
                leak = [s for s in v.free_symbols if s.name == "node._leak_demand"]
                okv = len(sin) == 1 and len(sout) == 1
                if okv:
                    ci, co_ = v.coeff(sin[0]), v.coeff(sout[0])
                    cl = v.coeff(leak[0]) if leak else 0
                    rest = sp.simplify(v - ci * sin[0] - co_ * sout[0] - (cl * leak[0] if leak else 0))
                    istank = ctx == "wn.tanks()"
                    okv = ci == 1 and co_ == -1 and rest == 0 and (cl == -1 if istank else cl == 0)
                    sig_tank.add(int(ci))
                    seen["tank" if istank else "res"] += 1
                chk.expect(bool(okv), "R-C01-4", "%s demand = sum(inlet flows) - sum(outlet flows)%s" % ("tank" if ctx == "wn.tanks()" else "reservoir", " - leak" if ctx == "wn.tanks()" else ""),
                           loc(sfn, None), "reported demand of a tank/reservoir is its net inflow", found=str(v))
                if okv and "link_name).flow" not in sin[0].name:
                    chk.bad("R-C01-4", "tank/reservoir net inflow is summed over link.flow", loc(sfn), found=sin[0].name)
            if e[1] == "node._leak_demand" and ctx in ("wn.tanks()", "wn.junctions()"):
                ls = [v for t, v in o.conds if t == "node.leak_status"]
                iso = [v for t, v in o.conds if t == "node._is_isolated"]
                if ctx == "wn.junctions()" and iso and iso[0]:
                    continue
                if ls:
                    val = e[2]
                    want_ = "m.leak_rate[name].value" if ls[0] else 0
                    got = val.text if isinstance(val, Opaque) else val
                    chk.expect(got == want_, "R-C01-4", "%s leak demand is the leak-rate variable iff the leak is active [%s]" % ("tank" if ctx == "wn.tanks()" else "junction", "active" if ls[0] else "inactive"),
                               loc(sfn), expected=want_, found=got)
                    seen["leakT" if ctx == "wn.tanks()" else "leakJ"] += 1
            if e[1] == "node._demand" and ctx == "wn.junctions()":
                iso = [v for t, v in o.conds if t == "node._is_isolated"]
                if iso and iso[0]:
                    continue
                pdd = [v for t, v in o.conds if "demand_model" in t and "PDD" in t]
                got = e[2].text if isinstance(e[2], Opaque) else e[2]
                if pdd:
                    want_ = "m.demand[name].value" if pdd[0] else "m.expected_demand[name].value"
                    chk.expect(got == want_, "R-C01-5d", "junction delivered demand is copied from %s in %s mode" % (want_, "PDD" if pdd[0] else "DD"), loc(sfn), expected=want_, found=got)
                    seen["jd"].add(bool(pdd[0]))
            if e[1] == "link._flow" and ctx == "wn.links()":
                iso = [v for t, v in o.conds if t == "link._is_isolated"]
                if iso and not iso[0]:
                    got = e[2].text if isinstance(e[2], Opaque) else e[2]
                    chk.expect(got == "m.flow[name].value", "R-C01-4", "link flow is copied from the flow variable of the same name", loc(sfn), found=got)
                    seen["flow"] += 1
    chk.expect(seen["tank"] >= 1 and seen["res"] >= 1 and seen["jd"] == {True, False} and seen["flow"] >= 1 and seen["leakT"] >= 2 and seen["leakJ"] >= 2,
               "R-C01-4", "store_results_in_network: all bookkeeping stores located", loc(sfn), found={k: (sorted(v) if isinstance(v, set) else v) for k, v in seen.items()})

    # public properties read by save_results are the fields written above
    for cls, prop, field in (("Node", "demand", "_demand"), ("Node", "leak_demand", "_leak_demand"), ("Link", "flow", "_flow"), ("Node", "head", "_head")):
        f = repo.func(BASE, "%s.%s" % (cls, prop), kind="getter")
        rets = [s for s in walk(f) if isinstance(s, ast.Return)]
        chk.expect(len(rets) == 1 and dotted(rets[0].value) == "self." + field, "R-C01-5d", "%s.%s returns the run-time field %s" % (cls, prop, field), loc(f), found=unparse(rets[0].value) if rets else None)
    svf = repo.func(HYD, "save_results")
    chk.fn(svf)
    ex2 = SymExec()
    o2 = ex2.run(svf)
    appends = {}
    for o in o2:
        for e in o.events:
            if e[0] == "call" and ".append(" in e[1]:
                m = re.match(r"^(node_res|link_res)\['(\w+)'\]\[name\]\.append\((.*)\)$", e[1])
                if m:
                    ctx = e[4][-1] if len(e) > 4 and e[4] else ""
                    appends.setdefault((ctx, m.group(2)), set()).add(m.group(3))
    for ctx in ("wn.junctions()", "wn.tanks()", "wn.reservoirs()"):
        chk.expect(appends.get((ctx, "demand")) == {"node.demand"}, "R-C01-5d", "save_results reports node.demand under 'demand' for %s" % ctx, loc(svf), found=appends.get((ctx, "demand")))
    for ctx in ("wn.junctions()", "wn.tanks()"):
        chk.expect(appends.get((ctx, "leak_demand")) == {"node.leak_demand"}, "R-C01-5d", "save_results reports node.leak_demand under 'leak_demand' for %s" % ctx, loc(svf), found=appends.get((ctx, "leak_demand")))
    for ctx in ("wn.pipes()", "wn.head_pumps()", "wn.power_pumps()", "wn.valves()"):
        chk.expect(appends.get((ctx, "flowrate")) == {"link.flow"}, "R-C01-5d", "save_results reports link.flow under 'flowrate' for %s" % ctx, loc(svf), found=appends.get((ctx, "flowrate")))

    # ---------------------------------------------------------------- R-C01-3 convention product
    sig_hl = set()
    for bname in ("approx_hazen_williams_headloss_constraint", "piecewise_hazen_williams_headloss_constraint", "head_pump_headloss_constraint",
                  "power_pump_headloss_constraint", "tcv_headloss_constraint", "fcv_headloss_constraint", "prv_headloss_constraint", "psv_headloss_constraint"):
        fn, paths, exb = B.run_builder(repo, CON, bname + ".build")
        dictname = bname.replace("_constraint", "")
        for p in paths:
            if any(v and "LinkStatus.Closed or" in t for t, v in p.conds) or p.has("LinkStatus.Active", True):
                continue
            st = p.stores("m.%s[" % dictname)
            if not st or not isinstance(st[-1][1], Constraint):
                continue
            e = st[-1][1].expr
            e = e.final if isinstance(e, CondExpr) else e
            R, _ = B.canon(exb.S(e))
            qp = sp.Symbol("q", positive=True)
            Rp = R.xreplace({B.Q: qp})
            a, dq = sp.diff(Rp, B.HS), sp.diff(Rp, qp)
            if dq.has(B.HE) or dq.has(B.HS):
                sol = sp.solve(Rp, B.HE)
                if len(sol) == 1:
                    dq, a = dq.subs(B.HE, sol[0]), a.subs(B.HE, sol[0])
            P = sp.simplify(-a * dq)
            s = 1 if (P.is_positive or P.is_nonnegative) else (-1 if (P.is_negative or P.is_nonpositive) else 0)
            sig_hl.add((bname, s))
            break
    hl = {s for b, s in sig_hl}
    mb = set().union(*sig_mb.values()) if sig_mb else set()
    prod_ok = len(hl) == 1 and len(mb) == 1 and sig_adj != 0 and (list(hl)[0] * list(mb)[0] * sig_adj == 1)
    chk.expect(prod_ok, "R-C01-3", "sign conventions agree: balance row x INLET/OUTLET adjacency x link-row orientation = +1", loc(CON),
               "positive flow runs start->end, enters the END node, and is subtracted from the junction's demand as inflow; a single flip breaks conservation",
               expected="+1", found="balance %s, adjacency %s, link rows %s" % (sorted(map(int, mb)), sig_adj, sorted(sig_hl)))
    chk.expect(len(sig_tank) == 1 and list(sig_tank)[0] * (list(mb)[0] if len(mb) == 1 else 0) == 1, "R-C01-3",
               "tank/reservoir net inflow uses the same INLET-positive convention as the junction rows", loc(sfn), found="tank %s, balance %s" % (sorted(sig_tank), sorted(map(int, mb))))

    # ---------------------------------------------------------------- R-C01-5a requested demand formulas
    dat = repo.func(ELEM, "Demands.at")
    chk.fn(dat)
    exd = SymExec()
    outs = exd.run(dat)
    found_plain = False
    for o in outs:
        if o.ret is None:
            continue
        cat = [v for t, v in o.conds if t == "category"]
        r = sp.expand(exd.S(o.ret))
        sums = [s for s in r.free_symbols if s.name.startswith("SUM{")]
        if cat and not cat[0]:
            found_plain = True
            okd = len(sums) == 1 and r == sums[0] and re.match(r"^SUM\{(dem\.at\(time\)\*multiplier|multiplier\*dem\.at\(time\)) : dem in self\._list\}$", sums[0].name) is not None
            chk.expect(okd, "R-C01-5a", "Demands.at = sum over entries of entry.at(time) * multiplier", loc(dat), found=str(r))
        elif cat and cat[0]:
            flt = [v for t, v in o.conds if "dem.category == category" in t]
            if flt and flt[0]:
                okd = len(sums) == 1 and r == sums[0] and "dem.at(time)" in sums[0].name and "multiplier" in sums[0].name
                chk.expect(okd, "R-C01-5a", "Demands.at(category) sums the matching entries times the multiplier", loc(dat), found=str(r))
    chk.expect(found_plain, "R-C01-5a", "Demands.at: un-filtered path located", loc(dat))
    tat = repo.func(ELEM, "TimeSeries.at")
    chk.fn(tat)
    ext = SymExec()
    for o in ext.run(tat):
        pat = [v for t, v in o.conds if t == "self.pattern"]
        if not pat:
            continue
        r = ext.S(o.ret)
        if pat[0]:
            chk.expect(is_zero(r - ext.sym("self._base") * ext.sym("self.pattern.at(time)")), "R-C01-5a", "TimeSeries.at = base * pattern.at(time)", loc(tat), found=str(r))
        else:
            chk.expect(r == ext.sym("self._base"), "R-C01-5a", "TimeSeries.at without pattern = base", loc(tat), found=str(r))
    pat_fn = repo.func(ELEM, "Pattern.at")
    chk.fn(pat_fn)
    exp_ = SymExec(assume=lambda t: {"integer": True, "nonnegative": True} if t.startswith("len(") else {"real": True})
    seenp = set()
    for o in exp_.run(pat_fn):
        if o.raised:
            continue
        c = dict((t, v) for t, v in o.conds)
        from ._shared import forced as _forced
        n0 = _forced("len(self._multipliers) == 0", c)
        n1 = _forced("len(self._multipliers) == 1", c)
        wrap_ = _forced("self.wrap", c)
        if n0:
            chk.expect(o.ret == 1.0, "R-C01-5a", "Pattern.at of an empty pattern is 1.0", loc(pat_fn), found=o.ret)
            seenp.add("empty")
        elif n1 and isinstance(o.ret, Opaque) and o.ret.text == "self._multipliers[0]" and not any("pattern_timestep" in t for t in c):
            # the one-value shortcut (taken before the step is computed): only a wrapping pattern repeats its single value for ever
            chk.expect(wrap_ is True, "R-C01-5a", "Pattern.at: the one-value shortcut applies to wrapping patterns only", loc(pat_fn),
                       "a non-wrapping pattern expires after its last step (documented: 0.0 once exhausted); returning the single multiplier at every time keeps e.g. a "
                       "fire-fighting demand of one pattern step switched on for the rest of the simulation", expected="guarded by self.wrap", found=sorted(c.items()))
            seenp.add("single")
        elif wrap_ is False and c.get("self.wrap") is False:
            # non-wrapping branch: 0.0 outside [0, n), multipliers[step] inside
            if o.ret == 0.0 or o.ret == 0:
                seenp.add("nowrap-outside")
            elif isinstance(o.ret, Opaque) and o.ret.base is not None and o.ret.base.text == "self._multipliers":
                seenp.add("nowrap-inside")
        elif c.get("self.wrap") and c.get("self._time_options.pattern_interpolation") is False:
            r = o.ret
            okp = isinstance(r, Opaque) and r.base is not None and r.base.text == "self._multipliers" and isinstance(r.key, sp.Basic)
            if okp:
                key = r.key.replace(sp.Function("int"), lambda x: x)
                t_, d_, n_ = exp_.sym("time"), exp_.sym("self._time_options.pattern_timestep"), exp_.sym("len(self._multipliers)")
                okp = is_zero(key - sp.Mod(sp.floor(t_ / d_), n_))
            chk.expect(bool(okp), "R-C01-5a", "Pattern.at (wrap) = multipliers[ floor(time / pattern_timestep) mod n ]", loc(pat_fn),
                       found=str(getattr(r, "key", r)))
            seenp.add("wrap")
    chk.expect({"empty", "single", "wrap"} <= seenp, "R-C01-5a", "Pattern.at: empty / single / wrap paths located", loc(pat_fn), found=sorted(seenp))
    chk.expect({"nowrap-outside", "nowrap-inside"} <= seenp, "R-C01-5a", "Pattern.at without wrap: 0.0 outside the pattern's steps, the step's multiplier inside", loc(pat_fn), found=sorted(seenp))

    # ---------------------------------------------------------------- R-C01-5b demand clock at every call site in wntr.sim
    nsites = 0
    for rel in repo.modules("wntr/sim"):
        t = repo.tree(rel)
        for fn in [n for n in ast.walk(t) if isinstance(n, ast.FunctionDef)]:
            sites = [c for c in calls(fn, attr="at") if isinstance(c.func.value, ast.Attribute) and c.func.value.attr == "demand_timeseries_list"]
            if not sites:
                continue
            fn._rel = rel
            fn._qual = fn.name
            chk.fn(fn)
            exs = SymExec(test_hook=B.std_test_hook)
            seen_lines = set()
            for o in exs.run(fn) + SymExec(test_hook=lambda t_, n_, s_: (True if t_.startswith("hasattr(") else B.std_test_hook(t_, n_, s_))).run(fn):
                for e in o.events:
                    if e[0] == "call" and ".demand_timeseries_list.at(" in e[1] and e[3] not in seen_lines:
                        seen_lines.add(e[3])
                        nsites += 1
                        name, args, kwargs = e[2]
                        targ = args[0] if args else kwargs.get("time")
                        try:
                            tv = sp.expand(exs.S(targ))
                        except ExtractError:
                            tv = None
                        want_t = exs.sym("wn.sim_time") + exs.sym("wn.options.time.pattern_start")
                        chk.expect(tv is not None and is_zero(tv - want_t), "R-C01-5b", "%s:%s line-site passes sim_time + pattern_start as the demand clock" % (rel, fn.name), "%s:%d" % (rel, e[3]),
                                   "requested demand is evaluated at simulation time shifted by options.time.pattern_start", expected=str(want_t), found=str(tv))
                        mult = kwargs.get("multiplier", args[2] if len(args) > 2 else None)
                        chk.expect(isinstance(mult, Opaque) and mult.text == "wn.options.hydraulic.demand_multiplier", "R-C01-5b",
                                   "%s:%s passes the global demand multiplier" % (rel, fn.name), "%s:%d" % (rel, e[3]), found=mult)
                        cat = kwargs.get("category", args[1] if len(args) > 1 else None)
                        chk.expect(cat is None, "R-C01-5b", "%s:%s sums all demand categories" % (rel, fn.name), "%s:%d" % (rel, e[3]), found=cat)
            if len(seen_lines) < len(sites):
                chk.error("R-C01-5b: %d of %d demand_timeseries_list.at call sites in %s:%s were not reached by the extractor" % (len(sites) - len(seen_lines), len(sites), rel, fn.name))
    chk.floor("R-C01-5b", 9)

    # ---------------------------------------------------------------- R-C01-5c refresh before every solve
    rs = repo.func(CORE, "WNTRSimulator.run_sim")
    chk.fn(rs)
    g = CFG(rs)
    heads = [h for n, h in g.loop_heads.items() if isinstance(n, ast.While)]
    if len(heads) != 1:
        raise AnchorError("run_sim: expected exactly one while loop, found %d" % len(heads))
    head = heads[0]
    solves = g.calling("_solver_helper")
    if not solves:
        raise AnchorError("run_sim: no _solver_helper call")
    for pname in ("expected_demand_param", "source_head_param"):
        via = g.calling(pname)
        okp, w = g.must_pass(head, solves[:1], via, drop_back=True)
        chk.expect(bool(via) and okp, "R-C01-5c", "run_sim: every iteration refreshes %s before the solve" % pname, loc(rs),
                   "the demand / source-head parameters must be re-evaluated at the step's final time before each solve",
                   found="path avoiding it: " + g.path_text(w) if w else "no call of %s in run_sim" % pname)
    # R-C01-6: a connected junction receives its demand: it must not be declared isolated.  The encoding of the connectivity graph is decided by
    # C09; the clauses that bear on the DD demand sentence are re-used here (status -> entry truth table, both directions, parallel links)
    from .c09 import pair_rules, status_guards, status_encoding_table
    ig_ = repo.func(CORE, "WNTRSimulator._initialize_internal_graph")
    chk.fn(ig_)
    pair_rules(ig_, chk, "R-C01-6")
    is_vals_ = lambda n: isinstance(n, ast.Call) and isinstance(n.func, ast.Attribute) and n.func.attr == "append" and unparse(n.func.value) == "vals"
    enc_ = status_guards(ig_, is_vals_)
    if not enc_:
        raise AnchorError("_initialize_internal_graph: status encoding not found")
    wc_, wo_, other_ = status_encoding_table(enc_[0].test)
    chk.expect(len(wc_) == 1 and len(wo_) == 1 and wc_ != wo_, "R-C01-6", "a link that is not closed always counts as a connection (the demand of a connected junction is never zeroed)", loc(ig_, enc_[0]),
               found=unparse(enc_[0].test))
    # R-C01-5e: the refresh is unconditional per element: on every way round the element loop of expected_demand_param / source_head_param
    # the parameter of that element is (re)assigned -- no `continue` or guard may leave a stale value from an earlier time
    for pname, dictname, nloops in (("expected_demand_param", "expected_demand", 2), ("source_head_param", "source_head", 4)):
        pf = repo.func("wntr/sim/models/param.py", pname)
        chk.fn(pf)
        pg = CFG(pf)
        nl = 0
        for lnode, lhead in pg.loop_heads.items():
            if not isinstance(lnode, ast.For):
                continue
            nl += 1
            body_nodes = set()
            for st in lnode.body:
                for x in ast.walk(st):
                    body_nodes.add(id(x))
            stores = pg.nodes_where(lambda node, d: id(node) in body_nodes and isinstance(node, ast.Assign) and
                                    any(unparse(t).startswith("m.%s[" % dictname) for t in node.targets))
            firsts = pg.succ_on(lhead, True)
            w = None
            for f0 in firsts:
                w = w or pg.can_reach_avoiding(f0, {lhead}, stores)
            chk.expect(bool(stores) and w is None, "R-C01-5e", "%s: every pass of the loop `for ... in %s` assigns m.%s[...] (no element keeps a stale value)" % (
                pname, unparse(lnode.iter), dictname), loc(pf, lnode),
                       "the requested demand / source head must be re-evaluated for every element at every step",
                       found=("path skipping the assignment: " + pg.path_text(w)) if w else "no assignment of m.%s[...] in the loop" % dictname)
        if nl < nloops:
            chk.error("R-C01-5e: %s has %d element loops, expected at least %d" % (pname, nl, nloops))
    # the refresh itself writes .value of every junction's parameter from the same call (checked in 5b) and create_hydraulic_model builds it
    chm = repo.func(HYD, "create_hydraulic_model")
    chk.expect(bool(calls(chm, name="param.expected_demand_param")), "R-C01-5c", "create_hydraulic_model builds the expected_demand parameter", loc(chm))


WITNESSES = [
    dict(name="single-value-pattern-never-expires", file=ELEM, old="        if nmult == 1 and self.wrap:", new="        if nmult == 1:", rule="R-C01-5a"),
    dict(name="refresh-skips-unpatterned-junctions", file="wntr/sim/models/param.py",
         old="        for node_name, node in wn.junctions():\n            m.expected_demand[node_name].value =",
         new="        for node_name, node in wn.junctions():\n            if node.demand_timeseries_list[0].pattern is None:\n                continue\n            m.expected_demand[node_name].value =", rule="R-C01-5e"),
    dict(name="inlet-plus", file=CON, old="                for link_name in wn.get_links_for_node(node_name, flag='INLET'):\n                    expr -= m.flow[link_name]\n                for link_name in wn.get_links_for_node(node_name, flag='OUTLET'):\n                    expr += m.flow[link_name]\n                if node.leak_status:\n                    expr += m.leak_rate[node_name]\n                m.pdd_mass_balance",
         new="                for link_name in wn.get_links_for_node(node_name, flag='INLET'):\n                    expr += m.flow[link_name]\n                for link_name in wn.get_links_for_node(node_name, flag='OUTLET'):\n                    expr += m.flow[link_name]\n                if node.leak_status:\n                    expr += m.leak_rate[node_name]\n                m.pdd_mass_balance", rule="R-C01-1"),
    dict(name="leak-unguarded", file=CON, old="                if node.leak_status:\n                    expr += m.leak_rate[node_name]\n                m.mass_balance[node_name]", new="                expr += m.leak_rate[node_name]\n                m.mass_balance[node_name]", rule="R-C01-1"),
    dict(name="adjacency-swap-inlet", file=MODEL, old="if link_type in link_types and node_name == self.get_link(link_name).end_node_name", new="if link_type in link_types and node_name == self.get_link(link_name).start_node_name", rule="R-C01-"),
    dict(name="tank-leak-not-subtracted", file=HYD, old="                       sum(wn.get_link(link_name).flow for link_name in wn.get_links_for_node(name, 'OUTLET')) -\n                       node._leak_demand)",
         new="                       sum(wn.get_link(link_name).flow for link_name in wn.get_links_for_node(name, 'OUTLET')))", rule="R-C01-4"),
    dict(name="reservoir-sign", file=HYD, old="        node._leak_demand = 0\n        node._demand = (sum(wn.get_link(link_name).flow for link_name in wn.get_links_for_node(name, 'INLET')) -\n                       sum(wn.get_link(link_name).flow for link_name in wn.get_links_for_node(name, 'OUTLET')))",
         new="        node._leak_demand = 0\n        node._demand = (sum(wn.get_link(link_name).flow for link_name in wn.get_links_for_node(name, 'OUTLET')) -\n                       sum(wn.get_link(link_name).flow for link_name in wn.get_links_for_node(name, 'INLET')))", rule="R-C01-"),
    dict(name="dd-copies-demand-var", file=HYD, old="                node._demand = m.expected_demand[name].value", new="                node._demand = m.demand[name].value", rule="R-C01-5d"),
    dict(name="pattern-start-dropped", file=PAR, old="            m.expected_demand[node_name].value = node.demand_timeseries_list.at(wn.sim_time+pattern_start, multiplier=demand_multiplier)",
         new="            m.expected_demand[node_name].value = node.demand_timeseries_list.at(wn.sim_time, multiplier=demand_multiplier)", rule="R-C01-5b"),
    dict(name="multiplier-dropped", file=VAR, old="at(wn.sim_time+pattern_start, multiplier=demand_multiplier))", new="at(wn.sim_time+pattern_start))", rule="R-C01-5b"),
    dict(name="pattern-mod-off-by-one", file=ELEM, old="            ndx = int(step%nmult)", new="            ndx = int(step%(nmult-1))", rule="R-C01-5a"),
    dict(name="demands-at-multiplier", file=ELEM, old="        else:\n            for dem in self._list:\n                demand += dem.at(time)*multiplier\n", new="        else:\n            for dem in self._list:\n                demand += dem.at(time)\n", rule="R-C01-5a"),
    dict(name="refresh-only-when-not-resolve", file=CORE, old="            wntr.sim.models.param.expected_demand_param(self._model, self._wn)\n", new="            if not first_step:\n                wntr.sim.models.param.expected_demand_param(self._model, self._wn)\n", rule="R-C01-5c"),
    dict(name="temp-var-preserving", file=CON, old="                expr = m.expected_demand[node_name]\n", new="                dem0 = m.expected_demand[node_name]\n                expr = dem0\n", silent=True),
]
