"""C01 -- mass is conserved at every node at every reported step (equations, adjacency, bookkeeping, demand clock)."""
import ast
import copy
import re

import sympy as sp

from ..src import walk, calls, call_name, dotted, const, loc, unparse, norm, AnchorError, ExtractError, last_attr
from ..symx import SymExec, Opaque, Constraint, CondExpr, State, is_zero, rat
from ..cfg import CFG
from ..peval import Evaluator, Obj, Unknown, Raised
from .. import builders as B

CON = B.CONSTRAINT
PAR = B.PARAM
VAR = "wntr/sim/models/var.py"
HYD = "wntr/sim/hydraulics.py"
CORE = "wntr/sim/core.py"
MODEL = "wntr/network/model.py"
ELEM = "wntr/network/elements.py"
BASE = "wntr/network/base.py"

EXPLANATION = (
    "T2 = symbolic path enumeration (conditional expressions split like if/else, path tests decomposed into atoms) to "
    "sympy forms and store / call events; T3 = finite evaluation on one fixture by the local evaluator Conc, bounded to it; T1 = CFG / AST. R-C01-1 (T2): "
    "both junction mass-balance builders store demand - sum(INLET flows) + sum(OUTLET flows) [+ leak iff leak_status] per non-isolated junction over the "
    "junction index set. R-C01-2 (T3, one fixture network with parallel, reversed, self-looping links): get_links_for_node filters "
    "INLET / OUTLET / ALL correctly. R-C01-3 (T2 x T3): the product of the sign conventions balance row x adjacency (from the fixture) x link-row "
    "orientation (first qualifying path of 8 headloss builders) is +1. R-C01-4 (T2): tank / reservoir demand recomputation, leak demand and flow copies in "
    "store_results_in_network. R-C01-5a (T2; Demands.at T3 on a six-entry fixture): TimeSeries.at / Pattern.at / Demands.at. R-C01-5b (call sites by AST, "
    "arguments by T2): every demand_timeseries_list.at in wntr.sim passes sim_time + pattern_start and the global multiplier. R-C01-5f (same sweep over every <obj>.at(t) call in wntr.sim, arguments by T2): every time series / pattern whose time argument depends on sim_time (reservoir head patterns as well as demands) is read at sim_time + pattern_start, one clock at all sites (sibling agreement); sites outside wntr.sim (pump speed conditions in controls.py) are listed in a note, not decided. R-C01-5c (T1 CFG must-pass): "
    "every path from the loop head to the solve refreshes demand and source-head parameters (create_hydraulic_model: presence of the call only). R-C01-5d "
    "(T2; getters by AST pattern, appends by regex): DD copies the requested demand, PDD the demand variable; results come from node.demand / leak_demand / "
    "link.flow. R-C01-5e (T1 CFG): every pass of each element loop of the refresh assigns. R-C01-6 (T2 for the entries, T3 for the pair table): isolation-graph entries are 0 "
    "exactly for Closed links; the table of multi-link node pairs left by the interpreted _initialize_internal_graph on C09's mock network holds every such pair once with all its links, whatever their direction. Symbol texts are compared, so the receiver names wn / m, m.flow[..] / "
    "m.leak_rate[..] and loop texts like wn.tanks() are fixed. Decides the equations and bookkeeping, not the numerical tolerance attained.")
RULE_TEXT = "one instance = one extracted formula / adjacency filter / call site / path rule; distinct by construct text"
ASSUMPTIONS = ["the compiled evaluator evaluates the registered expression (C15); Newton converges (not decided)",
               "flows reported for links are the model's flow variables (store_results_in_network copies m.flow[name].value, checked)"]


# ====================================================================================== shape-tolerant extraction helpers
# The rules below decide facts about what the code computes.  Everything that depends on how the code is *written* (names of locals and
# loop variables, statement vs expression conditionals, duplicated vs merged branches, comprehension vs loop) is normalised here.

def _first_ifexp(expr):
    """first conditional expression in evaluation position (not under a lambda / comprehension, which have their own scope)"""
    todo = [expr]
    while todo:
        n = todo.pop(0)
        if isinstance(n, (ast.Lambda, ast.ListComp, ast.SetComp, ast.DictComp, ast.GeneratorExp)):
            continue
        if isinstance(n, ast.IfExp):
            return n
        todo.extend(ast.iter_child_nodes(n))
    return None


def _subst_node(node, target, repl):
    """copy of the expression `node` with the sub-expression `target` replaced (only the nodes on the way down are copied)"""
    if node is target:
        return repl
    new = None
    for field, val in ast.iter_fields(node):
        if isinstance(val, ast.AST):
            r = _subst_node(val, target, repl)
            if r is not val:
                new = new or copy.copy(node)
                setattr(new, field, r)
        elif isinstance(val, list):
            lst = [_subst_node(x, target, repl) if isinstance(x, ast.AST) else x for x in val]
            if any(a is not b for a, b in zip(lst, val)):
                new = new or copy.copy(node)
                setattr(new, field, lst)
    return new if new is not None else node


class SplitExec(SymExec):
    """SymExec for which `S[a if c else b]` is the statement `if c: S[a]  else: S[b]`: a conditional expression splits the path exactly
    like the if/else statement it abbreviates, so the rules see the same (condition, store) pairs for either spelling."""

    def stmt(self, s, st):
        if isinstance(s, (ast.Assign, ast.AugAssign, ast.AnnAssign, ast.Return, ast.Expr)) and getattr(s, "value", None) is not None:
            hit = _first_ifexp(s.value)
            if hit is not None:
                a, b = copy.copy(s), copy.copy(s)
                a.value = _subst_node(s.value, hit, hit.body)
                b.value = _subst_node(s.value, hit, hit.orelse)
                return self.branch(hit.test, [a], [b], st)
        return SymExec.stmt(self, s, st)


def facts(conds):
    """path conditions [(text, bool)] -> {atom text: bool | None}.  Compound tests are decomposed (`not A`, `A and B` true, `A or B` false),
    `A == False` / `A is False` / `A != True` read as `not A`, `A is None` as `not A` (and the mirror images); an atom forced both ways is None."""
    out, clash = {}, set()

    def put(txt, val):
        if txt in out and out[txt] != val:
            clash.add(txt)
        out[txt] = val

    def walk_(node, val):
        if isinstance(node, ast.UnaryOp) and isinstance(node.op, ast.Not):
            return walk_(node.operand, not val)
        if isinstance(node, ast.BoolOp) and ((isinstance(node.op, ast.And) and val) or (isinstance(node.op, ast.Or) and not val)):
            for v in node.values:
                walk_(v, val)
            return
        if isinstance(node, ast.Compare) and len(node.ops) == 1 and isinstance(node.comparators[0], ast.Constant) \
                and (node.comparators[0].value is None or isinstance(node.comparators[0].value, bool)) \
                and isinstance(node.ops[0], (ast.Eq, ast.Is, ast.NotEq, ast.IsNot)):
            eq = val if isinstance(node.ops[0], (ast.Eq, ast.Is)) else not val       # truth of `left == const`
            return walk_(node.left, eq if node.comparators[0].value is True else not eq)
        put(unparse(node), val)

    for t, v in conds:
        try:
            node = ast.parse(t, mode="eval").body
        except SyntaxError:
            put(t, bool(v))
            continue
        walk_(node, bool(v))
    for t in clash:
        out[t] = None
    return out


def fact(fx, suffix):
    """value of the atom(s) whose text ends with suffix: True / False, None if absent or contradictory"""
    vals = {v for t, v in fx.items() if t.endswith(suffix)}
    return vals.pop() if len(vals) == 1 else None


MODES = ("DD", "PDD", "PDA")


def demand_modes(fx):
    """set of demand models for which the path's tests on `...demand_model` hold (truth table over the three models), None if the path
    does not test the demand model or a test cannot be evaluated"""
    def lit(n, m):
        if isinstance(n, ast.Constant):
            return n.value
        if isinstance(n, (ast.List, ast.Tuple, ast.Set)) and all(isinstance(x, ast.Constant) for x in n.elts):
            return [x.value for x in n.elts]
        if unparse(n).endswith("demand_model"):
            return m
        raise ValueError(unparse(n))

    def ev(n, m):
        if isinstance(n, ast.UnaryOp) and isinstance(n.op, ast.Not):
            return not ev(n.operand, m)
        if isinstance(n, ast.BoolOp):
            vs = [ev(v, m) for v in n.values]
            return all(vs) if isinstance(n.op, ast.And) else any(vs)
        if isinstance(n, ast.Compare) and len(n.ops) == 1:
            a, b, op = lit(n.left, m), lit(n.comparators[0], m), n.ops[0]
            if isinstance(op, (ast.Eq, ast.Is)):
                return a == b
            if isinstance(op, (ast.NotEq, ast.IsNot)):
                return a != b
            if isinstance(op, ast.In):
                return a in b
            if isinstance(op, ast.NotIn):
                return a not in b
        raise ValueError(unparse(n))
    live, used = set(MODES), False
    for atom, val in fx.items():
        if "demand_model" not in atom or val is None:
            continue
        try:
            node = ast.parse(atom, mode="eval").body
            live = {m for m in live if ev(node, m) == val}
        except (SyntaxError, ValueError, TypeError):
            return None
        used = True
    return live if used else None


_SUM_RE = re.compile(r"^SUM\{(?P<elt>.*) : (?P<var>[A-Za-z_]\w*) in (?P<it>.*?)(?: if (?P<cond>.*))?\}$")


def sum_parts(name):
    """SUM{elt : v in iter [if cond]} -> (elt, iter, cond) with the bound variable v written `$k` (alpha-normal form), or None"""
    m = _SUM_RE.match(name)
    if not m:
        return None
    ren = lambda t: re.sub(r"(?<![\w.])%s\b" % re.escape(m.group("var")), "$k", t) if t else t
    return ren(m.group("elt")), m.group("it"), ren(m.group("cond"))


def links_iter(text):
    """`<recv>.get_links_for_node(<node>[, flag])` -> (recv text, node text, FLAG) or None; the flag may be positional or a keyword"""
    try:
        n = ast.parse(text, mode="eval").body
    except SyntaxError:
        return None
    if not (isinstance(n, ast.Call) and isinstance(n.func, ast.Attribute) and n.func.attr == "get_links_for_node"):
        return None
    args = list(n.args)
    kw = {k.arg: k.value for k in n.keywords}
    node = args[0] if args else kw.get("node_name")
    flag = args[1] if len(args) > 1 else kw.get("flag")
    fl = "ALL" if flag is None else (flag.value.upper() if isinstance(flag, ast.Constant) and isinstance(flag.value, str) else None)
    if node is None or fl is None:
        return None
    return unparse(n.func.value), unparse(node), fl


def flow_sums(expr, elts, recv, node):
    """{symbol: (FLAG, sign)} for the SUM symbols of expr that add `elt` (one of elts, possibly negated) over <recv>.get_links_for_node(<node>, FLAG)"""
    out = {}
    for s in expr.free_symbols:
        p = sum_parts(s.name)
        if not p or p[2]:
            continue
        elt, sign = (p[0][1:], -1) if p[0].startswith("-") else (p[0], 1)
        li = links_iter(p[1])
        if elt in elts and li and li[0] == recv and li[1] == node:
            out[s] = (li[2], sign)
    return out


def split_balance(expr, dname, key):
    """-> dict of coefficients for D, IN, OUT, LEAK of the junction whose row is stored under `key`, and the remainder."""
    expr = sp.expand(expr)
    co = {"D": 0, "IN": 0, "OUT": 0, "LEAK": 0}
    rest = expr
    sums = flow_sums(expr, ("m.flow[$k]",), "wn", key)
    for s in list(expr.free_symbols):
        c = expr.coeff(s)
        role, sign = None, 1
        if s.name == "m.%s[%s]" % (dname, key):
            role = "D"
        elif s.name == "m.leak_rate[%s]" % key:
            role = "LEAK"
        elif s in sums and sums[s][0] in ("INLET", "OUTLET"):
            role, sign = ("IN" if sums[s][0] == "INLET" else "OUT"), sums[s][1]
        if role:
            co[role] += c * sign
            rest = rest - c * s
    return co, sp.simplify(rest)


def loop_vars(st):
    """{iteration text: tuple of loop variable names} of the element loops entered on a path"""
    out = {}
    for e in st.events:
        if e[0] == "loop" and e[1] != "while":
            out.setdefault(e[2], tuple(x.strip() for x in e[1].strip("()[] ").split(",")))
    return out


def resolve_local(fn, node):
    """a Name bound exactly once in fn by a plain assignment stands for the assigned expression (def-use following of a temporary)"""
    seen = 0
    while isinstance(node, ast.Name) and seen < 5:
        defs = [s for s in walk(fn) if isinstance(s, ast.Assign) and len(s.targets) == 1 and isinstance(s.targets[0], ast.Name) and s.targets[0].id == node.id]
        others = [n for n in walk(fn) if isinstance(n, ast.Name) and n.id == node.id and isinstance(n.ctx, ast.Store)]
        if len(defs) != 1 or len(others) != 1:
            break
        node = defs[0].value
        seen += 1
    return node


# ------------------------------------------------------------------ concrete evaluation of small functions on a fixture
class _Break(Exception):
    pass


class _Continue(Exception):
    pass


class Closure(object):
    def __init__(self, node, env, defaults):
        self.node, self.env, self.defaults = node, env, defaults


class Conc(Evaluator):
    """peval.Evaluator extended to the statement kinds small query functions use (loops, comprehensions, nested defs, containers, strings).
    Control flow and containers are concrete (a fixture), numbers may be sympy terms: the result of an accumulation is then an exact formula
    in the fixture's symbols, whatever way (loop, merged loops, comprehension, sum(), helper) the code is written.  Fixture objects are Obj
    whose attributes may be python callables.  Anything not modelled raises Unknown (an analysis error, never a verdict)."""
    BUDGET = 200000

    def __init__(self, env=None, budget=None):
        Evaluator.__init__(self, env)
        self.budget = budget if budget is not None else [self.BUDGET]

    def child(self, env):
        return Conc(env, self.budget)

    def ev(self, n):
        self.budget[0] -= 1
        if self.budget[0] < 0:
            raise Unknown("evaluation budget exhausted")
        return Evaluator.ev(self, n)

    # -------------------------------------------------------- values
    def truth(self, v):
        if isinstance(v, sp.Basic) and not v.is_number:
            raise Unknown("truth value of a symbolic term %s" % v)
        return Evaluator.truth(self, v)

    def iterate(self, v):
        if isinstance(v, (list, tuple, str, range)):
            return list(v)
        if isinstance(v, dict):
            return list(v.keys())
        if isinstance(v, Obj) and "__iter__" in v.attrs:
            return list(v.attrs["__iter__"])
        raise Unknown("cannot iterate over %r" % (v,))

    def binop(self, op, a, b, n):
        if isinstance(a, sp.Basic) or isinstance(b, sp.Basic):
            num = lambda v: isinstance(v, sp.Basic) or (isinstance(v, (int, float)) and not isinstance(v, bool))
            if not (num(a) and num(b)):
                raise Unknown("arithmetic on %r and %r" % (a, b))
            x, y = (a if isinstance(a, sp.Basic) else rat(a)), (b if isinstance(b, sp.Basic) else rat(b))
            if isinstance(op, ast.Add):
                return x + y
            if isinstance(op, ast.Sub):
                return x - y
            if isinstance(op, ast.Mult):
                return x * y
            if isinstance(op, ast.Div):
                return x / y
            if isinstance(op, ast.Pow):
                return x ** y
            raise Unknown("binary op %s on symbolic terms" % type(op).__name__)
        if isinstance(op, ast.Add) and isinstance(a, (list, tuple)) and type(a) is type(b):
            return a + b
        if isinstance(op, ast.Mod) and isinstance(a, str):
            try:
                return a % (tuple(b) if isinstance(b, (list, tuple)) else b)
            except (TypeError, ValueError) as e:
                raise Unknown("string formatting: %s" % e)
        return Evaluator.binop(self, op, a, b, n)

    def e_Compare(self, n):
        try:
            if len(n.ops) == 1 and isinstance(n.ops[0], (ast.In, ast.NotIn)):
                a, b = self.ev(n.left), self.ev(n.comparators[0])
                if isinstance(b, str) or isinstance(b, dict):      # substring / key test (the base class compares element-wise)
                    return (a in b) == isinstance(n.ops[0], ast.In)
                return any(a == x for x in self.iterate(b)) == isinstance(n.ops[0], ast.In)
            return Evaluator.e_Compare(self, n)
        except TypeError as e:
            raise Unknown("comparison %s: %s" % (unparse(n), e))

    def e_Name(self, n):
        if n.id in self.env:
            return self.env[n.id]
        if n.id in ("True", "False", "None"):
            return {"True": True, "False": False, "None": None}[n.id]
        raise Unknown("unbound name %s" % n.id)

    def e_Attribute(self, n):
        base = self.ev(n.value)
        if isinstance(base, Obj) and n.attr in base.attrs:
            return base.attrs[n.attr]
        raise Unknown("unknown attribute %s of %r" % (n.attr, base))

    def e_Dict(self, n):
        if any(k is None for k in n.keys):
            raise Unknown("dict unpacking")
        return {self.ev(k): self.ev(v) for k, v in zip(n.keys, n.values)}

    def e_Subscript(self, n):
        b = self.ev(n.value)
        if isinstance(n.slice, ast.Slice):
            lo, hi, stp = [self.ev(x) if x is not None else None for x in (n.slice.lower, n.slice.upper, n.slice.step)]
            if isinstance(b, (list, tuple, str)):
                return b[lo:hi:stp]
            raise Unknown("slice of %r" % (b,))
        k = self.ev(n.slice)
        try:
            if isinstance(b, (list, tuple, str, dict)):
                return b[tuple(k) if isinstance(k, list) else k]
        except (KeyError, IndexError, TypeError) as e:
            raise Unknown("subscript %s: %r" % (unparse(n), e))
        raise Unknown("subscript of %r" % (b,))

    def e_JoinedStr(self, n):
        out = []
        for v in n.values:
            if isinstance(v, ast.Constant):
                out.append(str(v.value))
            elif isinstance(v, ast.FormattedValue) and v.conversion == -1 and v.format_spec is None:
                out.append(format(self.ev(v.value)))
            else:
                raise Unknown("f-string conversion / format spec")
        return "".join(out)

    def e_Lambda(self, n):
        return Closure(n, self.env, [self.ev(d) for d in n.args.defaults])

    def _comp(self, gens, emit):
        sub = self.child(dict(self.env))

        def rec(i):
            if i == len(gens):
                emit(sub)
                return
            for x in self.iterate(sub.ev(gens[i].iter)):
                sub.assign(gens[i].target, x)
                if all(sub.truth(sub.ev(c)) for c in gens[i].ifs):
                    rec(i + 1)
        rec(0)

    def e_ListComp(self, n):
        out = []
        self._comp(n.generators, lambda sub: out.append(sub.ev(n.elt)))
        return out

    e_GeneratorExp = e_ListComp
    e_SetComp = e_ListComp

    def e_DictComp(self, n):
        out = {}
        self._comp(n.generators, lambda sub: out.__setitem__(sub.ev(n.key), sub.ev(n.value)))
        return out

    # -------------------------------------------------------- calls
    def e_Call(self, n):
        args = []
        for a in n.args:
            if isinstance(a, ast.Starred):
                args.extend(self.iterate(self.ev(a.value)))
            else:
                args.append(self.ev(a))
        if any(k.arg is None for k in n.keywords):
            raise Unknown("** arguments")
        kwargs = {k.arg: self.ev(k.value) for k in n.keywords}
        f = n.func
        if isinstance(f, ast.Name) and f.id not in self.env:
            return self.builtin(f.id, args, kwargs, n)
        if isinstance(f, ast.Attribute):
            base = self.ev(f.value)
            if not (isinstance(base, Obj) and f.attr in base.attrs):
                return self.method(base, f.attr, args, kwargs, n)
            fv = base.attrs[f.attr]
        else:
            fv = self.ev(f)
        return self.apply(fv, args, kwargs, n)

    def apply(self, fv, args, kwargs, n):
        if isinstance(fv, Closure):
            a = fv.node.args
            if a.vararg or a.kwarg or a.posonlyargs or a.kwonlyargs:
                raise Unknown("signature of %s" % unparse(n))
            params = [x.arg for x in a.args]
            if len(args) > len(params) or any(k not in params for k in kwargs):
                raise Unknown("arguments of %s" % unparse(n))
            bound = dict(zip(params[len(params) - len(fv.defaults):], fv.defaults))
            bound.update(zip(params, args))
            bound.update(kwargs)
            if any(p not in bound for p in params):
                raise Unknown("missing arguments in %s" % unparse(n))
            env = dict(fv.env)              # free names are looked up when the function is called, as python does
            env.update(bound)
            sub = self.child(env)
            if isinstance(fv.node, ast.Lambda):
                return sub.ev(fv.node.body)
            return sub.run(fv.node.body)
        if callable(fv):
            return fv(*args, **kwargs)
        raise Unknown("call of %r" % (fv,))

    def builtin(self, name, args, kwargs, n):
        if kwargs and name not in ("sorted", "sum"):
            raise Unknown("call %s not modelled" % unparse(n))
        if name == "sum" and 1 <= len(args) <= 2:
            tot = args[1] if len(args) > 1 else kwargs.get("start", 0)
            for x in self.iterate(args[0]):
                tot = self.binop(ast.Add(), tot, x, n)
            return tot
        if name == "len" and len(args) == 1:
            return len(self.iterate(args[0]))
        if name in ("list", "tuple", "set", "frozenset", "sorted") and len(args) <= 1:
            items = self.iterate(args[0]) if args else []
            if name in ("set", "frozenset"):
                out = []
                for x in items:
                    if not any(x == y for y in out):
                        out.append(x)
                return out
            if name == "sorted":
                if kwargs:
                    raise Unknown("sorted with key")
                return sorted(items)
            return tuple(items) if name == "tuple" else list(items)
        if name in ("any", "all") and len(args) == 1:
            return (any if name == "any" else all)(self.truth(x) for x in self.iterate(args[0]))
        if name == "range" and all(isinstance(a, int) for a in args):
            return list(range(*args))
        if name == "enumerate" and len(args) == 1:
            return [(i, x) for i, x in enumerate(self.iterate(args[0]))]
        if name == "zip":
            return [tuple(t) for t in zip(*[self.iterate(a) for a in args])]
        if name == "bool" and len(args) == 1:
            return self.truth(args[0])
        if name == "str" and len(args) == 1 and isinstance(args[0], (str, int, float, bool, type(None))):
            return str(args[0])
        if name in ("float", "int", "abs") and len(args) == 1:
            if isinstance(args[0], sp.Basic):
                if name == "float":
                    return args[0]
                raise Unknown("%s of a symbolic term" % name)
            if isinstance(args[0], (int, float, str)) and not isinstance(args[0], bool):
                try:
                    return {"float": float, "int": int, "abs": abs}[name](args[0])
                except (TypeError, ValueError) as e:
                    raise Unknown(str(e))
        if name == "isinstance" and len(args) == 2 and isinstance(args[0], Obj) and args[0].cls is not None:
            cl = args[1] if isinstance(args[1], (list, tuple)) else [args[1]]
            return any(getattr(c, "name", c) == args[0].cls for c in cl)
        raise Unknown("call %s not modelled" % unparse(n))

    def method(self, base, attr, args, kwargs, n):
        try:
            if isinstance(base, str) and attr in ("upper", "lower", "strip", "format", "startswith", "endswith", "join", "split", "replace", "capitalize", "casefold"):
                if attr == "join":
                    return base.join(self.iterate(args[0]))
                return getattr(base, attr)(*args, **kwargs)
            if isinstance(base, list) and attr in ("append", "extend", "insert", "copy", "index", "count", "pop") and not kwargs:
                if attr == "extend":
                    return base.extend(self.iterate(args[0]))
                return getattr(base, attr)(*args)
            if isinstance(base, dict) and attr in ("get", "items", "keys", "values", "setdefault") and not kwargs:
                r = getattr(base, attr)(*args)
                return [tuple(x) if attr == "items" else x for x in r] if attr in ("items", "keys", "values") else r
        except (TypeError, ValueError, KeyError, IndexError) as e:
            raise Unknown("%s: %r" % (unparse(n), e))
        raise Unknown("method %s of %r not modelled" % (attr, base))

    # -------------------------------------------------------- statements
    def stmt(self, s):
        if isinstance(s, ast.For):
            for x in self.iterate(self.ev(s.iter)):
                self.assign(s.target, x)
                try:
                    self.block(s.body)
                except _Continue:
                    continue
                except _Break:
                    break
            else:
                self.block(s.orelse)
            return
        if isinstance(s, ast.Break):
            raise _Break()
        if isinstance(s, ast.Continue):
            raise _Continue()
        if isinstance(s, ast.FunctionDef):
            if s.decorator_list:
                raise Unknown("decorated nested function %s" % s.name)
            self.env[s.name] = Closure(s, self.env, [self.ev(d) for d in s.args.defaults])
            return
        if isinstance(s, ast.AnnAssign):
            if s.value is not None:
                self.assign(s.target, self.ev(s.value))
            return
        if isinstance(s, ast.Assert):
            return
        return Evaluator.stmt(self, s)

    def assign(self, t, v):
        if isinstance(t, ast.Subscript):
            base = self.ev(t.value)
            k = self.ev(t.slice)
            if isinstance(base, dict) or (isinstance(base, list) and isinstance(k, int)):
                try:
                    base[tuple(k) if isinstance(k, list) else k] = v
                except (IndexError, TypeError) as e:
                    raise Unknown(str(e))
                return
            raise Unknown("unsupported assignment target %s" % unparse(t))
        if isinstance(t, ast.Starred):
            raise Unknown("starred assignment")
        return Evaluator.assign(self, t, v)


def call_concrete(fn, bound):
    """evaluate the FunctionDef fn on the fixture `bound` (parameter name -> value; parameters left out take their literal default).
    -> ("value", v) | ("raises", text); Unknown propagates (analysis error)."""
    a = fn.args
    params = [x.arg for x in a.args]
    env = {}
    for p, d in zip(params[len(params) - len(a.defaults):], a.defaults):
        env[p] = Conc().ev(d)
    env.update(bound)
    missing = [p for p in params if p not in env]
    if missing or a.vararg or a.kwarg:
        raise ExtractError("%s: parameters %s are not part of the modelled interface" % (fn.name, missing or "*args/**kwargs"))
    try:
        return "value", Conc(env).run(fn.body)
    except Raised as r:
        return "raises", unparse(r.node)
    except (_Break, _Continue):
        raise ExtractError("%s: break/continue outside a loop" % fn.name)
    except RecursionError:
        raise ExtractError("%s: recursion too deep for the concrete evaluator" % fn.name)


# fixture network for get_links_for_node: parallel links, a link drawn the other way round, a pump and valves, a self loop, a node that is
# only used by non-link objects, a node nothing uses.  link name -> (usage type, start node, end node)
FIX_LINKS = {"P1": ("Pipe", "A", "B"), "P2": ("Pipe", "B", "A"), "P3": ("Pipe", "A", "B"), "PU": ("Pump", "C", "A"), "V1": ("Valve", "A", "D"),
             "P4": ("Pipe", "B", "C"), "V2": ("Valve", "D", "C"), "P5": ("Pipe", "D", "D")}
FIX_NODES = ("A", "B", "C", "D", "F", "G")


def adjacency(repo):
    """get_links_for_node evaluated on the fixture for every node and flag.
    -> fn, {flag: set of link-end attributes the result selects on (empty set: none of start / end / either)}, {flag: only link-typed usages kept},
       {flag: text of the first disagreement}"""
    fn = repo.func(MODEL, "WaterNetworkModel.get_links_for_node")
    usage = {}
    for nd in FIX_NODES[:5]:
        recs = [(l, t) for l, (t, s, e) in FIX_LINKS.items() if nd in (s, e)]
        # the registry also lists non-link users of a node; they sit between the link records
        recs.insert(len(recs) // 2, ("S-" + nd, "Source"))
        recs.append(("C-" + nd, "Control"))
        usage[nd] = recs

    def node_obj(nm):
        return Obj("node:" + nm, {"name": nm}, cls="Junction")

    def get_link(name):
        if name in FIX_LINKS:
            t, s, e = FIX_LINKS[name]
        else:
            # a non-link user looked up as a link: made to look attached at both ends, so that a missing type filter shows in the result
            t, s, e = "Source", name[2:], name[2:]
        return Obj("link:" + name, {"name": name, "link_type": t, "start_node_name": s, "end_node_name": e, "start_node": node_obj(s), "end_node": node_obj(e)}, cls=t)

    def make_self():
        reg = Obj("node_reg", {"get_usage": lambda nm: (list(usage[nm]) if nm in usage else None)})
        return Obj("self", {"_node_reg": reg, "get_link": get_link, "_link_reg": {l: get_link(l) for l in FIX_LINKS},
                            "link_name_list": list(FIX_LINKS)})
    logger = Obj("logger", {k: (lambda *a, **k_: None) for k in ("error", "warning", "info", "debug", "critical")})
    want = {"start_node_name": lambda nd: sorted(l for l, (t, s, e) in FIX_LINKS.items() if s == nd),
            "end_node_name": lambda nd: sorted(l for l, (t, s, e) in FIX_LINKS.items() if e == nd),
            "both": lambda nd: sorted(l for l, (t, s, e) in FIX_LINKS.items() if nd in (s, e))}
    adj, typed, why = {}, {}, {}
    for flag in ("ALL", "INLET", "OUTLET", None):
        res = {}
        for nd in FIX_NODES:
            bound = {"self": make_self(), "node_name": nd, "logger": logger}
            if flag is not None:
                bound["flag"] = flag
            kind, val = call_concrete(fn, bound)
            if kind != "value" or not isinstance(val, (list, tuple)) or not all(isinstance(x, str) for x in val):
                res = None
                why[flag] = "get_links_for_node(%r, %r) -> %s %r" % (nd, flag, kind, val)
                break
            res[nd] = list(val)
        if res is None:
            continue
        typed[flag] = all(x in FIX_LINKS for v in res.values() for x in v)
        links_only = {nd: sorted(x for x in v if x in FIX_LINKS) for nd, v in res.items()}
        sel = [k for k, f in want.items() if all(links_only[nd] == f(nd) for nd in FIX_NODES)]
        adj[flag] = {"start_node_name", "end_node_name"} if sel == ["both"] else set(sel)
        if not sel:
            bad_nd = [nd for nd in FIX_NODES if links_only[nd] not in [f(nd) for f in want.values()]] or list(FIX_NODES)
            why[flag] = "node %s of the fixture %s: got %s" % (bad_nd[0], {l: v[1:] for l, v in FIX_LINKS.items() if bad_nd[0] in v[1:]}, res[bad_nd[0]])
        elif not typed[flag]:
            why[flag] = "non-link users returned: %s" % sorted(x for v in res.values() for x in v if x not in FIX_LINKS)
    return fn, adj, typed, why


def demands_at_table(repo):
    """Demands.at evaluated on a fixture list of six entries (categories None / 'ind' / '' / None / 'ind' / 'res') whose .at(t) are the
    symbols d_i(t); time and multiplier are the symbols T and M.  -> fn, [(label, selected entry indices, multiplier term, result | error text)]"""
    fn = repo.func(ELEM, "Demands.at")
    cats = [None, "ind", "", None, "ind", "res"]
    T, M = sp.Symbol("T"), sp.Symbol("M")
    dsym = lambda i, t: sp.Symbol("d%d(%s)" % (i, t))

    def make_self():
        dems = [Obj("dem%d" % i, {"category": c, "at": (lambda t, i=i: dsym(i, t))}) for i, c in enumerate(cats)]
        return Obj("self", {"_list": dems, "__iter__": dems})
    rows = []
    allx = list(range(len(cats)))
    for label, cat, mult in (("all", "omitted", M), ("all", None, M), ("all", "", M), ("category", "ind", M), ("category", "res", M), ("category", "nope", M),
                             ("default-multiplier", None, "omitted"), ("default-multiplier", "ind", "omitted")):
        bound = {"self": make_self(), "time": T}
        if cat != "omitted":
            bound["category"] = cat
        if not isinstance(mult, str):
            bound["multiplier"] = mult
        sel = allx if not cat or cat == "omitted" else [i for i in allx if cats[i] == cat]
        mterm = sp.Integer(1) if isinstance(mult, str) else mult
        kind, val = call_concrete(fn, bound)
        want = sum((dsym(i, T) * mterm for i in sel), sp.Integer(0))
        try:
            ok = kind == "value" and val is not None and not isinstance(val, (bool, str, list, tuple, dict, Obj)) and sp.expand(sp.sympify(rat(val) if isinstance(val, float) else val) - want) == 0
        except (sp.SympifyError, TypeError):
            ok = False
        rows.append((label, "category=%r multiplier=%s" % (cat, mult), ok, str(want), "%s %s" % (kind, val)))
    return fn, rows


def graph_entries(repo, ig):
    """values handed to the sparse-matrix constructor in _initialize_internal_graph for ONE link of the element loop, per path:
    -> [(closed: True / False / None, data entries, [(row, col)], path label)].  closed is what the path's tests force on `status == Closed`."""
    cap = []

    def hook(name, n, args, kwargs, st, ex, recv):
        last = (name or "").split(".")[-1]
        if last in ("array", "asarray") and args and isinstance(args[0], (list, tuple)):
            return args[0]          # np.array(list) keeps the entries
        if last in ("csr_matrix", "coo_matrix", "csc_matrix"):
            cap.append((args, kwargs, list(st.conds), st.label()))
        return NotImplemented
    ex = SplitExec(call_hook=hook)
    ex.run(ig)
    out = []
    for args, kwargs, conds, label in cap:
        a0 = args[0] if args else kwargs.get("arg1")
        try:
            data, (rows, cols) = a0
            data, rows, cols = list(data), list(rows), list(cols)
        except (TypeError, ValueError):
            raise ExtractError("_initialize_internal_graph: sparse matrix is not built from (data, (rows, cols)) lists: %r" % (a0,))
        fx = facts(conds)
        closed = set()
        for t, v in fx.items():
            m = re.match(r"^(\S+)\.status (==|!=|is|is not) (?:[\w.]+\.)?LinkStatus\.Closed$", t)
            if m and v is not None:
                closed.add(v if m.group(2) in ("==", "is") else not v)
        txt = lambda v: v.text if isinstance(v, Opaque) else str(v)
        out.append((closed.pop() if len(closed) == 1 else None, data, list(zip(map(txt, rows), map(txt, cols))), label))
    return out


def pair_rule(repo, ig, chk, rule):
    """the links of a node pair joined by several links are collected regardless of their direction.
    Decided by interpreting WNTRSimulator(wn) and _initialize_internal_graph (sa/concrete.py, the mock network family of C09: parallel links
    drawn the same way, drawn in opposite directions, triples, pumps and valves between junctions) and reading the table of multi-link node
    pairs the simulator is left with -- found by content (the attribute that maps keys to lists of links), not by name or statement shape."""
    from ..concrete import ProgramError, Instance
    from .c09 import make_world, MockWN, link_status_enum, attr_values, MLink, NODES, LINKS
    LS = link_status_enum(repo)
    # the scenario network of C09 plus a pair whose FIRST link (in registry order) is drawn towards the node that is numbered first, and a triple
    links = list(LINKS) + [("PX1", "pipe", "J10", "J9", "Open", 0), ("PX2", "pipe", "J6", "JL", "Closed", 0), ("PX3", "pipe", "JL", "J6", "Open", 0), ("PX4", "pipe", "J6", "JL", "Closed", 1)]
    wn = MockWN(LS, NODES, links)
    world, state = make_world(repo, LS)
    try:
        sim = world.function(CORE, "WNTRSimulator")(wn)
        if not isinstance(sim, Instance):
            raise ExtractError("WNTRSimulator is not a class of %s" % CORE)
        world.interp.getattr_(sim, "_initialize_internal_graph")()
    except ProgramError as e:
        raise ExtractError("_initialize_internal_graph raises on the mock network: %s (line %s)" % (e, e.lineno))
    tables = [v for v in attr_values(sim, 0) if isinstance(v, dict) and v and all(isinstance(x, (list, tuple)) and x and all(isinstance(l, MLink) for l in x) for x in v.values())]
    pairs = {k: v for k, v in wn.neighbours().items() if len(v) > 1}          # {frozenset({a, b}): [links]} -- independent of direction
    if len(tables) != 1:
        raise ExtractError("_initialize_internal_graph: expected one attribute mapping node pairs to lists of links, found %d" % len(tables))
    wrong, covered = [], {}
    for key, lst in tables[0].items():
        ends = {frozenset((l.start_node_name, l.end_node_name)) for l in lst}
        if len(ends) != 1 or list(ends)[0] not in pairs:
            wrong.append("entry %s holds %s, which is not the set of links of one multi-link node pair" % (key, [l.name for l in lst]))
            continue
        pr = list(ends)[0]
        covered[pr] = covered.get(pr, 0) + 1
        if sorted(l.name for l in lst) != sorted(l.name for l in pairs[pr]):
            wrong.append("pair %s: collected %s, joined by %s" % (sorted(pr), sorted(l.name for l in lst),
                                                               ["%s %s->%s" % (l.name, l.start_node_name, l.end_node_name) for l in pairs[pr]]))
    for pr in pairs:
        if covered.get(pr, 0) != 1:
            wrong.append("pair %s joined by %s has %d entries" % (sorted(pr), [l.name for l in pairs[pr]], covered.get(pr, 0)))
    chk.expect(not wrong, rule, "the links of a node pair joined by several links are collected in both directions (a->b and b->a)", loc(ig),
               "a parallel link drawn the other way round must share the pair's graph entry: if it is left out, closing its twin marks the pair disconnected although "
               "the reversed link is open, and connected junctions behind it are reported with zero demand; evaluated on a mock network with %d multi-link pairs" % len(pairs),
               expected="one entry per multi-link node pair holding all its links", found="; ".join(wrong[:3]) or None)


def run(repo, chk):
    # ---------------------------------------------------------------- R-C01-2b the adjacency view follows edits of the links' ends (interpreted history on the fixture model); first, so that it decides on its own
    with chk.part("R-C01-2b the adjacency view follows edits of the links' ends (interpreted history on the f"):
        from ._shared import adjacency_history_rules
        adjacency_history_rules(repo, chk, "R-C01-2b")

    # ---------------------------------------------------------------- R-C01-1 balance rows
    with chk.part("R-C01-1 balance rows"):
        sig_mb = {}
        for bname, dname, dictname in (("mass_balance_constraint", "expected_demand", "mass_balance"), ("pdd_mass_balance_constraint", "demand", "pdd_mass_balance")):
            fn = repo.func(CON, bname + ".build")
            ex = SplitExec(inline=B.inline_table(repo), test_hook=B.std_test_hook)
            outs = ex.run(fn)
            if not outs:
                raise ExtractError("%s.build: no paths" % bname)
            paths = [B.Path(o) for o in outs]
            chk.fn(fn)
            loops = [e for e in paths[0].st.events if e[0] == "loop"]
            main = loops[0] if loops else None
            chk.expect(main is not None and main[2] == "wn.junction_name_list", "R-C01-1", "%s: default index set is every junction" % bname, loc(fn),
                       expected="wn.junction_name_list", found=main[2] if main else None)
            key = main[1] if main else "node_name"          # the loop variable: name of the junction the row belongs to
            for p in paths:
                fx = facts(p.conds)
                iso, leak = fact(fx, "._is_isolated"), fact(fx, ".leak_status")
                st = p.stores("m.%s[" % dictname)
                if iso:
                    chk.expect(not st, "R-C01-1", "%s: isolated junction gets no balance row" % bname, loc(fn), found=[s[0] for s in st])
                    continue
                if iso is None:
                    chk.bad("R-C01-1", "%s: balance row is guarded by the isolated test" % bname, loc(fn), found=p.label)
                ok_key = len(st) == 1 and st[0][0] == "m.%s[%s]" % (dictname, key) and isinstance(st[0][1], Constraint) and not isinstance(st[0][1].expr, CondExpr)
                if not ok_key:
                    chk.bad("R-C01-1", "%s: one row per connected junction under the junction's name" % bname, loc(fn), found=[s[0] for s in st])
                    continue
                e = ex.S(st[0][1].expr)
                co, rest = split_balance(e, dname, key)
                has_leak = bool(leak)
                cD = co["D"]
                tag = "%s [leak %s]" % (bname, "on" if has_leak else "off")
                good = cD != 0 and rest == 0 and co["IN"] == -cD and co["OUT"] == cD and co["LEAK"] == (cD if has_leak else 0)
                chk.expect(good, "R-C01-1", "%s: row is  D - sum(inlet flows) + sum(outlet flows)%s  (up to one global sign)" % (tag, " + leak" if has_leak else ""), loc(fn, None),
                           "junction mass balance: inflow - outflow = demand + leak", expected="D:+1 IN:-1 OUT:+1 LEAK:%s rest:0" % ("+1" if has_leak else "0"),
                           found="D:%s IN:%s OUT:%s LEAK:%s rest:%s" % (co["D"], co["IN"], co["OUT"], co["LEAK"], rest))
                if cD != 0:
                    sig_mb.setdefault(bname, set()).add(sp.sign(-co["IN"] / cD) if co["IN"] != 0 else 0)
                chk.sample({"rule": "R-C01-1", "builder": bname, "leak": has_leak, "row": str(e)})
                if leak is None:
                    chk.bad("R-C01-1", "%s: leak term is guarded by leak_status" % bname, loc(fn), found=p.label)
            B.check_updaters(chk, "R-C01-1", fn, bname, paths, {"leak_status", "_is_isolated"}, loc(fn))
        chk.floor("R-C01-1", 2 * 5)

    # ---------------------------------------------------------------- R-C01-2 adjacency
    with chk.part("R-C01-2 adjacency"):
        # get_links_for_node is evaluated on a fixture network (concrete registry, concrete links): what it returns decides, not how it is written
        sig_adj = None
        try:
            gfn, adj, typed, why = adjacency(repo)
            chk.fn(gfn)
            want = {"ALL": {"start_node_name", "end_node_name"}, "INLET": {"end_node_name"}, "OUTLET": {"start_node_name"}}
            for flag in ("ALL", "INLET", "OUTLET"):
                if flag not in adj:
                    chk.bad("R-C01-2", "get_links_for_node handles flag %s" % flag, loc(gfn), found=why.get(flag, sorted(k for k in adj if k)))
                    continue
                chk.expect(typed.get(flag), "R-C01-2", "get_links_for_node(%s) keeps only link-typed usages" % flag, loc(gfn), found=why.get(flag))
            consistent = adj.get("INLET") and adj.get("OUTLET") and len(adj["INLET"]) == 1 and len(adj["OUTLET"]) == 1 and adj["INLET"] != adj["OUTLET"] \
                and adj.get("ALL") == {"start_node_name", "end_node_name"}
            chk.expect(bool(consistent), "R-C01-2", "INLET and OUTLET select opposite ends and ALL both", loc(gfn), expected=want,
                       found="%s %s" % ({k: sorted(v) for k, v in adj.items() if k}, "; ".join("%s: %s" % (k, v) for k, v in why.items() if k)))
            chk.expect(None in adj and adj[None] == adj.get("ALL") and typed.get(None) == typed.get("ALL"), "R-C01-2", "get_links_for_node without a flag means ALL", loc(gfn),
                       "callers that want every link of a node (parallel-link table of the isolation graph) leave the flag out", found=why.get(None, adj.get(None)))
            sig_adj = 1 if adj.get("INLET") == {"end_node_name"} else (-1 if adj.get("INLET") == {"start_node_name"} else 0)
            chk.sample({"rule": "R-C01-2", "adjacency": {str(k): sorted(v) for k, v in adj.items()}})
        except (Unknown, ExtractError) as e:
            # the small registry model of this fixture could not run the method (e.g. it reads an attribute the constructor sets): this rule cannot decide; the
            # interpreted history R-C01-2b above runs the method on a model made by the real constructor and decides on its own
            chk.error("R-C01-2: %s: %s" % (type(e).__name__, e))

    # ---------------------------------------------------------------- R-C01-4 tank / reservoir demand, leak demand, flow copy
    with chk.part("R-C01-4 tank / reservoir demand, leak demand, flow copy"):
        sfn = repo.func(HYD, "store_results_in_network")
        chk.fn(sfn)
        ex = SplitExec()
        outs = ex.run(sfn)
        sig_tank = set()
        seen = {"tank": 0, "res": 0, "jd": set(), "flow": 0, "leakT": 0, "leakJ": 0}
        val_text = lambda v: v.text if isinstance(v, Opaque) else v
        for o in outs:
            lv = loop_vars(o)
            fx = facts(o.conds)
            last = {}                         # (ctx, target) -> value of the latest earlier store on this path
            final = {}                        # (ctx, target) -> value of the last store on this path
            for e in o.events:
                if e[0] == "store":
                    final[((e[4][-1] if len(e) > 4 and e[4] else ""), e[1])] = e[2]
            for e in o.events:
                if e[0] != "store":
                    continue
                loops = e[4] if len(e) > 4 else ()
                ctx = loops[-1] if loops else ""
                prev = dict(last)
                last[(ctx, e[1])] = e[2]
                if len(lv.get(ctx, ())) != 2:
                    continue
                nm, ob = lv[ctx]              # `for <name>, <element> in wn.<kind>()`
                if not e[1].startswith(ob + "."):
                    continue
                attr = e[1][len(ob) + 1:]
                if attr == "_demand" and ctx in ("wn.tanks()", "wn.reservoirs()"):
                    istank = ctx == "wn.tanks()"
                    v = sp.expand(ex.S(e[2]))
                    sums = flow_sums(v, ("wn.get_link($k).flow", "wn.get_link($k)._flow"), "wn", nm)
                    sin = [s for s, (fl, sg) in sums.items() if fl == "INLET"]
                    sout = [s for s, (fl, sg) in sums.items() if fl == "OUTLET"]
                    okv = len(sin) == 1 and len(sout) == 1
                    if okv:
                        ci, co_ = v.coeff(sin[0]) * sums[sin[0]][1], v.coeff(sout[0]) * sums[sout[0]][1]
                        rest = v - v.coeff(sin[0]) * sin[0] - v.coeff(sout[0]) * sout[0]
                        # the leak that is subtracted: either the element's _leak_demand field is read back (then it must have been stored earlier on
                        # this pass) or the value that is stored there on this pass is subtracted directly
                        lsym = ex.sym(ob + "._leak_demand")
                        okl = True
                        if rest.has(lsym):
                            lprev = prev.get((ctx, ob + "._leak_demand"))
                            okl = lprev is not None
                            rest = rest.xreplace({lsym: ex.S(lprev)}) if okl else rest
                        lfin = final.get((ctx, ob + "._leak_demand"))
                        try:
                            lval = ex.S(lfin) if lfin is not None else None
                        except ExtractError:
                            lval = None
                        if istank:
                            okrest = lval is not None and is_zero(rest + lval)
                        else:
                            okrest = is_zero(rest)
                        okv = ci == 1 and co_ == -1 and okl and okrest
                        sig_tank.add(int(ci) if ci in (1, -1) else 0)
                        seen["tank" if istank else "res"] += 1
                    chk.expect(bool(okv), "R-C01-4", "%s demand = sum(inlet flows) - sum(outlet flows)%s" % ("tank" if istank else "reservoir", " - leak" if istank else ""),
                               loc(sfn, None), "reported demand of a tank/reservoir is its net inflow (link.flow of the links that end at it minus of those that start at it), less the tank's own leak demand",
                               found=str(v))
                if attr == "_leak_demand" and ctx in ("wn.tanks()", "wn.junctions()"):
                    ls = fx.get(ob + ".leak_status")
                    iso = fx.get(ob + "._is_isolated")
                    if ctx == "wn.junctions()" and iso:
                        continue
                    if ls is not None:
                        want_ = "m.leak_rate[%s].value" % nm if ls else 0
                        got = val_text(e[2])
                        chk.expect(got == want_, "R-C01-4", "%s leak demand is the leak-rate variable iff the leak is active [%s]" % ("tank" if ctx == "wn.tanks()" else "junction", "active" if ls else "inactive"),
                                   loc(sfn), expected=want_, found=got)
                        seen["leakT" if ctx == "wn.tanks()" else "leakJ"] += 1
                if attr == "_demand" and ctx == "wn.junctions()":
                    if fx.get(ob + "._is_isolated"):
                        continue
                    modes = demand_modes(fx)
                    got = val_text(e[2])
                    for md in sorted(modes or ()):
                        pdd = md != "DD"
                        want_ = ("m.demand[%s].value" if pdd else "m.expected_demand[%s].value") % nm
                        chk.expect(got == want_, "R-C01-5d", "junction delivered demand is copied from %s in %s mode" % (want_.replace("[%s]" % nm, "[name]"), "PDD" if pdd else "DD"), loc(sfn),
                                   expected=want_, found=got)
                        seen["jd"].add(md)
                if attr == "_flow" and ctx == "wn.links()":
                    if fx.get(ob + "._is_isolated") is False:
                        got = val_text(e[2])
                        want_ = "m.flow[%s].value" % nm
                        chk.expect(got == want_, "R-C01-4", "link flow is copied from the flow variable of the same name", loc(sfn), expected=want_, found=got)
                        seen["flow"] += 1
        chk.expect(seen["tank"] >= 1 and seen["res"] >= 1 and seen["jd"] == set(MODES) and seen["flow"] >= 1 and seen["leakT"] >= 2 and seen["leakJ"] >= 2,
                   "R-C01-4", "store_results_in_network: all bookkeeping stores located", loc(sfn), found={k: (sorted(v) if isinstance(v, set) else v) for k, v in seen.items()})

        # public properties read by save_results are the fields written above
        for cls, prop, field in (("Node", "demand", "_demand"), ("Node", "leak_demand", "_leak_demand"), ("Link", "flow", "_flow"), ("Node", "head", "_head")):
            f = repo.func(BASE, "%s.%s" % (cls, prop), kind="getter")
            rets = [s for s in walk(f) if isinstance(s, ast.Return)]
            chk.expect(len(rets) == 1 and dotted(resolve_local(f, rets[0].value)) == "self." + field, "R-C01-5d", "%s.%s returns the run-time field %s" % (cls, prop, field), loc(f), found=unparse(rets[0].value) if rets else None)
        svf = repo.func(HYD, "save_results")
        chk.fn(svf)
        ex2 = SplitExec()
        o2 = ex2.run(svf)
        appends = {}
        for o in o2:
            lv = loop_vars(o)
            for e in o.events:
                if e[0] == "call" and ".append(" in e[1]:
                    m = re.match(r"^(node_res|link_res)\['(\w+)'\]\[(\w+)\]\.append\((.*)\)$", e[1])
                    ctx = e[4][-1] if len(e) > 4 and e[4] else ""
                    if m and len(lv.get(ctx, ())) == 2 and m.group(3) == lv[ctx][0]:
                        # the reported value with the loop's element variable written `$o`
                        appends.setdefault((ctx, m.group(2)), set()).add(re.sub(r"(?<![\w.])%s\b" % re.escape(lv[ctx][1]), "$o", m.group(4)))
        for ctx in ("wn.junctions()", "wn.tanks()", "wn.reservoirs()"):
            chk.expect(appends.get((ctx, "demand")) == {"$o.demand"}, "R-C01-5d", "save_results reports node.demand under 'demand' for %s" % ctx, loc(svf), found=appends.get((ctx, "demand")))
        for ctx in ("wn.junctions()", "wn.tanks()"):
            chk.expect(appends.get((ctx, "leak_demand")) == {"$o.leak_demand"}, "R-C01-5d", "save_results reports node.leak_demand under 'leak_demand' for %s" % ctx, loc(svf), found=appends.get((ctx, "leak_demand")))
        for ctx in ("wn.pipes()", "wn.head_pumps()", "wn.power_pumps()", "wn.valves()"):
            chk.expect(appends.get((ctx, "flowrate")) == {"$o.flow"}, "R-C01-5d", "save_results reports link.flow under 'flowrate' for %s" % ctx, loc(svf), found=appends.get((ctx, "flowrate")))

    # ---------------------------------------------------------------- R-C01-3 convention product
    with chk.part("R-C01-3 convention product"):
        sig_hl = set()
        for bname in ("approx_hazen_williams_headloss_constraint", "piecewise_hazen_williams_headloss_constraint", "head_pump_headloss_constraint",
                      "power_pump_headloss_constraint", "tcv_headloss_constraint", "fcv_headloss_constraint", "prv_headloss_constraint", "psv_headloss_constraint"):
            fn, paths, exb = B.run_builder(repo, CON, bname + ".build")
            dictname = bname.replace("_constraint", "")
            for p in paths:
                if any(v and "LinkStatus.Closed or" in t for t, v in p.conds) or p.has("LinkStatus.Active", True):
                    continue
                st = p.stores("m.%s[" % dictname)
                if not st or not isinstance(st[-1][1], Constraint):
                    continue
                e = st[-1][1].expr
                e = e.final if isinstance(e, CondExpr) else e
                R, _ = B.canon(exb.S(e))
                qp = sp.Symbol("q", positive=True)
                Rp = R.xreplace({B.Q: qp})
                a, dq = sp.diff(Rp, B.HS), sp.diff(Rp, qp)
                if dq.has(B.HE) or dq.has(B.HS):
                    sol = sp.solve(Rp, B.HE)
                    if len(sol) == 1:
                        dq, a = dq.subs(B.HE, sol[0]), a.subs(B.HE, sol[0])
                P = sp.simplify(-a * dq)
                s = 1 if (P.is_positive or P.is_nonnegative) else (-1 if (P.is_negative or P.is_nonpositive) else 0)
                sig_hl.add((bname, s))
                break
        hl = {s for b, s in sig_hl}
        mb = set().union(*sig_mb.values()) if sig_mb else set()
        prod_ok = len(hl) == 1 and len(mb) == 1 and sig_adj not in (0, None) and (list(hl)[0] * list(mb)[0] * sig_adj == 1)
        if sig_adj is not None:
            chk.expect(prod_ok, "R-C01-3", "sign conventions agree: balance row x INLET/OUTLET adjacency x link-row orientation = +1", loc(CON),
                       "positive flow runs start->end, enters the END node, and is subtracted from the junction's demand as inflow; a single flip breaks conservation",
                       expected="+1", found="balance %s, adjacency %s, link rows %s" % (sorted(map(int, mb)), sig_adj, sorted(sig_hl)))
        chk.expect(len(sig_tank) == 1 and list(sig_tank)[0] * (list(mb)[0] if len(mb) == 1 else 0) == 1, "R-C01-3",
                   "tank/reservoir net inflow uses the same INLET-positive convention as the junction rows", loc(sfn), found="tank %s, balance %s" % (sorted(sig_tank), sorted(map(int, mb))))

    # ---------------------------------------------------------------- R-C01-5a requested demand formulas
    with chk.part("R-C01-5a requested demand formulas"):
        # Demands.at is evaluated on a fixture list with symbolic entry values: the result is the exact formula, whatever the loop structure
        dat, rows = demands_at_table(repo)
        chk.fn(dat)
        for label, what, okd, want_, got in rows:
            construct = {"all": "Demands.at = sum over entries of entry.at(time) * multiplier",
                         "category": "Demands.at(category) sums the matching entries times the multiplier",
                         "default-multiplier": "Demands.at: the default multiplier is 1"}[label]
            chk.expect(okd, "R-C01-5a", construct, loc(dat), "fixture: six entries with categories None, 'ind', '', None, 'ind', 'res'; entry i has the value d_i(t); " + what,
                       expected=want_, found=got)
        tat = repo.func(ELEM, "TimeSeries.at")
        chk.fn(tat)
        ext = SplitExec()
        seent = set()
        for o in ext.run(tat):
            pat = facts(o.conds).get("self.pattern")
            if pat is None or o.raised:
                continue
            try:
                r = ext.S(o.ret)
            except ExtractError:
                r = None
            if pat:
                chk.expect(r is not None and is_zero(r - ext.sym("self._base") * ext.sym("self.pattern.at(time)")), "R-C01-5a", "TimeSeries.at = base * pattern.at(time)", loc(tat), found=str(r))
            else:
                chk.expect(r is not None and r == ext.sym("self._base"), "R-C01-5a", "TimeSeries.at without pattern = base", loc(tat), found=str(r))
            seent.add(bool(pat))
        chk.expect(seent == {True, False}, "R-C01-5a", "TimeSeries.at: the paths with and without a pattern located", loc(tat), found=sorted(seent))
        pat_fn = repo.func(ELEM, "Pattern.at")
        chk.fn(pat_fn)
        exp_ = SplitExec(assume=lambda t: {"integer": True, "nonnegative": True} if t.startswith("len(") else {"real": True})
        seenp = set()
        for o in exp_.run(pat_fn):
            if o.raised:
                continue
            c = dict((t, v) for t, v in o.conds)
            from ._shared import forced as _forced
            n0 = _forced("len(self._multipliers) == 0", c)
            n1 = _forced("len(self._multipliers) == 1", c)
            wrap_ = _forced("self.wrap", c)
            if n0:
                chk.expect(o.ret == 1.0, "R-C01-5a", "Pattern.at of an empty pattern is 1.0", loc(pat_fn), found=o.ret)
                seenp.add("empty")
            elif n1 and isinstance(o.ret, Opaque) and o.ret.text == "self._multipliers[0]" and not any("pattern_timestep" in t for t in c):
                # the one-value shortcut (taken before the step is computed): only a wrapping pattern repeats its single value for ever
                chk.expect(wrap_ is True, "R-C01-5a", "Pattern.at: the one-value shortcut applies to wrapping patterns only", loc(pat_fn),
                           "a non-wrapping pattern expires after its last step (documented: 0.0 once exhausted); returning the single multiplier at every time keeps e.g. a "
                           "fire-fighting demand of one pattern step switched on for the rest of the simulation", expected="guarded by self.wrap", found=sorted(c.items()))
                seenp.add("single")
            elif wrap_ is False and c.get("self.wrap") is False:
                # non-wrapping branch: 0.0 outside [0, n), multipliers[step] inside
                if o.ret == 0.0 or o.ret == 0:
                    seenp.add("nowrap-outside")
                elif isinstance(o.ret, Opaque) and o.ret.base is not None and o.ret.base.text == "self._multipliers":
                    seenp.add("nowrap-inside")
            elif c.get("self.wrap") and c.get("self._time_options.pattern_interpolation") is False:
                r = o.ret
                okp = isinstance(r, Opaque) and r.base is not None and r.base.text == "self._multipliers" and isinstance(r.key, sp.Basic)
                if okp:
                    key = r.key.replace(sp.Function("int"), lambda x: x)
                    t_, d_, n_ = exp_.sym("time"), exp_.sym("self._time_options.pattern_timestep"), exp_.sym("len(self._multipliers)")
                    okp = is_zero(key - sp.Mod(sp.floor(t_ / d_), n_))
                chk.expect(bool(okp), "R-C01-5a", "Pattern.at (wrap) = multipliers[ floor(time / pattern_timestep) mod n ]", loc(pat_fn),
                           found=str(getattr(r, "key", r)))
                seenp.add("wrap")
        chk.expect({"empty", "single", "wrap"} <= seenp, "R-C01-5a", "Pattern.at: empty / single / wrap paths located", loc(pat_fn), found=sorted(seenp))
        chk.expect({"nowrap-outside", "nowrap-inside"} <= seenp, "R-C01-5a", "Pattern.at without wrap: 0.0 outside the pattern's steps, the step's multiplier inside", loc(pat_fn), found=sorted(seenp))

    # ---------------------------------------------------------------- R-C01-5b demand clock at every call site in wntr.sim
    with chk.part("R-C01-5b demand clock at every call site in wntr.sim"):
        def demand_call(txt):
            """receiver text if txt is `<receiver>.demand_timeseries_list.at(...)` itself (not a call that merely has one among its arguments)"""
            head = txt.split(".demand_timeseries_list.at(", 1)
            if len(head) == 2 and head[0].count("(") == head[0].count(")") and head[0].count("[") == head[0].count("]") and " " not in head[0]:
                return head[0]
            return None
        site_fns = set()
        for rel in repo.modules("wntr/sim"):
            t = repo.tree(rel)
            for fn in [n for n in ast.walk(t) if isinstance(n, ast.FunctionDef)]:
                if not any(isinstance(n, ast.Attribute) and n.attr == "demand_timeseries_list" for n in walk(fn)) or not calls(fn, attr="at"):
                    continue
                sites = [c for c in calls(fn, attr="at") if isinstance(resolve_local(fn, c.func.value), ast.Attribute) and resolve_local(fn, c.func.value).attr == "demand_timeseries_list"]
                if not sites:
                    continue
                fn._rel = rel
                fn._qual = fn.name
                chk.fn(fn)
                exs = SplitExec(test_hook=B.std_test_hook)
                seen_sites = set()
                for o in exs.run(fn) + SplitExec(test_hook=lambda t_, n_, s_: (True if t_.startswith("hasattr(") else B.std_test_hook(t_, n_, s_))).run(fn):
                    for e in o.events:
                        if e[0] == "call" and demand_call(e[1]) is not None and (e[3], e[1]) not in seen_sites:
                            seen_sites.add((e[3], e[1]))
                            site_fns.add((rel, fn.name))
                            name, args, kwargs = e[2]
                            targ = args[0] if args else kwargs.get("time")
                            try:
                                tv = sp.expand(exs.S(targ))
                            except ExtractError:
                                tv = None
                            want_t = exs.sym("wn.sim_time") + exs.sym("wn.options.time.pattern_start")
                            chk.expect(tv is not None and is_zero(tv - want_t), "R-C01-5b", "%s:%s line-site passes sim_time + pattern_start as the demand clock" % (rel, fn.name), "%s:%d" % (rel, e[3]),
                                       "requested demand is evaluated at simulation time shifted by options.time.pattern_start", expected=str(want_t), found=str(tv))
                            mult = kwargs.get("multiplier", args[2] if len(args) > 2 else None)
                            chk.expect(isinstance(mult, Opaque) and mult.text == "wn.options.hydraulic.demand_multiplier", "R-C01-5b",
                                       "%s:%s passes the global demand multiplier" % (rel, fn.name), "%s:%d" % (rel, e[3]), found=mult)
                            cat = kwargs.get("category", args[1] if len(args) > 1 else None)
                            chk.expect(cat is None, "R-C01-5b", "%s:%s sums all demand categories" % (rel, fn.name), "%s:%d" % (rel, e[3]), found=cat)
                missed = {c.lineno for c in sites} - {ln for ln, _ in seen_sites}
                if missed:
                    chk.error("R-C01-5b: demand_timeseries_list.at call sites at lines %s of %s:%s were not reached by the extractor" % (sorted(missed), rel, fn.name))
        # the value the refresh stores for a junction is that junction's own requested demand (one of the call sites checked above), on every path
        edp = repo.func(PAR, "expected_demand_param")
        exq = SplitExec()
        nstore = 0
        for o in exq.run(edp):
            lv = loop_vars(o)
            param_arg = {e[1]: e[2][1][0] for e in o.events if e[0] == "call" and (e[2][0] or "").split(".")[-1] == "Param" and len(e[2][1]) == 1}
            for e in o.events:
                if e[0] != "store" or not e[1].startswith("m.expected_demand["):
                    continue
                ctx = e[4][-1] if len(e) > 4 and e[4] else ""
                m_ = re.match(r"^m\.expected_demand\[(\w+)\](\.value)?$", e[1])
                v = e[2]
                if m_ and not m_.group(2) and isinstance(v, Opaque) and v.text in param_arg:
                    v = param_arg[v.text]           # m.expected_demand[k] = aml.Param(v)
                okq = bool(m_) and len(lv.get(ctx, ())) == 2 and ctx == "wn.junctions()" and m_.group(1) == lv[ctx][0] and isinstance(v, Opaque) and demand_call(v.text) == lv[ctx][1]
                chk.expect(okq, "R-C01-5b", "expected_demand_param stores, under the junction's name, that junction's demand_timeseries_list.at(...)", loc(edp),
                           "the requested-demand parameter of junction k is k's own demand list evaluated at the demand clock", found="%s = %s [loop %s]" % (e[1], val_text(e[2]), ctx))
                nstore += 1
        chk.expect(nstore >= 2 and (PAR, "expected_demand_param") in site_fns, "R-C01-5b", "expected_demand_param: the stores of the requested demand located (creation and refresh)", loc(edp), found=nstore)
        chk.expect((VAR, "demand_var") in site_fns, "R-C01-5b", "demand_var initialises the demand variable from the requested demand", loc(VAR), found=sorted(site_fns))
        chk.floor("R-C01-5b", 8)

    # ---------------------------------------------------------------- R-C01-7 every node's balance row and parameters are built from that node's own data
    with chk.part("R-C01-7 every node's balance row and parameters are built from that node's own data"):
        B.check_loop_independence(repo, chk, "R-C01-7", [(CON, "mass_balance_constraint.build"), (CON, "pdd_mass_balance_constraint.build"), (PAR, "expected_demand_param"),
                                                        (PAR, "source_head_param"), (PAR, "elevation_param.build"), (VAR, "head_var"), (VAR, "demand_var")], "node")
        chk.floor("R-C01-7", 7)

    # ---------------------------------------------------------------- R-C01-5f one pattern clock for every time series evaluated in wntr.sim
    with chk.part("R-C01-5f one pattern clock for every time series evaluated in wntr.sim"):
        # EPANET offsets EVERY pattern by options.time.pattern_start.  Every `<obj>.at(t)` call in wntr.sim (head / demand / speed time series, patterns)
        # whose time argument depends on the simulation clock must therefore pass sim_time + pattern_start -- the same clock at every site.  The time
        # argument is the symbolic value that reaches the call (temporaries followed, positional or `time=`), not its spelling.
        def at_call(txt):
            """receiver text if the call text is `<receiver>.at(...)` itself"""
            head = txt.split(".at(", 1)
            if len(head) == 2 and head[0].count("(") == head[0].count(")") and head[0].count("[") == head[0].count("]") and " " not in head[0]:
                return head[0]
            return None
        clocks = {}            # normalised clock text -> [site]
        clock_sites = set()    # (module, function, time-series attribute) evaluated against the simulation clock
        for rel in repo.modules("wntr/sim"):
            t = repo.tree(rel)
            for fn in [n for n in ast.walk(t) if isinstance(n, ast.FunctionDef)]:
                sites = calls(fn, attr="at")
                if not sites:
                    continue
                fn._rel = rel
                fn._qual = fn.name
                chk.fn(fn)
                exs = SplitExec(test_hook=B.std_test_hook)
                reached, done = set(), set()
                for o in exs.run(fn) + SplitExec(test_hook=lambda t_, n_, s_: (True if t_.startswith("hasattr(") else B.std_test_hook(t_, n_, s_))).run(fn):
                    for e in o.events:
                        if e[0] != "call" or (e[2][0] or "").split(".")[-1] != "at" or at_call(e[1]) is None:
                            continue
                        reached.add(e[3])
                        if (e[3], e[1]) in done:
                            continue
                        done.add((e[3], e[1]))
                        name, args, kwargs = e[2]
                        targ = args[0] if args else kwargs.get("time")
                        try:
                            tv = sp.expand(exs.S(targ))
                        except ExtractError:
                            tv = None
                        simt = sorted(s.name for s in tv.free_symbols if s.name == "sim_time" or s.name.endswith(".sim_time")) if tv is not None else []
                        if tv is None or not simt:
                            # not an evaluation against the simulation clock (or not a number): outside this rule
                            chk.note("R-C01-5f: %s:%d %s is not evaluated at a time that depends on sim_time (argument %s)" % (rel, e[3], at_call(e[1]) + ".at", val_text(targ)))
                            continue
                        pre = simt[0][:-len("sim_time")]              # `wn.` / `self._wn.`: the model whose clock is read
                        want_t = exs.sym(pre + "sim_time") + exs.sym(pre + "options.time.pattern_start")
                        chk.expect(len(simt) == 1 and is_zero(tv - want_t), "R-C01-5f", "%s:%s evaluates %s at sim_time + pattern_start (the pattern clock)" % (rel, fn.name, re.sub(r"^.*\.", "", at_call(e[1])) + ".at"),
                                   "%s:%d" % (rel, e[3]), "EPANET offsets every pattern by options.time.pattern_start: a time series evaluated at the bare simulation time lags the demand patterns "
                                   "by pattern_start (a reservoir head pattern then drives the wrong head into the balance of every step)", expected=str(want_t), found=str(tv))
                        clock_sites.add((rel, fn.name, re.sub(r"^.*\.", "", at_call(e[1]))))
                        norm_clock = str(tv.xreplace({s: sp.Symbol(s.name[len(pre):] if s.name.startswith(pre) else s.name) for s in tv.free_symbols}))
                        clocks.setdefault(norm_clock, []).append("%s:%d" % (rel, e[3]))
                missed = {c.lineno for c in sites} - reached
                if missed:
                    chk.error("R-C01-5f: .at(...) call sites at lines %s of %s:%s were not reached by the extractor" % (sorted(missed), rel, fn.name))
        chk.expect(len(clocks) == 1, "R-C01-5f", "every time series evaluated against the simulation clock in wntr.sim uses the same pattern clock", loc(PAR),
                   "sibling agreement: head, demand and any other pattern are read at one and the same clock", expected="one clock at all sites",
                   found="; ".join("%s at %s" % (k, ", ".join(v)) for k, v in sorted(clocks.items())))
        # the sweep is not vacuous: the reservoir-head and demand evaluations the balance depends on were among the sites (however many copies there are)
        need = {(PAR, "source_head_param", "head_timeseries"), (HYD, "store_results_in_network", "head_timeseries"), (PAR, "expected_demand_param", "demand_timeseries_list")}
        chk.expect(need <= clock_sites, "R-C01-5f", "the reservoir-head and requested-demand evaluations of wntr.sim located", loc(PAR), found=sorted(need - clock_sites))
        # evaluations against a simulation clock outside wntr.sim are not decided here: listed for the record
        outside = []
        for rel in repo.modules():
            if rel.startswith("wntr/sim/"):
                continue
            try:
                t = repo.tree(rel)
            except AnchorError:
                continue
            for c in [n for n in ast.walk(t) if isinstance(n, ast.Call) and isinstance(n.func, ast.Attribute) and n.func.attr == "at"]:
                a0 = c.args[0] if c.args else next((k.value for k in c.keywords if k.arg == "time"), None)
                if a0 is not None and "sim_time" in unparse(a0):
                    outside.append("%s:%d %s" % (rel, c.lineno, norm(c)))
        if outside:
            chk.note("R-C01-5f out of scope (outside wntr.sim, evaluated at a simulation clock): " + "; ".join(outside))

    # ---------------------------------------------------------------- R-C01-5c refresh before every solve
    with chk.part("R-C01-5c refresh before every solve"):
        rs = repo.func(CORE, "WNTRSimulator.run_sim")
        chk.fn(rs)
        g = CFG(rs)
        heads = [h for n, h in g.loop_heads.items() if isinstance(n, ast.While)]
        if len(heads) != 1:
            raise AnchorError("run_sim: expected exactly one while loop, found %d" % len(heads))
        head = heads[0]
        solves = g.calling("_solver_helper")
        if not solves:
            raise AnchorError("run_sim: no _solver_helper call")
        for pname in ("expected_demand_param", "source_head_param"):
            via = g.calling(pname)
            okp, w = g.must_pass(head, solves[:1], via, drop_back=True)
            chk.expect(bool(via) and okp, "R-C01-5c", "run_sim: every iteration refreshes %s before the solve" % pname, loc(rs),
                       "the demand / source-head parameters must be re-evaluated at the step's final time before each solve",
                       found="path avoiding it: " + g.path_text(w) if w else "no call of %s in run_sim" % pname)
        # R-C01-6: a connected junction receives its demand: it must not be declared isolated.  The encoding of the connectivity graph is decided by
        # C09; the clauses that bear on the DD demand sentence are decided here from what the function hands to the sparse-matrix constructor
        # (status -> entry on every path, both directions) and from the collection of parallel links
        ig_ = repo.func(CORE, "WNTRSimulator._initialize_internal_graph")
        chk.fn(ig_)
        pair_rule(repo, ig_, chk, "R-C01-6")
        ents = graph_entries(repo, ig_)
        if not ents:
            raise AnchorError("_initialize_internal_graph: status encoding not found (no sparse matrix built from (data, (rows, cols)))")
        bad_ = []
        seen_c = set()
        for closed, data, rc, label in ents:
            symm = len(rc) == 2 and rc[0] == (rc[1][1], rc[1][0]) and rc[0][0] != rc[0][1] and len(data) == 2
            want_d = None if closed is None else ([0, 0] if closed else [1, 1])
            if not symm or data != want_d:
                bad_.append("closed=%s data=%s at %s on path %s" % (closed, data, rc, label[-120:]))
            seen_c.add(closed)
        chk.expect(not bad_ and seen_c == {True, False}, "R-C01-6", "a link that is not closed always counts as a connection (the demand of a connected junction is never zeroed)", loc(ig_),
                   "the graph entry of a link, in both directions, is 0 exactly when link.status is Closed and 1 otherwise, whatever else is true of the link",
                   expected="closed -> [0, 0] / not closed -> [1, 1] at (a, b) and (b, a)", found="; ".join(bad_[:3]) or sorted(map(str, seen_c)))
        # R-C01-5e: the refresh is unconditional per element: on every way round an element loop of expected_demand_param / source_head_param
        # the parameter of that element is (re)assigned -- no `continue` or guard may leave a stale value from an earlier time -- and every call
        # of the function (first call: creation, later calls: refresh) runs through such a loop for each kind of element
        for pname, dictname, kinds in (("expected_demand_param", "expected_demand", ("junction",)), ("source_head_param", "source_head", ("tank", "reservoir"))):
            pf = repo.func(PAR, pname)
            chk.fn(pf)
            pg = CFG(pf)
            good = {k: [] for k in kinds}
            for lnode, lhead in pg.loop_heads.items():
                if not isinstance(lnode, ast.For):
                    continue
                it = unparse(resolve_local(pf, lnode.iter))
                kind = [k for k in kinds if re.search(r"\bwn\.(%ss\(\)|%s_name_list\b)" % (k, k), it)]
                if len(kind) != 1:
                    continue
                body_nodes = set()
                for st in lnode.body:
                    for x in ast.walk(st):
                        body_nodes.add(id(x))
                stores = pg.nodes_where(lambda node, d: id(node) in body_nodes and isinstance(node, ast.Assign) and
                                        any(unparse(t).startswith("m.%s[" % dictname) for t in node.targets))
                firsts = pg.succ_on(lhead, True)
                w = None
                for f0 in firsts:
                    w = w or pg.can_reach_avoiding(f0, {lhead}, stores)
                chk.expect(bool(stores) and w is None, "R-C01-5e", "%s: every pass of the loop `for ... in %s` assigns m.%s[...] (no element keeps a stale value)" % (
                    pname, it, dictname), loc(pf, lnode),
                           "the requested demand / source head must be re-evaluated for every element at every step",
                           found=("path skipping the assignment: " + pg.path_text(w)) if w else "no assignment of m.%s[...] in the loop" % dictname)
                if stores and w is None:
                    good[kind[0]].append(lhead)
            for k in kinds:
                okp, w = pg.must_pass(pg.entry, {pg.exit}, good[k])
                chk.expect(bool(good[k]) and okp, "R-C01-5e", "%s: every call runs through a loop over all %ss that assigns m.%s[...]" % (pname, k, dictname), loc(pf),
                           "whether the parameters are being created or refreshed, every %s gets its value for the current time" % k,
                           found=("path without such a loop: " + pg.path_text(w)) if w else "no loop over wn.%ss() that always assigns" % k)
        # the refresh itself writes .value of every junction's parameter from the same call (checked in 5b) and create_hydraulic_model builds it
        chm = repo.func(HYD, "create_hydraulic_model")
        chk.expect(any(last_attr(c) == "expected_demand_param" for c in calls(chm)), "R-C01-5c", "create_hydraulic_model builds the expected_demand parameter", loc(chm))


WITNESSES = [
    dict(name="balance-expression-carried-from-the-previous-junction", file=CON, old="            if not node._is_isolated:\n                expr = m.expected_demand[node_name]\n",
         new="            if node_name in m.expected_demand:\n                expr = m.expected_demand[node_name]\n            if not node._is_isolated:\n", rule="R-C01-7"),
    dict(name="single-value-pattern-never-expires", file=ELEM, old="        if nmult == 1 and self.wrap:", new="        if nmult == 1:", rule="R-C01-5a"),
    dict(name="refresh-skips-unpatterned-junctions", file="wntr/sim/models/param.py",
         old="        for node_name, node in wn.junctions():\n            m.expected_demand[node_name].value =",
         new="        for node_name, node in wn.junctions():\n            if node.demand_timeseries_list[0].pattern is None:\n                continue\n            m.expected_demand[node_name].value =", rule="R-C01-5e"),
    dict(name="inlet-plus", file=CON, old="                for link_name in wn.get_links_for_node(node_name, flag='INLET'):\n                    expr -= m.flow[link_name]\n                for link_name in wn.get_links_for_node(node_name, flag='OUTLET'):\n                    expr += m.flow[link_name]\n                if node.leak_status:\n                    expr += m.leak_rate[node_name]\n                m.pdd_mass_balance",
         new="                for link_name in wn.get_links_for_node(node_name, flag='INLET'):\n                    expr += m.flow[link_name]\n                for link_name in wn.get_links_for_node(node_name, flag='OUTLET'):\n                    expr += m.flow[link_name]\n                if node.leak_status:\n                    expr += m.leak_rate[node_name]\n                m.pdd_mass_balance", rule="R-C01-1"),
    dict(name="leak-unguarded", file=CON, old="                if node.leak_status:\n                    expr += m.leak_rate[node_name]\n                m.mass_balance[node_name]", new="                expr += m.leak_rate[node_name]\n                m.mass_balance[node_name]", rule="R-C01-1"),
    dict(name="adjacency-swap-inlet", file=MODEL, old="if link_type in link_types and node_name == self.get_link(link_name).end_node_name", new="if link_type in link_types and node_name == self.get_link(link_name).start_node_name", rule="R-C01-"),
    dict(name="tank-leak-not-subtracted", file=HYD, old="                       sum(wn.get_link(link_name).flow for link_name in wn.get_links_for_node(name, 'OUTLET')) -\n                       node._leak_demand)",
         new="                       sum(wn.get_link(link_name).flow for link_name in wn.get_links_for_node(name, 'OUTLET')))", rule="R-C01-4"),
    dict(name="reservoir-sign", file=HYD, old="        node._leak_demand = 0\n        node._demand = (sum(wn.get_link(link_name).flow for link_name in wn.get_links_for_node(name, 'INLET')) -\n                       sum(wn.get_link(link_name).flow for link_name in wn.get_links_for_node(name, 'OUTLET')))",
         new="        node._leak_demand = 0\n        node._demand = (sum(wn.get_link(link_name).flow for link_name in wn.get_links_for_node(name, 'OUTLET')) -\n                       sum(wn.get_link(link_name).flow for link_name in wn.get_links_for_node(name, 'INLET')))", rule="R-C01-"),
    dict(name="dd-copies-demand-var", file=HYD, old="                node._demand = m.expected_demand[name].value", new="                node._demand = m.demand[name].value", rule="R-C01-5d"),
    dict(name="pattern-start-dropped", file=PAR, old="            m.expected_demand[node_name].value = node.demand_timeseries_list.at(wn.sim_time+pattern_start, multiplier=demand_multiplier)",
         new="            m.expected_demand[node_name].value = node.demand_timeseries_list.at(wn.sim_time, multiplier=demand_multiplier)", rule="R-C01-5b"),
    dict(name="multiplier-dropped", file=VAR, old="at(wn.sim_time+pattern_start, multiplier=demand_multiplier))", new="at(wn.sim_time+pattern_start))", rule="R-C01-5b"),
    dict(name="pattern-mod-off-by-one", file=ELEM, old="            ndx = int(step%nmult)", new="            ndx = int(step%(nmult-1))", rule="R-C01-5a"),
    dict(name="demands-at-multiplier", file=ELEM, old="        else:\n            for dem in self._list:\n                demand += dem.at(time)*multiplier\n", new="        else:\n            for dem in self._list:\n                demand += dem.at(time)\n", rule="R-C01-5a"),
    dict(name="refresh-only-when-not-resolve", file=CORE, old="            wntr.sim.models.param.expected_demand_param(self._model, self._wn)\n", new="            if not first_step:\n                wntr.sim.models.param.expected_demand_param(self._model, self._wn)\n", rule="R-C01-5c"),
    dict(name="temp-var-preserving", file=CON, old="                expr = m.expected_demand[node_name]\n", new="                dem0 = m.expected_demand[node_name]\n                expr = dem0\n", silent=True),
    # ---- behaviour-preserving rewrites of today's source that must stay quiet (one per tolerated shape)
    dict(name="flow-copy-as-conditional-expression", file=HYD, old="        if link._is_isolated:\n            link._flow = 0\n        else:\n            link._flow = m.flow[name].value\n",
         new="        link._flow = 0 if link._is_isolated else m.flow[name].value\n", silent=True),
    dict(name="demand-variable-picked-by-conditional-expression", file=HYD,
         old="            if mode in ['PDD', 'PDA']:\n                node._demand = m.demand[name].value\n            else:\n                node._demand = m.expected_demand[name].value\n"
             "            if node.leak_status:\n                node._leak_demand = m.leak_rate[name].value\n            else:\n                node._leak_demand = 0\n\n    for name, node in wn.tanks():",
         new="            demand_var = m.demand if mode in ['PDD', 'PDA'] else m.expected_demand\n            node._demand = demand_var[name].value\n"
             "            node._leak_demand = m.leak_rate[name].value if node.leak_status else 0\n\n    for name, node in wn.tanks():", silent=True),
    dict(name="demand-mode-tested-the-other-way-round", file=HYD,
         old="            if mode in ['PDD', 'PDA']:\n                node._demand = m.demand[name].value\n            else:\n                node._demand = m.expected_demand[name].value\n",
         new="            if mode == 'DD':\n                node._demand = m.expected_demand[name].value\n            else:\n                node._demand = m.demand[name].value\n", silent=True),
    dict(name="net-inflow-helper-and-renamed-loop-variables", file=HYD,
         old="    for name, node in wn.tanks():\n        if node.leak_status:\n            node._leak_demand = m.leak_rate[name].value\n        else:\n            node._leak_demand = 0\n"
             "        node._demand = (sum(wn.get_link(link_name).flow for link_name in wn.get_links_for_node(name, 'INLET')) -\n"
             "                       sum(wn.get_link(link_name).flow for link_name in wn.get_links_for_node(name, 'OUTLET')) -\n                       node._leak_demand)\n",
         new="    for tank_name, tank in wn.tanks():\n        leak = m.leak_rate[tank_name].value if tank.leak_status else 0\n"
             "        tank._demand = _net_link_inflow(wn, tank_name) - leak\n        tank._leak_demand = leak\n",
         also=[("        node._leak_demand = 0\n        node._demand = (sum(wn.get_link(link_name).flow for link_name in wn.get_links_for_node(name, 'INLET')) -\n"
                "                       sum(wn.get_link(link_name).flow for link_name in wn.get_links_for_node(name, 'OUTLET')))",
                "        node._leak_demand = 0\n        node._demand = _net_link_inflow(wn, name)"),
               ("def store_results_in_network(wn, m):\n",
                "def _net_link_inflow(wn, node_name):\n    return (sum(wn.get_link(link_name).flow for link_name in wn.get_links_for_node(node_name, flag='INLET')) -\n"
                "            sum(wn.get_link(link_name).flow for link_name in wn.get_links_for_node(node_name, flag='OUTLET')))\n\n\ndef store_results_in_network(wn, m):\n")],
         silent=True),
    dict(name="results-appended-with-renamed-loop-variables", file=HYD,
         old="    for name, node in wn.tanks():\n        node_res['head'][name].append(node.head)\n        node_res['demand'][name].append(node.demand)\n"
             "        node_res['pressure'][name].append(node.head - node.elevation)\n        node_res['leak_demand'][name].append(node.leak_demand)\n",
         new="    for tank_name, tank in wn.tanks():\n        node_res['head'][tank_name].append(tank.head)\n        node_res['demand'][tank_name].append(tank.demand)\n"
             "        node_res['pressure'][tank_name].append(tank.head - tank.elevation)\n        node_res['leak_demand'][tank_name].append(tank.leak_demand)\n", silent=True),
    dict(name="create-and-refresh-loops-merged", file=PAR,
         old="    if not hasattr(m, 'expected_demand'):\n        m.expected_demand = aml.ParamDict()\n\n        for node_name, node in wn.junctions():\n"
             "            m.expected_demand[node_name] = aml.Param(node.demand_timeseries_list.at(wn.sim_time+pattern_start, multiplier=demand_multiplier))\n"
             "    else:\n        for node_name, node in wn.junctions():\n"
             "            m.expected_demand[node_name].value = node.demand_timeseries_list.at(wn.sim_time+pattern_start, multiplier=demand_multiplier)\n",
         new="    first_call = not hasattr(m, 'expected_demand')\n    if first_call:\n        m.expected_demand = aml.ParamDict()\n\n    for node_name, node in wn.junctions():\n"
             "        pattern_time = wn.sim_time + pattern_start\n        demands = node.demand_timeseries_list\n        expected_demand = demands.at(pattern_time, multiplier=demand_multiplier)\n"
             "        _set_param_value(m.expected_demand, node_name, expected_demand, first_call)\n",
         also=[("def source_head_param(m, wn):\n",
                "def _set_param_value(param_dict, key, value, create):\n    if create:\n        param_dict[key] = aml.Param(value)\n    else:\n        param_dict[key].value = value\n\n\n"
                "def source_head_param(m, wn):\n")], silent=True),
    dict(name="adjacency-as-one-loop", file=MODEL,
         old="        else:\n            if flag.upper() == \"ALL\":\n                return [\n                    link_name\n                    for link_name, link_type in link_data\n"
             "                    if link_type in link_types\n                    and node_name in {self.get_link(link_name).start_node_name, self.get_link(link_name).end_node_name}\n                ]\n"
             "            elif flag.upper() == \"INLET\":\n                return [\n                    link_name\n                    for link_name, link_type in link_data\n"
             "                    if link_type in link_types and node_name == self.get_link(link_name).end_node_name\n                ]\n"
             "            elif flag.upper() == \"OUTLET\":\n                return [\n                    link_name\n                    for link_name, link_type in link_data\n"
             "                    if link_type in link_types and node_name == self.get_link(link_name).start_node_name\n                ]\n"
             "            else:\n                logger.error(\"Unrecognized flag: {0}\".format(flag))\n                raise ValueError(\"Unrecognized flag: {0}\".format(flag))\n",
         new="        flag_upper = flag.upper()\n        if flag_upper not in (\"ALL\", \"INLET\", \"OUTLET\"):\n            message = f\"Unrecognized flag: {flag}\"\n            logger.error(message)\n"
             "            raise ValueError(message)\n        connected = []\n        for link_name, link_type in link_data:\n            if link_type not in link_types:\n                continue\n"
             "            link = self.get_link(link_name)\n            ends = {\"ALL\": (link.start_node_name, link.end_node_name), \"INLET\": (link.end_node_name,), \"OUTLET\": (link.start_node_name,)}[flag_upper]\n"
             "            if node_name in ends:\n                connected.append(link_name)\n        return connected\n", silent=True),
    dict(name="adjacency-test-picked-as-nested-function", file=MODEL,
         old="            elif flag.upper() == \"INLET\":\n                return [\n                    link_name\n                    for link_name, link_type in link_data\n"
             "                    if link_type in link_types and node_name == self.get_link(link_name).end_node_name\n                ]\n",
         new="            elif flag.upper() == \"INLET\":\n                def is_attached(link):\n                    return node_name == link.end_node_name\n"
             "                return [link_name for link_name, link_type in link_data if link_type in link_types and is_attached(self.get_link(link_name))]\n", silent=True),
    dict(name="demands-at-one-loop", file=ELEM,
         old="        if category:\n            for dem in self._list:\n                if dem.category == category:  \n                    demand += dem.at(time)*multiplier\n"
             "        else:\n            for dem in self._list:\n                demand += dem.at(time)*multiplier\n        return demand\n",
         new="        all_categories = not category\n        for dem in self._list:\n            if all_categories or dem.category == category:\n                demand += dem.at(time)*multiplier\n        return demand\n",
         silent=True),
    dict(name="demands-at-as-sum", file=ELEM,
         old="        if category:\n            for dem in self._list:\n                if dem.category == category:  \n                    demand += dem.at(time)*multiplier\n"
             "        else:\n            for dem in self._list:\n                demand += dem.at(time)*multiplier\n        return demand\n",
         new="        selected = [dem for dem in self._list if not category or dem.category == category]\n        return demand + multiplier*sum(dem.at(time) for dem in selected)\n", silent=True),
    dict(name="timeseries-pattern-looked-up-once", file=ELEM, old="        if not self.pattern:\n            return self._base\n        return self._base * self.pattern.at(time)\n",
         new="        pattern = self.pattern\n        if pattern is None:\n            return self._base\n        return self._base * pattern.at(time)\n", silent=True),
    dict(name="graph-entry-as-conditional-expression", file=CORE,
         old="            if link.status == wntr.network.LinkStatus.Closed:\n                vals.append(0)\n                vals.append(0)\n            else:\n                vals.append(1)\n                vals.append(1)\n",
         new="            val = 1 if link.status != wntr.network.LinkStatus.Closed else 0\n            vals.append(val)\n            vals.append(val)\n", silent=True),
    dict(name="isolated-test-compared-with-false", file=CON, old="            if not node._is_isolated:\n                expr = m.expected_demand[node_name]\n",
         new="            if node._is_isolated == False:\n                expr = m.expected_demand[node_name]\n", silent=True),
    dict(name="balance-row-with-sum-and-renamed-variables", file=CON,
         old="                for link_name in wn.get_links_for_node(node_name, flag='INLET'):\n                    expr -= m.flow[link_name]\n                for link_name in wn.get_links_for_node(node_name, flag='OUTLET'):\n"
             "                    expr += m.flow[link_name]\n                if node.leak_status:\n                    expr += m.leak_rate[node_name]\n                m.mass_balance[node_name]",
         new="                expr -= sum(m.flow[l_in] for l_in in wn.get_links_for_node(node_name, 'INLET'))\n                for l_out in wn.get_links_for_node(node_name, 'OUTLET'):\n"
             "                    expr += m.flow[l_out]\n                expr += m.leak_rate[node_name] if node.leak_status else 0\n                m.mass_balance[node_name]", silent=True),
    # ---- and the same shapes with the defect put back: the tolerant extraction still has its teeth
    dict(name="merged-refresh-loop-skips-unpatterned-junctions", file=PAR,
         old="    if not hasattr(m, 'expected_demand'):\n        m.expected_demand = aml.ParamDict()\n\n        for node_name, node in wn.junctions():\n"
             "            m.expected_demand[node_name] = aml.Param(node.demand_timeseries_list.at(wn.sim_time+pattern_start, multiplier=demand_multiplier))\n"
             "    else:\n        for node_name, node in wn.junctions():\n"
             "            m.expected_demand[node_name].value = node.demand_timeseries_list.at(wn.sim_time+pattern_start, multiplier=demand_multiplier)\n",
         new="    first_call = not hasattr(m, 'expected_demand')\n    if first_call:\n        m.expected_demand = aml.ParamDict()\n\n    for node_name, node in wn.junctions():\n"
             "        value = node.demand_timeseries_list.at(wn.sim_time+pattern_start, multiplier=demand_multiplier)\n        if first_call:\n            m.expected_demand[node_name] = aml.Param(value)\n"
             "        elif node.demand_timeseries_list[0].pattern is not None:\n            m.expected_demand[node_name].value = value\n", rule="R-C01-5e"),
    dict(name="one-loop-adjacency-inlet-is-start", file=MODEL,
         old="        else:\n            if flag.upper() == \"ALL\":\n                return [\n                    link_name\n                    for link_name, link_type in link_data\n"
             "                    if link_type in link_types\n                    and node_name in {self.get_link(link_name).start_node_name, self.get_link(link_name).end_node_name}\n                ]\n"
             "            elif flag.upper() == \"INLET\":\n                return [\n                    link_name\n                    for link_name, link_type in link_data\n"
             "                    if link_type in link_types and node_name == self.get_link(link_name).end_node_name\n                ]\n"
             "            elif flag.upper() == \"OUTLET\":\n                return [\n                    link_name\n                    for link_name, link_type in link_data\n"
             "                    if link_type in link_types and node_name == self.get_link(link_name).start_node_name\n                ]\n"
             "            else:\n                logger.error(\"Unrecognized flag: {0}\".format(flag))\n                raise ValueError(\"Unrecognized flag: {0}\".format(flag))\n",
         new="        flag_upper = flag.upper()\n        connected = []\n        for link_name, link_type in link_data:\n            if link_type not in link_types:\n                continue\n"
             "            link = self.get_link(link_name)\n            ends = {\"ALL\": (link.start_node_name, link.end_node_name), \"INLET\": (link.start_node_name,), \"OUTLET\": (link.start_node_name,)}[flag_upper]\n"
             "            if node_name in ends:\n                connected.append(link_name)\n        return connected\n", rule="R-C01-2"),
    dict(name="adjacency-type-filter-dropped", file=MODEL, old="                    if link_type in link_types and node_name == self.get_link(link_name).start_node_name\n",
         new="                    if node_name == self.get_link(link_name).start_node_name\n", rule="R-C01-2"),
    dict(name="one-loop-demands-at-ignores-category", file=ELEM,
         old="        if category:\n            for dem in self._list:\n                if dem.category == category:  \n                    demand += dem.at(time)*multiplier\n"
             "        else:\n            for dem in self._list:\n                demand += dem.at(time)*multiplier\n        return demand\n",
         new="        for dem in self._list:\n            if category is None or dem.category == category:\n                demand += dem.at(time)*multiplier\n        return demand\n", rule="R-C01-5a"),
    dict(name="conditional-expression-leak-inverted", file=HYD,
         old="        if node.leak_status:\n            node._leak_demand = m.leak_rate[name].value\n        else:\n            node._leak_demand = 0\n        node._demand = (sum(",
         new="        node._leak_demand = 0 if node.leak_status else m.leak_rate[name].value\n        node._demand = (sum(", rule="R-C01-4"),
    dict(name="graph-entry-also-zero-when-isolated", file=CORE,
         old="            if link.status == wntr.network.LinkStatus.Closed:\n                vals.append(0)\n                vals.append(0)\n            else:\n                vals.append(1)\n                vals.append(1)\n",
         new="            val = 0 if (link._is_isolated or link.status == wntr.network.LinkStatus.Closed) else 1\n            vals.append(val)\n            vals.append(val)\n", rule="R-C01-6"),
    dict(name="parallel-link-table-with-guard-clauses", file=CORE,
         old="        for from_node_id, to_node_id in n_links.keys():\n            if n_links[(from_node_id, to_node_id)] > 1:\n                if (to_node_id, from_node_id) in self._node_pairs_with_multiple_links:\n                    continue\n"
             "                self._internal_graph[from_node_id, to_node_id] = 0\n                self._internal_graph[to_node_id, from_node_id] = 0\n"
             "                from_node_name = self._node_id_to_name[from_node_id]\n                to_node_name = self._node_id_to_name[to_node_id]\n"
             "                tmp_list = self._node_pairs_with_multiple_links[(from_node_id, to_node_id)] = []\n                for link_name in self._wn.get_links_for_node(from_node_name):\n"
             "                    link = self._wn.get_link(link_name)\n                    if link.start_node_name == to_node_name or link.end_node_name == to_node_name:\n"
             "                        tmp_list.append(link)\n                        if link.status != wntr.network.LinkStatus.Closed:\n                            ndx1, ndx2 = ndx_map[link]\n"
             "                            self._internal_graph.data[ndx1] = 1\n                            self._internal_graph.data[ndx2] = 1\n",
         new="        for (from_node_id, to_node_id), link_count in n_links.items():\n            if link_count <= 1:\n                continue\n            if (to_node_id, from_node_id) in self._node_pairs_with_multiple_links:\n                continue\n"
             "            self._internal_graph[from_node_id, to_node_id] = 0\n            self._internal_graph[to_node_id, from_node_id] = 0\n"
             "            from_node_name = self._node_id_to_name[from_node_id]\n            to_node_name = self._node_id_to_name[to_node_id]\n"
             "            parallel_links = []\n            self._node_pairs_with_multiple_links[(from_node_id, to_node_id)] = parallel_links\n            for link_name in self._wn.get_links_for_node(from_node_name):\n"
             "                link = self._wn.get_link(link_name)\n                if to_node_name not in (link.start_node_name, link.end_node_name):\n                    continue\n"
             "                parallel_links.append(link)\n                if link.status != wntr.network.LinkStatus.Closed:\n                    ndx1, ndx2 = ndx_map[link]\n"
             "                    self._internal_graph.data[ndx1] = 1\n                    self._internal_graph.data[ndx2] = 1\n", silent=True),
    dict(name="guard-clause-parallel-link-table-misses-reversed-links", file=CORE,
         old="        for from_node_id, to_node_id in n_links.keys():\n            if n_links[(from_node_id, to_node_id)] > 1:\n                if (to_node_id, from_node_id) in self._node_pairs_with_multiple_links:\n                    continue\n"
             "                self._internal_graph[from_node_id, to_node_id] = 0\n                self._internal_graph[to_node_id, from_node_id] = 0\n"
             "                from_node_name = self._node_id_to_name[from_node_id]\n                to_node_name = self._node_id_to_name[to_node_id]\n"
             "                tmp_list = self._node_pairs_with_multiple_links[(from_node_id, to_node_id)] = []\n                for link_name in self._wn.get_links_for_node(from_node_name):\n"
             "                    link = self._wn.get_link(link_name)\n                    if link.start_node_name == to_node_name or link.end_node_name == to_node_name:\n"
             "                        tmp_list.append(link)\n                        if link.status != wntr.network.LinkStatus.Closed:\n                            ndx1, ndx2 = ndx_map[link]\n"
             "                            self._internal_graph.data[ndx1] = 1\n                            self._internal_graph.data[ndx2] = 1\n",
         new="        for (from_node_id, to_node_id), link_count in n_links.items():\n            if link_count <= 1:\n                continue\n            if (to_node_id, from_node_id) in self._node_pairs_with_multiple_links:\n                continue\n"
             "            self._internal_graph[from_node_id, to_node_id] = 0\n            self._internal_graph[to_node_id, from_node_id] = 0\n"
             "            from_node_name = self._node_id_to_name[from_node_id]\n            to_node_name = self._node_id_to_name[to_node_id]\n"
             "            parallel_links = []\n            self._node_pairs_with_multiple_links[(from_node_id, to_node_id)] = parallel_links\n            for link_name in self._wn.get_links_for_node(from_node_name, 'OUTLET'):\n"
             "                link = self._wn.get_link(link_name)\n                if to_node_name != link.end_node_name:\n                    continue\n"
             "                parallel_links.append(link)\n                if link.status != wntr.network.LinkStatus.Closed:\n                    ndx1, ndx2 = ndx_map[link]\n"
             "                    self._internal_graph.data[ndx1] = 1\n                    self._internal_graph.data[ndx2] = 1\n", rule="R-C01-6"),
    dict(name="reservoir-head-read-at-bare-sim-time", file=HYD, old="        node._head = node.head_timeseries.at(wn.sim_time + wn.options.time.pattern_start)\n",
         new="        node._head = node.head_timeseries.at(wn.sim_time)\n", rule="R-C01-5f"),
    dict(name="source-head-refresh-clock-hoisted-without-pattern-start", file=PAR, old="    if not hasattr(m, 'source_head'):\n",
         new="    head_clock = wn.sim_time\n    if not hasattr(m, 'source_head'):\n",
         also=[("            m.source_head[node_name].value = node.head_timeseries.at(wn.sim_time + wn.options.time.pattern_start)\n",
                "            m.source_head[node_name].value = node.head_timeseries.at(time=head_clock)\n")], rule="R-C01-5f"),
    dict(name="pattern-clock-hoisted-into-a-temporary", file=PAR, old="    if not hasattr(m, 'source_head'):\n",
         new="    pattern_clock = wn.sim_time + wn.options.time.pattern_start\n    if not hasattr(m, 'source_head'):\n",
         also=[("            m.source_head[node_name] = aml.Param(node.head_timeseries.at(wn.sim_time + wn.options.time.pattern_start))\n",
                "            m.source_head[node_name] = aml.Param(node.head_timeseries.at(pattern_clock))\n"),
               ("            m.source_head[node_name].value = node.head_timeseries.at(wn.sim_time + wn.options.time.pattern_start)\n",
                "            series = node.head_timeseries\n            m.source_head[node_name].value = series.at(time=pattern_clock)\n")], silent=True),
    dict(name="clock-hoisted-without-pattern-start", file=PAR,
         old="            m.expected_demand[node_name].value = node.demand_timeseries_list.at(wn.sim_time+pattern_start, multiplier=demand_multiplier)",
         new="            demands = node.demand_timeseries_list\n            clock = wn.sim_time\n            m.expected_demand[node_name].value = demands.at(clock, multiplier=demand_multiplier)", rule="R-C01-5b"),
]
