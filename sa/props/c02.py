"""C02 -- every link obeys the head-flow law of its type and status (the registered residuals and the status logic)."""
import ast
import itertools

import sympy as sp

from ..src import walk, calls, call_name, dotted, const, loc, unparse, norm, AnchorError, ExtractError
from ..symx import SymExec, Opaque, CondExpr, Constraint, Ineq, State, is_zero, equal, rat
from ..peval import Evaluator, Obj, Unknown, Raised
from .. import builders as B
from ..builders import Q, HS, HE, canon, canon_symbol as cs

CON = B.CONSTRAINT
PAR = B.PARAM
ELEM = "wntr/network/elements.py"
CTRL = "wntr/network/controls.py"

EXPLANATION = (
    "Mostly T2: formula extraction (AST -> sympy by symbolic path enumeration of each builder's loop body, all status / isinstance paths) for the 8 link "
    "head-loss constraint builders, the coefficient parameter builders and the H-W / pump constants, compared with the documented laws. R-C02-1: a "
    "Closed-or-isolated link gets the residual `flow` (guard recognised by its text), every other path one constraint per link. R-C02-2: orientation "
    "d(R)/d(Hs) = -d(R)/d(He) and dq/dHs >= 0 on each open branch (the piecewise H-W cubic decided numerically at endpoints and critical points; the head-pump "
    "smoothing cubic is skipped and noted). R-C02-3: H-W + minor loss odd and increasing with the documented exponents / constants; C0/C1 joins at the "
    "breakpoints are checked numerically (40 digits, rel. 1e-9) after substituting the constants. R-C02-4: coefficient parameters equal their formulas and "
    "re-register on the attributes they read. R-C02-5: pump laws, C0/C1 joins, and the 1- and 2-point curve fits of HeadPump.get_head_curve_coefficients (the "
    "3-point fit is NOT analysed); the memo-staleness part (labelled R-C02-5c in a comment, emitted under R-C02-5) is an AST / text pattern match. R-C02-6: "
    "valve laws per (type, status). R-C02-7 (T3, exhaustive over the 3 x 3 (user, internal) table Closed / Open / Active evaluated by sa/peval; member CV not "
    "enumerated): Pipe / Pump / Valve.status. R-C02-8 (T3, bounded): check-valve and pump shut-off conditions evaluated on ONE sample point per region (42 and "
    "16 points) on mock objects with stubbed pump coefficients. Decides the registered equations and status logic, not the solver's result.")
RULE_TEXT = "one instance = one (builder, path, branch) formula obligation, one truth-table row or one region of a condition; distinct by construct text"
ASSUMPTIONS = ["the evaluator evaluates the registered expression (C15) and Newton converges to a root of it (not decided)",
               "sign assumptions: hw_resistance>0, minor_loss>=0, tcv_resistance>0, pump A,B,C>0, pump_slope<0 (as constructed by the parameter builders)"]

LINK_BUILDERS = ["piecewise_hazen_williams_headloss_constraint", "approx_hazen_williams_headloss_constraint", "head_pump_headloss_constraint",
                 "power_pump_headloss_constraint", "prv_headloss_constraint", "psv_headloss_constraint", "fcv_headloss_constraint", "tcv_headloss_constraint"]

QP = sp.Symbol("q", positive=True)


def branches_of(value):
    """[(guard, expr)] of a stored constraint value."""
    if not isinstance(value, Constraint):
        return None
    e = value.expr
    if isinstance(e, CondExpr):
        out = [(g, x) for g, x in e.branches]
        out.append((None, e.final))
        return out
    return [(None, e)]


def S(ex, v):
    if isinstance(v, Opaque):
        return ex.sym(v.text)
    return sp.sympify(v) if not isinstance(v, (int, float)) else rat(v)


def sign_of(e):
    e = sp.simplify(e)
    if e.is_positive:
        return 1
    if e.is_negative:
        return -1
    if e.is_zero:
        return 0
    if e.is_nonnegative:
        return 1
    if e.is_nonpositive:
        return -1
    return None


QN = sp.Symbol("q", negative=True)


def check_orientation(chk, rule, construct, where, R, need_flow=True, negative_flow=False, numsub=None, interval=None):
    """R canonical residual. dR/dHs = -dR/dHe ; implicit dq/dHs = -(dR/dHs)/(dR/dq) >= 0 on the branch's flow range (on R=0)."""
    QP = QN if negative_flow else globals()["QP"]
    Rp = R.xreplace({Q: QP})
    a, b = sp.diff(Rp, HS), sp.diff(Rp, HE)
    if a == 0 and b == 0:
        return chk.bad(rule, construct, where, "residual contains neither end head", found=str(R))
    if not is_zero(a + b):
        return chk.bad(rule, construct, where, "d(R)/d(Hs) must equal -d(R)/d(He): the row must depend on the head DIFFERENCE start - end",
                       expected="dR/dHs = -dR/dHe", found="dR/dHs=%s dR/dHe=%s" % (a, b))
    dq = sp.diff(Rp, QP)
    if dq == 0:
        return chk.expect(not need_flow, rule, construct, where, "residual does not contain the flow", found=str(R))
    if dq.has(HS) or dq.has(HE):
        sol = sp.solve(Rp, HE)
        if len(sol) != 1:
            return chk.bad(rule, construct, where, "cannot eliminate He from R=0")
        dq = dq.subs(HE, sol[0])
        a = a.subs(HE, sol[0])
    P = sp.expand(sp.simplify(-a * dq))
    s = sign_of(P)
    if s is None and numsub is not None:
        s = sign_on_interval(P.xreplace(numsub), QP, interval)
    return chk.expect(s is not None and s >= 0, rule, construct, where,
                      "positive flow must run from the start node to the end node: raising the start head must not decrease the flow (dq/dHs >= 0 on the branch's flow range)",
                      expected="-(dR/dHs)*(dR/dq) >= 0", found=str(sp.simplify(-a * dq)))


def sign_on_interval(P, q, interval):
    """sign of P on the closed interval when P = sum_i coef_i * poly_i(q) with sign-definite q-free coefficients (exact)."""
    if interval is None:
        return sign_of(P)
    lo, hi = interval
    P = sp.expand(P)
    groups = {}
    for term in sp.Add.make_args(P):
        coef, rest = term.as_independent(q)
        num, sym = coef.as_independent(*coef.free_symbols) if coef.free_symbols else (coef, sp.Integer(1))
        groups[sym] = groups.get(sym, 0) + num * rest
    signs = set()
    for sym, poly in groups.items():
        cs_ = sign_of(sym)
        if cs_ is None:
            return None
        try:
            pl = sp.Poly(sp.N(poly, 40), q)
        except sp.PolynomialError:
            return None
        if not all(c.is_number for c in pl.all_coeffs()):
            return None
        pts = [sp.N(lo, 40), sp.N(hi, 40)]
        if pl.degree() > 1:
            for r in sp.nroots(pl.diff(q), n=30):
                if r.is_real and lo < r < hi:
                    pts.append(r)
        vals = [sp.N(pl.eval(x), 40) for x in pts]
        if all(v >= 0 for v in vals):
            ps = 1
        elif all(v <= 0 for v in vals):
            ps = -1
        else:
            return None
        signs.add(ps * cs_)
    signs.discard(0)
    if len(signs) == 1:
        return signs.pop()
    return 0 if not signs else None



def status_table(repo, cname):
    """{(user status, internal status): effective status} of <cname>.status by finite evaluation over LinkStatus x LinkStatus (names without prefix)."""
    def ls(name):
        return Obj("LinkStatus." + ("Open" if name == "Opened" else name))

    def class_attr(d):
        parts = d.split(".")
        if len(parts) == 2 and parts[0] == "LinkStatus":
            return ls(parts[1])
        raise Unknown(d)
    fn = repo.func(ELEM, "%s.status" % cname, kind="getter")
    out = {}
    for u, i in itertools.product(["Closed", "Open", "Active"], repeat=2):
        ev = Evaluator({"self": Obj("self", {"_user_status": ls(u), "_internal_status": ls(i)})}, class_attr)
        got = ev.run(fn.body)
        out[(u, i)] = getattr(got, "name", str(got)).split(".")[-1]
    return out


def run(repo, chk):
    consts = B.constants(repo)
    csub = B.const_subs(consts)
    chk.sample({"constants": {k: str(v[0]) for k, v in consts.items() if not str(k).startswith("hw_") or k in ("hw_k", "hw_exp", "hw_minor_exp", "hw_q1", "hw_q2", "hw_m")}})

    per = {}
    for bname in LINK_BUILDERS:
        fn, paths, ex = B.run_builder(repo, CON, bname + ".build")
        chk.fn(fn)
        per[bname] = (fn, paths, ex)
        dictname = bname.replace("_constraint", "")
        # ------------------------------------------------------------ R-C02-1
        closed = [p for p in paths if any(v and ".status == LinkStatus.Closed or " in t and t.endswith("._is_isolated") for t, v in p.conds)]
        opened = [p for p in paths if p not in closed]
        if not closed:
            chk.bad("R-C02-1", "%s: closed or isolated link => row `flow = 0`" % bname, loc(fn),
                    "no path guarded by `status == LinkStatus.Closed or link._is_isolated` found", found=[p.label for p in paths][:3])
        for p in closed:
            st = p.stores("m.%s[" % dictname)
            v = st[-1][1] if st else None
            e = v.expr if isinstance(v, Constraint) else None
            good = e is not None and not isinstance(e, CondExpr) and canon(S(ex, e))[0] == Q
            chk.expect(good, "R-C02-1", "%s: closed or isolated link => row `flow = 0`" % bname, loc(fn, None),
                       "a closed (or isolated) link must carry zero flow: the registered residual is the link's flow variable",
                       expected="Constraint(m.flow[link_name])", found=str(e))
        for p in opened:
            if not any("LinkStatus.Closed" in t for t, v in p.conds):
                chk.bad("R-C02-1", "%s: every head-loss row is guarded by the closed/isolated test" % bname, loc(fn), found=p.label)
        req = {"status", "_is_isolated"} | ({"pump_curve_name"} if bname == "head_pump_headloss_constraint" else set())
        B.check_updaters(chk, "R-C02-1", fn, bname, paths, req, loc(fn))
        # every non-closed path stores exactly one constraint under the link's name
        for p in opened:
            st = p.stores("m.%s[" % dictname)
            chk.expect(len(st) == 1 and st[0][0] == "m.%s[link_name]" % dictname and isinstance(st[0][1], Constraint), "R-C02-1",
                       "%s stores one constraint per link under the link's name [%s]" % (bname, p.label[-60:]), loc(fn), found=[s[0] for s in st])

    chk.floor("R-C02-1", 8 * 3)

    # ---------------------------------------------------------------- per path formulas
    def formulas(bname):
        fn, paths, ex = per[bname]
        dictname = bname.replace("_constraint", "")
        out = []
        for p in paths:
            if any(v and "LinkStatus.Closed or" in t for t, v in p.conds):
                continue
            st = p.stores("m.%s[" % dictname)
            if not st:
                continue
            brs = branches_of(st[-1][1])
            if brs is None:
                raise ExtractError("%s: stored value is not a Constraint on path %s" % (bname, p.label))
            sj = None
            ej = None
            for t, v in p.conds:
                if t.startswith("isinstance(") and "start_node_name" in t:
                    sj = v
                if t.startswith("isinstance(") and "end_node_name" in t:
                    ej = v
            out.append((p, brs, sj, ej))
        return fn, ex, out

    n_orient = 0
    for bname in LINK_BUILDERS:
        fn, ex, fl = formulas(bname)
        for p, brs, sj, ej in fl:
            for i, (g, e) in enumerate(brs):
                Rraw = S(ex, e)
                R, info = canon(Rraw)
                tag = "%s [%s%s] branch %d" % (bname, "J" if sj else "S", "J" if ej else "S", i)
                stat = "Active" if p.has("LinkStatus.Active", True) else ("Open" if p.has("LinkStatus.Open", True) or p.has("LinkStatus.Active", False) else "")
                if p.has(" <= 1"):
                    stat += " C<=1" if p.has(" <= 1", True) else " C>1"
                tag += (" " + stat) if stat else ""
                # binding of start_h / end_h: junction -> m.head[start_node_name], otherwise m.source_head[...]
                for role, isj in (("Hs", sj), ("He", ej)):
                    for nm, i_ in info.get(role, []):
                        want = "head" if isj else "source_head"
                        chk.expect(i_.get("dict") == want, "R-C02-2", "%s: %s is read from m.%s" % (tag, role, want), loc(fn),
                                   "a junction's head is the variable m.head, a tank/reservoir's the parameter m.source_head", expected=want, found=nm)
                is_setting = (bname in ("prv_headloss_constraint", "psv_headloss_constraint", "fcv_headloss_constraint") and "Active" in stat)
                if not is_setting:
                    negq = isinstance(g, Ineq) and canon(g.body)[0] == Q and g.lb is None and g.ub is not None and S(ex, g.ub) == 0
                    if bname == "head_pump_headloss_constraint" and len(brs) == 3 and i == 1:
                        chk.note("head pump smoothing cubic on (pump_q1, pump_q2]: monotonicity depends on the fitted A,B,C and is checked at run time by get_pump_poly_coefficients (warning); not decided statically")
                        continue
                    interval = None
                    numsub = None
                    if bname == "piecewise_hazen_williams_headloss_constraint" and i == 1:
                        numsub = dict(csub)
                        numsub[cs("hw_minor_exp")] = 2
                        interval = (consts["hw_q1"][0], consts["hw_q2"][0])
                    if check_orientation(chk, "R-C02-2", "%s: orientation start->end" % tag, loc(fn), R, negative_flow=negq, numsub=numsub, interval=interval):
                        n_orient += 1
    chk.floor("R-C02-2", 60)

    # ---------------------------------------------------------------- R-C02-3 pipe law
    k, Km, he, hm = cs("hw_resistance"), cs("minor_loss"), cs("hw_exp"), cs("hw_minor_exp")
    hw = lambda q: sp.sign(q) * k * sp.Abs(q) ** he
    ml = lambda q: sp.sign(q) * Km * q ** hm
    for nm, want, tol in (("hw_exp", sp.Rational("1.852"), 0), ("hw_minor_exp", sp.Integer(2), 0), ("hw_k", sp.Rational("10.667"), sp.Rational("5e-4"))):
        got = consts.get(nm)
        okc = got is not None and isinstance(got[0], sp.Basic) and got[0].is_number and abs(got[0] - want) <= tol * want
        chk.expect(okc, "R-C02-3", "constant %s = %s" % (nm, want), loc(B.CONSTANTS), "Hazen-Williams constant (SI): exponent 1.852, minor-loss exponent 2, k = 10.667",
                   expected=str(want), found=str(got[0]) if got else None)
    fn, ex, fl = formulas("approx_hazen_williams_headloss_constraint")
    for p, brs, sj, ej in fl:
        R, _ = canon(S(ex, brs[0][1]))
        L = sp.expand((HS - HE) - R)
        D = sp.simplify((L - hw(Q) - ml(Q)).xreplace({Q: QP}))
        ratio = sp.simplify(D / (sp.sqrt(k) * QP))
        good = ratio.is_number and 0 <= ratio <= sp.Rational("1e-4")
        chk.expect(good, "R-C02-3", "approx H-W row [%s%s]: Hs - He = sign(q) k |q|^1.852 + sign(q) Km q^2 (+ eps sqrt(k) q, 0<=eps<=1e-4)" % ("J" if sj else "S", "J" if ej else "S"),
                   loc(fn), "open pipe law", expected="(Hs-He) - [HW + minor] = eps*sqrt(k)*q", found="L = %s" % L)
        Lm = L.subs(hm, 2)
        chk.expect(is_zero(Lm.subs(Q, -Q) + Lm), "R-C02-3", "approx H-W head loss is an odd function of flow [%s%s]" % ("J" if sj else "S", "J" if ej else "S"), loc(fn),
                   expected="L(-q) = -L(q)", found=str(Lm))
        dL = sp.simplify(sp.diff(L.xreplace({Q: QP}), QP))
        chk.expect(dL.is_positive is True or sign_of(dL) == 1, "R-C02-3", "approx H-W head loss increases with flow [%s%s]" % ("J" if sj else "S", "J" if ej else "S"), loc(fn),
                   expected="dL/dq > 0 for q > 0", found=str(dL))
    fn, ex, fl = formulas("piecewise_hazen_williams_headloss_constraint")
    for p, brs, sj, ej in fl:
        tagp = "piecewise H-W [%s%s]" % ("J" if sj else "S", "J" if ej else "S")
        if len(brs) != 3:
            chk.bad("R-C02-3", "%s has three branches" % tagp, loc(fn), found=len(brs))
            continue
        Ls = []
        for i, (g, e) in enumerate(brs):
            R, _ = canon(S(ex, e))
            L = sp.expand((HS - HE) - R)
            Ls.append(L)
            Lm = L.subs(hm, 2)
            chk.expect(is_zero(sp.simplify(Lm.subs(Q, -Q) + Lm)), "R-C02-3", "%s branch %d is odd in the flow" % (tagp, i), loc(fn), found=str(Lm))
        chk.expect(is_zero(Ls[2] - hw(Q) - ml(Q)), "R-C02-3", "%s final branch is H-W + minor loss" % tagp, loc(fn), found=str(Ls[2]))
        # guards |q| <= hw_q1, |q| <= hw_q2
        gs = []
        for g, e in brs[:2]:
            if not isinstance(g, Ineq):
                gs.append(None)
                continue
            body, _ = canon(g.body)
            ub, _ = canon(S(ex, g.ub)) if g.ub is not None else (None, None)
            gs.append((body, ub, g.lb))
        chk.expect(gs[0] is not None and gs[0][0] == sp.Abs(Q) and gs[0][1] == cs("hw_q1") and gs[0][2] is None and
                   gs[1] is not None and gs[1][0] == sp.Abs(Q) and gs[1][1] == cs("hw_q2"), "R-C02-3", "%s guards are |q| <= hw_q1, |q| <= hw_q2" % tagp, loc(fn), found=str(gs))
        # C0 / C1 agreement at the break points with the constants file (q > 0)
        num = dict(csub)
        num[hm] = 2
        for (i, j, bp) in ((0, 1, "hw_q1"), (1, 2, "hw_q2")):
            xq = consts[bp][0]
            for order in (0, 1):
                fi = sp.diff(Ls[i].xreplace({Q: QP}), QP, order).xreplace(num).subs(QP, xq)
                fj = sp.diff(Ls[j].xreplace({Q: QP}), QP, order).xreplace(num).subs(QP, xq)
                d = sp.N(sp.simplify((fi - fj) / k), 40)
                scale = abs(sp.N((fj / k), 40)) + sp.Float("1e-30")
                chk.expect(bool(d.is_number and abs(d) <= sp.Float("1e-9") * scale + sp.Float("1e-25")), "R-C02-3",
                           "%s: branches %d and %d agree at %s (derivative order %d)" % (tagp, i, j, bp, order), loc(fn),
                           "the smoothing polynomial data in constants.py must be the value/derivative of the neighbouring branches", found="difference/k = %s" % d)
    chk.floor("R-C02-3", 3 + 4 * 3 + 4 * (3 + 1 + 1 + 4))

    # ---------------------------------------------------------------- R-C02-4 coefficients
    coeff_specs = {
        "hw_resistance_param": ("hw_resistance", lambda: cs("hw_k") * cs("roughness") ** sp.Rational("-1.852") * cs("diameter") ** sp.Rational("-4.871") * cs("length"),
                                {"roughness", "diameter", "length"}),
        "minor_loss_param": ("minor_loss", lambda: 8 * cs("minor_loss") / (sp.Rational("9.81") * sp.pi ** 2 * cs("diameter") ** 4), {"minor_loss", "diameter"}),
        "tcv_resistance_param": ("tcv_resistance", lambda: 8 * cs("setting") / (sp.Rational("9.81") * sp.pi ** 2 * cs("diameter") ** 4), {"setting", "diameter"}),
        "pump_power_param": ("pump_power", lambda: cs("power"), {"power"}),
        "valve_setting_param": ("valve_setting", lambda: cs("setting"), {"setting"}),
    }
    for pname, (dname, ref, reads) in coeff_specs.items():
        fn, paths, ex = B.run_builder(repo, PAR, pname + ".build")
        chk.fn(fn)
        for p in paths:
            st = p.stores("m.%s[" % dname)
            vals = []
            for t, v, ln in st:
                if isinstance(v, Opaque) and v.text.startswith("aml.Param("):
                    continue
                vals.append(v)
            # value is either passed to aml.Param(value) (call event) or stored to .value
            for e in p.st.events:
                if e[0] == "call" and e[1].startswith("aml.Param("):
                    vals.append(e[2][1][0])
            if not vals:
                chk.bad("R-C02-4", "%s computes a value" % pname, loc(fn), found=p.label)
                continue
            v, _ = canon(S(ex, vals[-1]))
            chk.expect(is_zero(v - ref()), "R-C02-4", "%s value equals the documented coefficient" % pname, loc(fn),
                       expected=str(ref()), found=str(v))
        B.check_updaters(chk, "R-C02-4", fn, pname, paths, reads, loc(fn))
    chk.floor("R-C02-4", 10)

    # ---------------------------------------------------------------- R-C02-5 pumps
    A, Bc, C = cs("A"), cs("B"), cs("C")
    fn, ex, fl = formulas("head_pump_headloss_constraint")
    pos = {s: s for s in ()}
    for p, brs, sj, ej in fl:
        tagp = "head pump [%s%s]%s" % ("J" if sj else "S", "J" if ej else "S", " C<=1" if p.has(" <= 1", True) else " C>1")
        Rf, _ = canon(S(ex, brs[-1][1]))
        chk.expect(is_zero(Rf - (A - Bc * Q ** C - HE + HS)), "R-C02-5", "%s final branch is He - Hs = A - B q^C" % tagp, loc(fn), found=str(Rf))
        exprs = [canon(S(ex, e))[0] for g, e in brs]
        ubs = [canon(S(ex, g.ub))[0] if isinstance(g, Ineq) and g.ub is not None else None for g, e in brs]
        bodies = [canon(g.body)[0] if isinstance(g, Ineq) else None for g, e in brs]
        chk.expect(all(b == Q for b in bodies[:-1]), "R-C02-5", "%s low-flow guards are on the flow" % tagp, loc(fn), found=str(bodies))
        num = dict(csub)
        for i in range(len(brs) - 1):
            bp = ubs[i]
            for order in (0, 1):
                fi = sp.diff(exprs[i].xreplace({Q: QP}), QP, order).subs(QP, bp).xreplace(num)
                fj = sp.diff(exprs[i + 1].xreplace({Q: QP}), QP, order).subs(QP, bp).xreplace(num)
                # the derivative of B q^C at q = pump_q1 = 0 is taken as the limit for C<=1 between polynomial branches only
                d = sp.simplify(fi - fj)
                okk = is_zero(d)
                chk.expect(okk, "R-C02-5", "%s: branches %d and %d agree at the break point (derivative order %d)" % (tagp, i, i + 1, order), loc(fn),
                           "pump low-flow smoothing must join the curve continuously", found=str(d)[:200])
    fn, ex, fl = formulas("power_pump_headloss_constraint")
    for p, brs, sj, ej in fl:
        R, _ = canon(S(ex, brs[0][1]))
        want = cs("pump_power") + (HS - HE) * Q * sp.Rational("9810")
        chk.expect(is_zero(R - want), "R-C02-5", "power pump [%s%s]: P = rho g q (He - Hs), rho g = 9810" % ("J" if sj else "S", "J" if ej else "S"), loc(fn),
                   expected=str(want), found=str(R))
    # get_head_curve_coefficients: 1- and 2-point formulas
    gfn = repo.func(ELEM, "HeadPump.get_head_curve_coefficients")
    chk.fn(gfn)
    inner = [n for n in gfn.body if isinstance(n, ast.FunctionDef)]
    if not inner:
        raise AnchorError("get_head_curve_coefficients: nested calculate_coefficients vanished")
    ifs = [n for n in inner[0].body if isinstance(n, ast.If) and "num_points" in unparse(n.test)]
    if not ifs:
        raise AnchorError("get_head_curve_coefficients: no num_points dispatch")
    ex2 = SymExec(assume=lambda t: {"positive": True})
    outs = ex2.branch(ifs[0].test, ifs[0].body, ifs[0].orelse, State({"H": Opaque("H"), "Q": Opaque("Q"), "curve": Opaque("curve"), "self": Opaque("self")}))
    H0, H1, Q0, Q1 = (ex2.sym(x) for x in ("H[0]", "H[1]", "Q[0]", "Q[1]"))
    seen = set()
    for o in outs:
        if o.raised:
            continue
        npts = [t for t, v in o.conds if v and "num_points" in t]
        if not npts or not all(k in o.env for k in "ABC"):
            continue
        a_, b_, c_ = (ex2.S(o.env[k]) for k in "ABC")
        key = npts[-1]
        if "== 1" in key:
            seen.add(1)
            chk.expect(is_zero(a_ - b_ * Q0 ** c_ - H0), "R-C02-5", "1-point pump curve passes through the design point", loc(gfn), found="A=%s B=%s C=%s" % (a_, b_, c_))
            chk.expect(is_zero(a_ - sp.Rational(4, 3) * H0), "R-C02-5", "1-point pump curve: shut-off head 4/3 H", loc(gfn), found=str(a_))
            chk.expect(is_zero(a_ - b_ * (2 * Q0) ** c_), "R-C02-5", "1-point pump curve: zero head at twice the design flow", loc(gfn), found=str(sp.simplify(a_ - b_ * (2 * Q0) ** c_)))
        elif "== 2" in key:
            seen.add(2)
            for i, (qi, hi) in enumerate(((Q0, H0), (Q1, H1))):
                chk.expect(is_zero(a_ - b_ * qi ** c_ - hi), "R-C02-5", "2-point pump curve H = A - B Q^C passes through point %d" % i, loc(gfn),
                           "the fitted curve must reproduce the points it was fitted to", expected="A - B*Q%d^C = H%d" % (i, i),
                           found="A=%s, B=%s, C=%s; residual %s" % (a_, b_, c_, sp.simplify(a_ - b_ * qi ** c_ - hi)))
    chk.expect(seen == {1, 2}, "R-C02-5", "1- and 2-point pump-curve formulas located", loc(gfn), found=sorted(seen))
    # R-C02-5c: the memoised coefficients belong to the curve's CURRENT points: the fit is re-used only while the points it was computed
    # from are unchanged (the points of a curve can be re-assigned in place, Curve.points has a setter)
    calc = [n for n in gfn.body if isinstance(n, ast.FunctionDef)]
    cfn = calc[0]
    cparam = cfn.args.args[0].arg if cfn.args.args else None
    key_stores = [n for n in walk(cfn) if isinstance(n, ast.Assign) and isinstance(n.targets[0], ast.Attribute) and dotted(n.targets[0].value) == "self"
                  and unparse(n.value) in ("%s.points" % cparam, "list(%s.points)" % cparam, "tuple(%s.points)" % cparam, "copy.deepcopy(%s.points)" % cparam)]
    # the stored key must be a COPY when Curve.points hands out its live list (else the staleness test compares the list with itself)
    cpg = repo.func(ELEM, "Curve.points", kind="getter")
    live = any(isinstance(r, ast.Return) and unparse(r.value) == "self._points" for r in walk(cpg))
    if key_stores:
        alias = unparse(key_stores[0].value) == "%s.points" % cparam
        chk.expect(not (alias and live), "R-C02-5", "the points stored with the memoised fit are a copy, not the curve's live list", loc(gfn, key_stores[0]),
                   "Curve.points returns the internal list: after an in-place edit (curve.points[0] = ..., .append) the stored key IS the edited list, the comparison is always equal and "
                   "the pump keeps the coefficients of the old curve", expected="list(curve.points)", found=norm(key_stores[0]))
    guards = [n for n in gfn.body if isinstance(n, ast.If) and any(call_name(c) == cfn.name for c in calls(ast.Module(body=n.body, type_ignores=[])))]
    okc = False
    why = "no guarded call of %s" % cfn.name
    if guards and key_stores:
        keyf = key_stores[0].targets[0].attr
        t = guards[0].test
        cmp_ = [c for c in ast.walk(t) if isinstance(c, ast.Compare) and isinstance(c.ops[0], ast.NotEq)
                and {".points" in unparse(c.left), ".points" in unparse(c.comparators[0])} == {True, False} or
                (isinstance(c, ast.Compare) and isinstance(c.ops[0], ast.NotEq) and ("self.%s" % keyf) in (unparse(c.left), unparse(c.comparators[0])))]
        isor = isinstance(t, ast.BoolOp) and isinstance(t.op, ast.Or)
        okc = bool(cmp_) and (isor or isinstance(t, ast.Compare)) and any(("self.%s" % keyf) in unparse(c) and ".points" in unparse(c) for c in cmp_)
        why = unparse(t)
    elif guards:
        why = "%s does not record the points it was computed from; guard: %s" % (cfn.name, unparse(guards[0].test))
    elif not guards and any(call_name(c) == cfn.name for c in calls(ast.Module(body=[b for b in gfn.body if not isinstance(b, ast.FunctionDef)], type_ignores=[]))):
        okc, why = True, "recomputed on every call (no memo)"
    chk.expect(okc, "R-C02-5", "get_head_curve_coefficients re-fits A, B, C whenever the curve's points differ from the points of the memoised fit", loc(gfn),
               "a head pump must lie on the curve fitted to its CURRENT points: after `curve.points = [...]` a stale memo makes every later run use the old curve",
               expected="recompute if self._curve_coeffs is None or curve.points != <points stored with the memo>", found=why)
    psetter = repo.func(ELEM, "HeadPump.pump_curve_name", kind="setter")
    chk.expect(any(isinstance(n, ast.Assign) and unparse(n.targets[0]) == "self._curve_coeffs" and const(n.value, 1) is None for n in walk(psetter)), "R-C02-5",
               "assigning another curve to the pump (pump_curve_name setter) drops the memoised coefficients", loc(psetter))
    chk.floor("R-C02-5", 8 + 4 + 6 + 2)

    # ---------------------------------------------------------------- R-C02-6 valves
    valve_ref = {
        ("prv_headloss_constraint", "Active"): [HE - cs("valve_setting") - cs("elev_end")],
        ("prv_headloss_constraint", "Open"): [-Km * Q ** 2 - HS + HE, Km * Q ** 2 - HS + HE],
        ("psv_headloss_constraint", "Active"): [HS - cs("valve_setting") - cs("elev_start")],
        ("psv_headloss_constraint", "Open"): [-Km * Q ** 2 - HS + HE, Km * Q ** 2 - HS + HE],
        ("fcv_headloss_constraint", "Active"): [Q - cs("valve_setting")],
        ("fcv_headloss_constraint", "Open"): [-Km * Q ** 2 - HS + HE, Km * Q ** 2 - HS + HE],
        ("tcv_headloss_constraint", "Active"): [-cs("tcv_resistance") * Q ** 2 - HS + HE, cs("tcv_resistance") * Q ** 2 - HS + HE],
        ("tcv_headloss_constraint", "Open"): [-Km * Q ** 2 - HS + HE, Km * Q ** 2 - HS + HE],
    }
    seenv = set()
    for bname in ("prv_headloss_constraint", "psv_headloss_constraint", "fcv_headloss_constraint", "tcv_headloss_constraint"):
        fn, ex, fl = formulas(bname)
        for p, brs, sj, ej in fl:
            stat = "Active" if p.has("LinkStatus.Active", True) else "Open"
            if stat == "Open":
                asserted = any(e[0] == "assert" and "LinkStatus.Open" in e[1] for e in p.st.events) or p.has("LinkStatus.Open", True)
                chk.expect(asserted, "R-C02-6", "%s: the non-active branch is the Open status" % bname, loc(fn))
            ref = valve_ref[(bname, stat)]
            seenv.add((bname, stat))
            got = [canon(S(ex, e))[0] for g, e in brs]
            okv = len(got) == len(ref) and all(is_zero(g - r) for g, r in zip(got, ref))
            chk.expect(okv, "R-C02-6", "%s %s [%s%s]: documented valve relation" % (bname, stat, "J" if sj else "S", "J" if ej else "S"), loc(fn),
                       expected=[str(r) for r in ref], found=[str(g) for g in got])
            if stat == "Open" or bname == "tcv_headloss_constraint":
                # a loss coefficient takes head in the direction of flow: the relation must be odd in q (two branches switching at q <= 0)
                chk.expect(len(brs) == 2, "R-C02-6", "%s %s [%s%s]: the minor-loss relation has a branch for reverse flow" % (bname, stat, "J" if sj else "S", "J" if ej else "S"), loc(fn),
                           "K*q^2 - Hs + He alone is even in q: for q < 0 the valve ADDS K*q^2 of head in the flow direction (PRV/PSV with fixed status OPEN: Hs - He = +77 m "
                           "instead of -77 m)", expected="two branches", found="%d branch(es)" % len(brs))
            if len(brs) == 2:
                g = brs[0][0]
                okg = isinstance(g, Ineq) and canon(g.body)[0] == Q and g.lb is None and S(ex, g.ub) == 0
                chk.expect(okg, "R-C02-6", "%s %s [%s%s]: loss changes sign at q <= 0 (odd in the flow)" % (bname, stat, "J" if sj else "S", "J" if ej else "S"), loc(fn), found=str(g))
    chk.expect(seenv == set(valve_ref), "R-C02-6", "all valve type/status branches located", loc(CON), found=sorted(set(valve_ref) - seenv))
    chk.floor("R-C02-6", 32)

    # ---------------------------------------------------------------- R-C02-7 status resolution
    members = ["Closed", "Open", "Active"]

    def ls(name):
        return Obj("LinkStatus." + ("Open" if name == "Opened" else name))

    def class_attr(d):
        parts = d.split(".")
        if len(parts) == 2 and parts[0] == "LinkStatus":
            return ls(parts[1])
        raise Unknown(d)
    for cname, rule in (("Pipe", "int-closed"), ("Pump", "int-closed"), ("Valve", "user-first")):
        fn = repo.func(ELEM, "%s.status" % cname, kind="getter")
        chk.fn(fn)
        for u, i in itertools.product(members, members):
            ev = Evaluator({"self": Obj("self", {"_user_status": ls(u), "_internal_status": ls(i)})}, class_attr)
            got = ev.run(fn.body)
            if rule == "int-closed":
                want = ls("Closed") if i == "Closed" else ls(u)
            else:
                want = ls(u) if u in ("Closed", "Open") else ls(i)
            chk.expect(got == want, "R-C02-7", "%s.status(user=%s, internal=%s) = %s" % (cname, u, i, want.name), loc(fn),
                       "effective status: pipes/pumps are closed by their internal status else follow the user; valves follow a fixed user status else the internal one",
                       expected=want.name, found=getattr(got, "name", got))
    chk.floor("R-C02-7", 27)

    # ---------------------------------------------------------------- R-C02-8 no reverse flow
    def class_consts(rel, cname):
        out = {}
        for n in repo.cls(rel, cname).body:
            if isinstance(n, ast.Assign) and isinstance(n.targets[0], ast.Name) and const(n.value) is not None:
                out[n.targets[0].id] = const(n.value)
        return out

    def eval_cond(cname, dh_end_minus_start=None, dh=None, flow=0.0, extra=None):
        fn = repo.func(CTRL, "%s.evaluate" % cname)
        cc = class_consts(CTRL, cname)
        attrs = dict(cc)
        hs, he = (0.0, -dh) if dh is not None else (0.0, dh_end_minus_start)
        istat = (extra or {}).get("internal", "Open")
        attrs.update({"_start_node": Obj("start", {"head": hs}), "_end_node": Obj("end", {"head": he}), "_cv": Obj("cv", {"flow": flow}),
                      "_pump": Obj("pump", {"flow": flow, "_flow": flow, "_internal_status": Obj("LinkStatus." + istat), "status": Obj("LinkStatus." + istat)}),
                      "_wn": Obj("wn", {"sim_time": 0})})
        if extra:
            attrs.update(extra)

        def call_hook(name, n, ev):
            if name.endswith("get_head_curve_coefficients"):
                return [extra["A"], 1.0, 1.0]
            if name.endswith("speed_timeseries.at"):
                return 1.0
            return NotImplemented
        def class_attr_(d):
            parts = d.split(".")
            if len(parts) == 2 and parts[0] == "LinkStatus":
                return Obj("LinkStatus." + ("Open" if parts[1] == "Opened" else parts[1]))
            raise Unknown(d)
        ev = Evaluator({"self": Obj("self", attrs)}, class_attr_, call_hook)
        ev.env["abs"] = None
        ev.env.pop("abs")
        return ev.run(fn.body), fn, cc
    _, fclose, cc = eval_cond("_CloseCVCondition", dh=0.0)
    chk.fn(fclose)
    Ht, Qt = cc.get("Htol"), cc.get("Qtol")
    if not (Ht and Qt and 0 < Ht < 1e-2 and 0 < Qt < 1e-3):
        chk.bad("R-C02-8", "_CloseCVCondition tolerances are small positive numbers", loc(fclose), found=cc)
    else:
        dhs = [-1.0, -2 * Ht, -Ht / 2, 0.0, Ht / 2, 2 * Ht, 1.0]
        qs = [-1.0, -2 * Qt, -Qt / 2, 0.0, Qt / 2, 1.0]
        for dh, q in itertools.product(dhs, qs):
            close, f1, _ = eval_cond("_CloseCVCondition", dh=dh, flow=q)
            opn, f2, _ = eval_cond("_OpenCVCondition", dh=dh, flow=q)
            must_close = q < -Qt or dh < -Ht
            region = "dh=%+.3g*Htol q=%+.3g*Qtol" % (dh / Ht, q / Qt)
            if must_close:
                chk.expect(close is True, "R-C02-8", "check valve closes on reverse flow / adverse head [%s]" % region, loc(f1),
                           "a CV pipe must close whenever flow < -Qtol or Hs - He < -Htol", expected=True, found=close)
                chk.expect(opn is False, "R-C02-8", "check valve does not re-open while reverse conditions hold [%s]" % region, loc(f2), expected=False, found=opn)
            chk.expect(not (close is True and opn is True), "R-C02-8", "close and open conditions are never both true [%s]" % region, loc(f2))
    # pumps: closed above the shut-off head AND whenever they carry reverse flow; never both conditions true; able to re-open below the shut-off head
    Aval = 50.0
    for pclose, popen, hmax_of in (("_CloseHeadPumpCondition", "_OpenHeadPumpCondition", lambda cc_: Aval), ("_ClosePowerPumpCondition", "_OpenPowerPumpCondition", lambda cc_: cc_.get("Hmax"))):
        _, f1, cc1 = eval_cond(pclose, dh_end_minus_start=0.0, extra={"A": Aval})
        hmax = hmax_of(cc1)
        ht = cc1.get("_Htol", cc1.get("Htol", 0))
        qt = cc1.get("Qtol", Qt)
        dvals = [hmax - 1.0, hmax + 1.0] if hmax < 1e9 else [0.0, 10.0]
        for d, q, ist in itertools.product(dvals, (-1.0, -2 * qt, 0.0, 1.0), ("Open", "Closed")):
            close, f1, _ = eval_cond(pclose, dh_end_minus_start=d, flow=q, extra={"A": Aval, "internal": ist})
            opn, f2, _ = eval_cond(popen, dh_end_minus_start=d, flow=q, extra={"A": Aval, "internal": ist})
            region = "dh-Hmax=%+.3g q=%+.3g*Qtol internal=%s" % (d - hmax, q / qt, ist)
            must_close = q < -qt or d > hmax + ht
            if must_close:
                chk.expect(close is True, "R-C02-8", "%s is true on reverse flow / above the shut-off head [%s]" % (pclose, region), loc(f1),
                           "pumps never report reverse flow beyond the flow tolerance: for q < 0 the pump relation is flat at the shut-off head (head pump) or has a second root "
                           "(power pump), so a head test alone never closes a pump that runs backwards", expected=True, found=close)
                chk.expect(opn is False, "R-C02-8", "%s does not re-open the pump while it must be closed [%s]" % (popen, region), loc(f2), expected=False, found=opn)
            else:
                chk.expect(close is False, "R-C02-8", "%s leaves a forward-running pump below the shut-off head alone [%s]" % (pclose, region), loc(f1), expected=False, found=close)
                if d < hmax - 0.5:
                    chk.expect(opn is True, "R-C02-8", "%s re-opens a pump well below the shut-off head [%s]" % (popen, region), loc(f2), expected=True, found=opn)
            chk.expect(not (close is True and opn is True), "R-C02-8", "%s / %s are never both true [%s]" % (pclose, popen, region), loc(f2))
    chk.fn(f1, f2)
    chk.floor("R-C02-8", 40)


_W = lambda name, old, new, rule, **kw: dict(name=name, file=CON, old=old, new=new, rule=rule, **kw)
WITNESSES = [
    dict(name="head-pump-ignores-reverse-flow", file=CTRL, old="        if self._pump.flow is not None and self._pump.flow < -2.83168e-6:\n            return True\n", new="", rule="R-C02-8"),
    dict(name="pump-memo-key-aliases-live-list", file=ELEM, old="            self._coeffs_curve_points = list(curve.points)", new="            self._coeffs_curve_points = curve.points", rule="R-C02-5"),
    dict(name="stale-pump-curve-memo", file=ELEM, old="if self._curve_coeffs is None or curve.points != self._coeffs_curve_points:", new="if self._curve_coeffs is None:", rule="R-C02-5"),
    _W("hw-drop-sign", "con = aml.Constraint(expr=-aml.sign(f)*k*aml.abs(f)**m.hw_exp", "con = aml.Constraint(expr=-k*aml.abs(f)**m.hw_exp", "R-C02-3"),
    _W("hw-swap-heads", "- aml.sign(f)*minor_k*f**m.hw_minor_exp + start_h - end_h)\n\n            m.approx", "- aml.sign(f)*minor_k*f**m.hw_minor_exp + end_h - start_h)\n\n            m.approx", "R-C02-2"),
    _W("closed-branch-open-law", "            if status == LinkStatus.Closed or link._is_isolated:\n                con = aml.Constraint(f)\n            else:\n                eps = 1e-5",
       "            if link._is_isolated:\n                con = aml.Constraint(f)\n            else:\n                eps = 1e-5", "R-C02-1"),
    _W("prv-upstream", "con = aml.Constraint(end_h - m.valve_setting[link_name] - m.elevation[end_node_name])", "con = aml.Constraint(start_h - m.valve_setting[link_name] - m.elevation[start_node_name])", "R-C02-6"),
    _W("power-pump-rho-g", "* f * (9.81 * 1000.0))", "* f * (9.8 * 1000.0))", "R-C02-5"),
    _W("tcv-guard", "con.add_condition(aml.inequality(f, ub=0), -m.tcv_resistance[link_name] * f ** 2 - start_h + end_h)", "con.add_condition(aml.inequality(f, ub=0), m.tcv_resistance[link_name] * f ** 2 - start_h + end_h)", "R-C02-6"),
    _W("start-end-binding-swap", "                if isinstance(start_node, wntr.network.Junction):\n                    start_h = m.head[start_node_name]\n                else:\n                    start_h = m.source_head[start_node_name]\n                if isinstance(end_node, wntr.network.Junction):\n                    end_h = m.head[end_node_name]\n                else:\n                    end_h = m.source_head[end_node_name]\n\n                con = aml.Constraint(m.pump_power",
       "                if isinstance(start_node, wntr.network.Junction):\n                    start_h = m.head[start_node_name]\n                else:\n                    start_h = m.source_head[start_node_name]\n                if isinstance(end_node, wntr.network.Junction):\n                    end_h = m.head[end_node_name]\n                else:\n                    end_h = m.head[end_node_name]\n\n                con = aml.Constraint(m.pump_power", "R-C02-2"),
    dict(name="hw-exponent", file=B.CONSTANTS, old="m.hw_exp = 1.852", new="m.hw_exp = 1.85", rule="R-C02-3"),
    dict(name="minor-loss-d5", file=PAR, old="value = 8.0 * link.minor_loss / (9.81 * math.pi**2 * link.diameter**4)", new="value = 8.0 * link.minor_loss / (9.81 * math.pi**2 * link.diameter**5)", rule="R-C02-4"),
    dict(name="hw-res-not-updated-on-length", file=PAR, old="            updater.add(link, 'length', hw_resistance_param.update)\n", new="", rule="R-C02-4"),
    dict(name="pipe-status-swap", file=ELEM, old="        if self._internal_status == LinkStatus.Closed:\n            return LinkStatus.Closed\n        else:\n            return self._user_status\n\n    @property\n    def friction_factor",
         new="        if self._user_status == LinkStatus.Closed:\n            return LinkStatus.Closed\n        else:\n            return self._internal_status\n\n    @property\n    def friction_factor", rule="R-C02-7"),
    dict(name="cv-qtol-sign", file=CTRL, old="            elif self._cv.flow < -self.Qtol:\n                return True\n            else:\n                return False\n        else:\n            if self._cv.flow < -self.Qtol:",
         new="            elif self._cv.flow < -self.Qtol:\n                return True\n            else:\n                return False\n        else:\n            if self._cv.flow < -self.Htol:", rule="R-C02-8"),
    _W("reassociate-preserving", "con = aml.Constraint(m.pump_power[link_name] + (start_h - end_h) * f * (9.81 * 1000.0))", "hd = start_h - end_h\n                con = aml.Constraint((9.81 * 1000.0) * f * hd + m.pump_power[link_name])", None, silent=True),
]
