"""C02 -- every link obeys the head-flow law of its type and status (the registered residuals and the status logic)."""
import ast
import collections
import re
import copy as _copy
import enum
import itertools

import sympy as sp

from ..src import dotted, const, loc, unparse, AnchorError, ExtractError
from ..symx import Opaque, CondExpr, Constraint, Ineq, is_zero, rat
from ..concrete import World, stdlib_overrides, Namespace, Instance, ClassRef, ProgramError, Unsupported
from .. import builders as B
from ..builders import Q, HS, HE, canon, canon_symbol as cs

CON = B.CONSTRAINT
PAR = B.PARAM
ELEM = "wntr/network/elements.py"
BASE = "wntr/network/base.py"
CTRL = "wntr/network/controls.py"

EXPLANATION = (
    "Mostly T2: formula extraction (AST -> sympy by symbolic path enumeration of each builder's loop body) for the 8 link head-loss constraint builders, the "
    "coefficient parameter builders and the H-W / pump constants, compared with the documented laws. Each builder is run once per KIND OF LINK (status Closed / "
    "Open [/ Active for valves] x isolated or not x junction or source at either end): every test on the link's status, isolation flag and end-node kind is "
    "decided for that case by three-valued evaluation of the test's canonical text (an undecided such test is `could not analyse`), so the branch a closed / open "
    "/ active link takes is a fact of the run, not of how the tests are spelled, ordered or nested. R-C02-1: a Closed or isolated link gets the residual `flow`, "
    "every kind of link exactly one constraint stored under the loop's link name. R-C02-2: orientation d(R)/d(Hs) = -d(R)/d(He) and dq/dHs >= 0 on each open "
    "branch (the piecewise H-W cubic decided numerically at endpoints and critical points; the head-pump smoothing cubic is skipped and noted). R-C02-3: H-W + "
    "minor loss odd and increasing with the documented exponents / constants; C0/C1 joins at the breakpoints are checked numerically (40 digits, rel. 1e-9) "
    "after substituting the constants. R-C02-4: coefficient parameters equal their formulas and re-register on the attributes they read. R-C02-5: pump laws and "
    "C0/C1 joins (T2); HeadPump.get_head_curve_coefficients is RUN by the in-house interpreter (sa/concrete.py, T3) on HeadPump / Curve objects of the "
    "repository's own classes: the 1- and 2-point fits on 4 sample curves each (rel. 1e-9; the 3-and-more-point regression is NOT analysed, curve_fit is a "
    "stand-in that returns its start values), and the memo coherence (labelled R-C02-5c in a comment, emitted under R-C02-5) differentially on 14 scenarios: "
    "after curve.points = [...], an in-place edit of the points list, or pump.pump_curve_name = other, the pump must report what a new pump on a new curve with "
    "the current points reports. R-C02-6: valve laws per (type, status) compared as functions of the flow (relation in force for q > 0 and for q < 0). R-C02-7 "
    "(T3, exhaustive over the 3 x 3 (user, internal) table Closed / Open / Active; member CV not enumerated): the status getters of Pipe / Pump / Valve are run "
    "on instances of the classes. R-C02-8 (T3, bounded): the check-valve and pump shut-off condition objects are built by their own constructors on mock nodes / "
    "link / network and evaluate() is run on ONE sample point per region (42 and 16 points), pump coefficients stubbed. Decides the registered equations and "
    "status logic, not the solver's result.")
RULE_TEXT = "one instance = one (builder, path, branch) formula obligation, one truth-table row or one region of a condition; distinct by construct text"
ASSUMPTIONS = ["the evaluator evaluates the registered expression (C15) and Newton converges to a root of it (not decided)",
               "sign assumptions: hw_resistance>0, minor_loss>=0, tcv_resistance>0, pump A,B,C>0, pump_slope<0 (as constructed by the parameter builders)"]

LINK_BUILDERS = ["piecewise_hazen_williams_headloss_constraint", "approx_hazen_williams_headloss_constraint", "head_pump_headloss_constraint",
                 "power_pump_headloss_constraint", "prv_headloss_constraint", "psv_headloss_constraint", "fcv_headloss_constraint", "tcv_headloss_constraint"]

QP = sp.Symbol("q", positive=True)


def branches_of(value):
    """[(guard, expr)] of a stored constraint value."""
    if not isinstance(value, Constraint):
        return None
    e = value.expr
    if isinstance(e, CondExpr):
        out = [(g, x) for g, x in e.branches]
        out.append((None, e.final))
        return out
    return [(None, e)]


def S(ex, v):
    if isinstance(v, Opaque):
        return ex.sym(v.text)
    return sp.sympify(v) if not isinstance(v, (int, float)) else rat(v)


def sign_of(e):
    e = sp.simplify(e)
    if e.is_positive:
        return 1
    if e.is_negative:
        return -1
    if e.is_zero:
        return 0
    if e.is_nonnegative:
        return 1
    if e.is_nonpositive:
        return -1
    return None


QN = sp.Symbol("q", negative=True)


def check_orientation(chk, rule, construct, where, R, need_flow=True, negative_flow=False, numsub=None, interval=None):
    """R canonical residual. dR/dHs = -dR/dHe ; implicit dq/dHs = -(dR/dHs)/(dR/dq) >= 0 on the branch's flow range (on R=0)."""
    QP = QN if negative_flow else globals()["QP"]
    Rp = R.xreplace({Q: QP})
    a, b = sp.diff(Rp, HS), sp.diff(Rp, HE)
    if a == 0 and b == 0:
        return chk.bad(rule, construct, where, "residual contains neither end head", found=str(R))
    if not is_zero(a + b):
        return chk.bad(rule, construct, where, "d(R)/d(Hs) must equal -d(R)/d(He): the row must depend on the head DIFFERENCE start - end",
                       expected="dR/dHs = -dR/dHe", found="dR/dHs=%s dR/dHe=%s" % (a, b))
    dq = sp.diff(Rp, QP)
    if dq == 0:
        return chk.expect(not need_flow, rule, construct, where, "residual does not contain the flow", found=str(R))
    if dq.has(HS) or dq.has(HE):
        sol = sp.solve(Rp, HE)
        if len(sol) != 1:
            return chk.bad(rule, construct, where, "cannot eliminate He from R=0")
        dq = dq.subs(HE, sol[0])
        a = a.subs(HE, sol[0])
    P = sp.expand(sp.simplify(-a * dq))
    s = sign_of(P)
    if s is None and numsub is not None:
        s = sign_on_interval(P.xreplace(numsub), QP, interval)
    return chk.expect(s is not None and s >= 0, rule, construct, where,
                      "positive flow must run from the start node to the end node: raising the start head must not decrease the flow (dq/dHs >= 0 on the branch's flow range)",
                      expected="-(dR/dHs)*(dR/dq) >= 0", found=str(sp.simplify(-a * dq)))


def sign_on_interval(P, q, interval):
    """sign of P on the closed interval when P = sum_i coef_i * poly_i(q) with sign-definite q-free coefficients (exact)."""
    if interval is None:
        return sign_of(P)
    lo, hi = interval
    P = sp.expand(P)
    groups = {}
    for term in sp.Add.make_args(P):
        coef, rest = term.as_independent(q)
        num, sym = coef.as_independent(*coef.free_symbols) if coef.free_symbols else (coef, sp.Integer(1))
        groups[sym] = groups.get(sym, 0) + num * rest
    signs = set()
    for sym, poly in groups.items():
        cs_ = sign_of(sym)
        if cs_ is None:
            return None
        try:
            pl = sp.Poly(sp.N(poly, 40), q)
        except sp.PolynomialError:
            return None
        if not all(c.is_number for c in pl.all_coeffs()):
            return None
        pts = [sp.N(lo, 40), sp.N(hi, 40)]
        if pl.degree() > 1:
            for r in sp.nroots(pl.diff(q), n=30):
                if r.is_real and lo < r < hi:
                    pts.append(r)
        vals = [sp.N(pl.eval(x), 40) for x in pts]
        if all(v >= 0 for v in vals):
            ps = 1
        elif all(v <= 0 for v in vals):
            ps = -1
        else:
            return None
        signs.add(ps * cs_)
    signs.discard(0)
    if len(signs) == 1:
        return signs.pop()
    return 0 if not signs else None



# ------------------------------------------------------------------ the builders, run for ONE concrete kind of link at a time
# A builder's loop body is path-enumerated (SymExec) with every test on the link's status, its isolation flag and the kind of its end nodes
# DECIDED for the case at hand (three-valued evaluation of the test's canonical text): which branch a closed / open / active link takes is
# then a fact of the run, however the tests are spelled, ordered, nested or merged.  Tests on anything else still split the path.
Case = collections.namedtuple("Case", "status isolated sj ej")
Case.closed = property(lambda c: c.status == "Closed" or c.isolated)
Case.nodes = property(lambda c: ("J" if c.sj else "S") + ("J" if c.ej else "S"))
VALVE_BUILDERS = ("prv_headloss_constraint", "psv_headloss_constraint", "fcv_headloss_constraint", "tcv_headloss_constraint")


def link_cases(bname):
    statuses = ("Closed", "Open", "Active") if bname in VALVE_BUILDERS else ("Closed", "Open")
    return [Case(st, iso, sj, ej) for st in statuses for iso in (False, True) for sj in (True, False) for ej in (True, False)]


def _status_member(n):
    d = dotted(n)
    parts = d.split(".") if d else []
    if len(parts) >= 2 and parts[-2] == "LinkStatus":
        return "Open" if parts[-1] == "Opened" else parts[-1]
    return None


def _is_status_read(n):
    return isinstance(n, ast.Attribute) and n.attr == "status"


def _tri(n, case):
    """three-valued (True / False / None = not decided by the case) value of a test"""
    if isinstance(n, ast.Constant):
        return bool(n.value)
    if isinstance(n, ast.BoolOp):
        vals = [_tri(v, case) for v in n.values]
        if isinstance(n.op, ast.And):
            return False if any(v is False for v in vals) else (None if any(v is None for v in vals) else True)
        return True if any(v is True for v in vals) else (None if any(v is None for v in vals) else False)
    if isinstance(n, ast.UnaryOp) and isinstance(n.op, ast.Not):
        v = _tri(n.operand, case)
        return None if v is None else not v
    if isinstance(n, ast.Compare) and len(n.ops) == 1:
        op, a, b = n.ops[0], n.left, n.comparators[0]
        if isinstance(op, (ast.Eq, ast.Is, ast.NotEq, ast.IsNot)):
            for x, y in ((a, b), (b, a)):
                m = _status_member(y)
                if _is_status_read(x) and m is not None:
                    r = case.status == m
                    return r if isinstance(op, (ast.Eq, ast.Is)) else not r
        if isinstance(op, (ast.In, ast.NotIn)) and _is_status_read(a) and isinstance(b, (ast.Tuple, ast.List, ast.Set)):
            ms = [_status_member(e) for e in b.elts]
            if all(m is not None for m in ms):
                r = case.status in ms
                return r if isinstance(op, ast.In) else not r
        return None
    if isinstance(n, ast.Attribute) and n.attr == "_is_isolated":
        return case.isolated
    if isinstance(n, ast.Call) and dotted(n.func) == "isinstance" and len(n.args) == 2 and not n.keywords:
        who = unparse(n.args[0])
        isj = case.sj if "start_node" in who and "end_node" not in who else (case.ej if "end_node" in who and "start_node" not in who else None)
        types = n.args[1].elts if isinstance(n.args[1], ast.Tuple) else [n.args[1]]
        names = {(dotted(t) or "?").split(".")[-1] for t in types}
        if isj is None or not names <= {"Junction", "Tank", "Reservoir"}:
            return None
        if "Junction" in names:
            return True if isj or names == {"Junction", "Tank", "Reservoir"} else (None if len(names) > 1 else False)
        return False if isj else (True if names == {"Tank", "Reservoir"} else None)
    return None


def decide_test(txt, case):
    try:
        node = ast.parse(txt, mode="eval").body
    except SyntaxError:
        return None
    return _tri(node, case)


_CASE_ATOM = re.compile(r"\bstatus\b|_is_isolated|\bisinstance\(")


def run_case(repo, bname, case):
    """-> (fn, [Path], SymExec) of <bname>.build for a link of the given case"""
    def hook(txt, node, st):
        r = B.std_test_hook(txt, node, st)
        return decide_test(txt, case) if r is None else r
    fn, paths, ex = B.run_builder(repo, CON, bname + ".build", test_hook=hook)
    for p in paths:
        asserted = {e[1]: e[2] for e in p.st.events if e[0] == "assert"}
        p.open_conds = []        # the tests that still distinguish the paths of this case
        for t, v in p.conds:
            if t in asserted:
                # SymExec takes an assertion as an assumption of the path: for this kind of link it either holds or the path ends in an AssertionError
                d = decide_test(t, case)
                if d is not None:
                    if d != asserted[t] and not p.st.raised:
                        p.st.raised = "AssertionError: assert %s%s" % ("" if asserted[t] else "not ", t)
                    continue
            if _CASE_ATOM.search(t):
                raise ExtractError("%s: the test `%s` on the link's status / isolation / end-node kind is not decided by the case %s" % (bname, t, case))
            p.open_conds.append((t, v))
    return fn, paths, ex


def path_tag(p):
    """what still distinguishes the paths of one case (tests the case does not decide), for construct names"""
    oc = p.open_conds
    if not oc:
        return ""
    if len(oc) == 1 and re.search(r"get_head_curve_coefficients\(\)\[2\] <= 1$", oc[0][0]):
        return " C<=1" if oc[0][1] else " C>1"
    return " " + " & ".join(("" if v else "not ") + "(" + t + ")" for t, v in oc)[-60:]


def loop_key(p, dictname):
    """text of the store target m.<dict>[<loop variable>] on this path"""
    loops = [e for e in p.st.events if e[0] == "loop"]
    return "m.%s[%s]" % (dictname, loops[-1][1]) if loops else None


# ------------------------------------------------------------------ finite evaluation of repository code on a mock world (sa/concrete.py)
# The status getters, the pump / check-valve conditions and the head-curve fit are RUN by the in-house interpreter on objects of the
# repository's own classes (their parsed AST; nothing is imported or executed natively): what they return decides, not how they are written.
class Mock(object):
    """plain attribute bag handed to the interpreted code (a read of an attribute it does not have is `could not analyse`)."""
    _sa_mock = True

    def __init__(self, label="mock", **kw):
        self._label = label
        self.__dict__.update(kw)

    def __repr__(self):
        return "<%s>" % self._label


class CurveRegistry(Mock):
    """stand-in for the curve registry of a network: name -> Curve object; usage book-keeping is inert."""

    def __init__(self, curves):
        Mock.__init__(self, "curve registry")
        self._curves = dict(curves)

    def __getitem__(self, name):
        return self._curves[name]

    def __contains__(self, name):
        return name in self._curves

    def __iter__(self):
        return iter(self._curves)

    def __len__(self):
        return len(self._curves)

    def get(self, name, default=None):
        return self._curves.get(name, default)

    def add_usage(self, *a, **k):
        return None

    remove_usage = set_curve_type = add_usage


def link_status_enum(repo):
    """LinkStatus as an IntEnum with the member values read from wntr/network/base.py (Open / Opened are aliases there)"""
    cls = repo.cls(BASE, "LinkStatus")
    members = collections.OrderedDict()
    for s in cls.body:
        if isinstance(s, ast.Assign) and len(s.targets) == 1 and isinstance(s.targets[0], ast.Name) and isinstance(const(s.value), int):
            members[s.targets[0].id] = const(s.value)
    for need in ("Closed", "Open", "Active"):
        if need not in members:
            raise AnchorError("LinkStatus.%s vanished" % need)
    if len({members["Closed"], members["Open"], members["Active"]}) != 3:
        raise ExtractError("LinkStatus: Closed / Open / Active are not distinct")
    return enum.IntEnum("LinkStatus", list(members.items()))


def _curve_fit_stub(f, xdata, ydata, p0=None, *a, **k):
    """scipy.optimize.curve_fit is NOT modelled in general: for more than three points the stand-in hands back the start values (the regression is not
    analysed; its result only serves as `some coefficients that depend on the points` for the memo scenarios).  For exactly three points with distinct,
    increasing flows the least-squares solution of H = a - b*Q^c is the exact interpolant, which the stand-in computes itself (one-dimensional bisection
    on c), so that `the coefficients of a 3-point curve reproduce its points` can be decided on fixtures."""
    if p0 is None:
        raise Unsupported("curve_fit without start values")
    xs, ys = [float(x) for x in xdata], [float(y) for y in ydata]
    if len(xs) == 3 and 0.0 <= xs[0] < xs[1] < xs[2] and ys[0] > ys[1] > ys[2]:
        target = (ys[0] - ys[1]) / (ys[0] - ys[2])

        def ratio(c):
            return (xs[1] ** c - xs[0] ** c) / (xs[2] ** c - xs[0] ** c)
        lo, hi = 1e-9, 60.0
        if ratio(lo) > target > ratio(hi):
            for _ in range(200):
                mid = 0.5 * (lo + hi)
                if ratio(mid) > target:
                    lo = mid
                else:
                    hi = mid
            c = 0.5 * (lo + hi)
            b = (ys[0] - ys[1]) / (xs[1] ** c - xs[0] ** c)
            return [ys[0] + b * xs[0] ** c, b, c], None
    return list(p0), None


def make_world(repo):
    """-> (World, LinkStatus stand-in); cached per Repo object."""
    cached = getattr(repo, "_c02_world", None)
    if cached is not None:
        return cached
    ov, _state = stdlib_overrides()
    LS = link_status_enum(repo)
    ov.update({
        "wntr.network.base.LinkStatus": LS,
        "six": Namespace("six", with_metaclass=lambda meta, *bases: (bases[0] if bases else object), string_types=(str,), integer_types=(int,)),
        "copy": Namespace("copy", deepcopy=_copy.deepcopy, copy=_copy.copy),
        "scipy.optimize.curve_fit": _curve_fit_stub,
    })
    world = World(repo, ov, fuel=20000000)
    try:
        repo._c02_world = (world, LS)
    except AttributeError:
        pass
    return world, LS


def repo_class(world, rel, name):
    c = world.function(rel, name)
    if not isinstance(c, ClassRef):
        raise AnchorError("%s is not a class of %s" % (name, rel))
    return c


def instance_of(world, rel, clsname, **attrs):
    """an instance of a repository class whose state is set directly (its constructor is not part of the fact under analysis)."""
    inst = Instance(repo_class(world, rel, clsname))
    inst._attrs.update(attrs)
    return inst


def interpreted(what, thunk):
    """run thunk(); -> (value, None) or (None, text of the exception the interpreted program raised).  A program error that only says the
    mock world lacks something (AttributeError / NameError on our stand-ins) is `could not analyse`."""
    try:
        return thunk(), None
    except ProgramError as e:
        if isinstance(e.exc, (AttributeError, NameError)):
            raise ExtractError("%s needs something the mock world does not provide: %s (line %s)" % (what, e, e.lineno))
        return None, "%s at line %s" % (e, e.lineno)


def status_table(repo, cname):
    """{(user status, internal status): effective status} of <cname>.status: the getter is run on an instance of the class for every pair of
    LinkStatus x LinkStatus (names without prefix; Opened is reported as Open)."""
    world, LS = make_world(repo)
    out = {}
    for u, i in itertools.product(["Closed", "Open", "Active"], repeat=2):
        inst = instance_of(world, ELEM, cname, _user_status=LS[u], _internal_status=LS[i], _link_name="L")
        got, err = interpreted("%s.status" % cname, lambda: world.interp.getattr_(inst, "status"))
        if err is not None:
            out[(u, i)] = "raises " + err
        elif isinstance(got, LS):
            out[(u, i)] = LS(int(got)).name if LS(int(got)).name != "Opened" else "Open"
        else:
            out[(u, i)] = repr(got)
    return out


def class_constants(repo, rel, cname):
    """numeric class-level constants of a class {name: value}"""
    out = {}
    for n in repo.cls(rel, cname).body:
        tgt, val = None, None
        if isinstance(n, ast.Assign) and len(n.targets) == 1 and isinstance(n.targets[0], ast.Name):
            tgt, val = n.targets[0].id, const(n.value)
        elif isinstance(n, ast.AnnAssign) and isinstance(n.target, ast.Name) and n.value is not None:
            tgt, val = n.target.id, const(n.value)
        if tgt is not None and isinstance(val, (int, float)) and not isinstance(val, bool):
            out[tgt] = val
    return out


def named_constant(cc, key, default=None):
    """the class constant called <key> up to case and leading underscores (Htol / _Htol / HTOL), else the default"""
    for k, v in cc.items():
        if k.strip("_").lower() == key.lower():
            return v
    return default


# EPANET's status-check tolerances in SI units (0.0005 ft, 0.0001 cfs): the reference when a condition class does not name its own
HTOL_SI = 0.0001524
QTOL_SI = 2.83168e-6


def condition_value(repo, cname, heads, flow, internal="Open", shutoff=None):
    """<cname>(wn, link).evaluate() for a link from a node with head heads[0] to a node with head heads[1] carrying `flow`;
    the condition object is built by the class's own constructor on mock nodes / link / network.  -> (value, error text)"""
    world, LS = make_world(repo)
    s, e = Mock("start node", head=heads[0], name="S", elevation=0.0), Mock("end node", head=heads[1], name="E", elevation=0.0)
    st = LS[internal]
    link = Mock("link", name="L", start_node=s, end_node=e, start_node_name="S", end_node_name="E", flow=flow, _flow=flow, status=st, _internal_status=st,
                _user_status=LS["Open"], speed_timeseries=Mock("speed", at=lambda t: 1.0, base_value=1.0, pattern_name=None),
                get_head_curve_coefficients=lambda: (shutoff, 1.0, 1.0))
    nodes = {"S": s, "E": e}
    wn = Mock("network", sim_time=0, get_node=lambda n: nodes[n] if isinstance(n, str) else n, get_link=lambda n: link)
    ctor = repo_class(world, CTRL, cname)

    def thunk():
        cond = ctor(wn, link)
        return world.interp.getattr_(cond, "evaluate")()
    return interpreted("%s.evaluate" % cname, thunk)


def condition_world(repo, cname, state):
    """-> (condition object built by <cname>'s own constructor on mock nodes / link / network in `state`, apply) where apply(state) moves the SAME mocks to
    another state.  state = dict(hs, he, flow, internal, setting): heads of the two nodes, flow, internal status name, valve setting."""
    world, LS = make_world(repo)
    s, e = Mock("start node", name="S", elevation=2.0), Mock("end node", name="E", elevation=3.0)
    link = Mock("link", name="L", start_node=s, end_node=e, start_node_name="S", end_node_name="E", _user_status=LS["Active"], minor_loss=2.5, diameter=0.3,
                speed_timeseries=Mock("speed", at=lambda t: 1.0, base_value=1.0, pattern_name=None), get_head_curve_coefficients=lambda: (50.0, 1.0, 1.0))
    nodes = {"S": s, "E": e}
    wn = Mock("network", sim_time=0, get_node=lambda n: nodes[n] if isinstance(n, str) else n, get_link=lambda n: link)

    def apply(st):
        s.head, e.head = st["hs"], st["he"]
        s._head, e._head = st["hs"], st["he"]
        link.flow = link._flow = st["flow"]
        link._internal_status = link.status = LS[st["internal"]]
        link.setting = link._setting = st["setting"]
    apply(state)
    cond, err = interpreted("%s(...)" % cname, lambda: repo_class(world, CTRL, cname)(wn, link))
    if err is not None:
        raise ExtractError("%s: the constructor raised %s on the mock world" % (cname, err))
    return cond, apply


def evaluate_condition(repo, cname, cond):
    world, _LS = make_world(repo)
    return interpreted("%s.evaluate" % cname, lambda: world.interp.getattr_(cond, "evaluate")())


def head_pump(repo, curves, use):
    """a HeadPump named P in a network whose curve registry holds `curves` ({name: points}); the curve `use` is assigned to it the way
    WaterNetworkModel.add_pump does (pump.pump_curve_name = name).  -> (pump, {name: Curve instance})"""
    world, LS = make_world(repo)
    C = repo_class(world, ELEM, "Curve")
    objs = collections.OrderedDict((nm, C(nm, "HEAD", list(pts))) for nm, pts in curves.items())
    pump = instance_of(world, ELEM, "HeadPump", _link_name="P", _curve_reg=CurveRegistry(objs), _pump_curve_name=None,
                       _user_status=LS["Open"], _internal_status=LS["Active"])
    world.interp.setattr_(pump, "pump_curve_name", use)
    return pump, objs


def head_curve_coefficients(repo, pump):
    """pump.get_head_curve_coefficients() -> ((A, B, C), None) or (None, error text)"""
    world, _ = make_world(repo)
    got, err = interpreted("HeadPump.get_head_curve_coefficients", lambda: world.interp.getattr_(pump, "get_head_curve_coefficients")())
    if err is None:
        if not (isinstance(got, (tuple, list)) and len(got) == 3 and all(isinstance(x, (int, float)) and not isinstance(x, bool) for x in got)):
            raise ExtractError("get_head_curve_coefficients returned %r, not three numbers" % (got,))
        got = tuple(got)
    return got, err


def fresh_fit(repo, points):
    """the coefficients a NEW pump computes for a NEW curve with these points"""
    pump, _ = head_pump(repo, {"fresh": list(points)}, "fresh")
    return head_curve_coefficients(repo, pump)


def run(repo, chk):
    consts = B.constants(repo)
    csub = B.const_subs(consts)
    chk.sample({"constants": {k: str(v[0]) for k, v in consts.items() if not str(k).startswith("hw_") or k in ("hw_k", "hw_exp", "hw_minor_exp", "hw_q1", "hw_q2", "hw_m")}})

    per = {}
    for bname in LINK_BUILDERS:
        dictname = bname.replace("_constraint", "")
        runs = []
        for case in link_cases(bname):
            fn, paths, ex = run_case(repo, bname, case)
            runs.append((case, [p for p in paths if not p.st.raised], ex))
        chk.fn(fn)
        per[bname] = (fn, runs)
        # ------------------------------------------------------------ R-C02-1
        for case, paths, ex in runs:
            what = "%s link (status %s%s) [%s]" % ("closed or isolated" if case.closed else "open", case.status, ", isolated" if case.isolated else "", case.nodes)
            if not paths:
                chk.bad("R-C02-1", "%s: a %s gets a row" % (bname, what), loc(fn), "every path of the builder raises for this kind of link")
                continue
            for p in paths:
                st = p.stores("m.%s[" % dictname)
                # every path stores exactly one constraint under the link's name
                chk.expect(len(st) == 1 and st[0][0] == loop_key(p, dictname) and isinstance(st[0][1], Constraint), "R-C02-1",
                           "%s stores one constraint per link under the link's name [%s%s]" % (bname, what, path_tag(p)), loc(fn),
                           expected=loop_key(p, dictname), found=[s_[0] for s_ in st])
                if case.closed:
                    v = st[-1][1] if st else None
                    e = v.expr if isinstance(v, Constraint) else None
                    good = e is not None and not isinstance(e, CondExpr) and canon(S(ex, e))[0] == Q
                    chk.expect(good, "R-C02-1", "%s: closed or isolated link => row `flow = 0`" % bname, loc(fn, None),
                               "a closed (or isolated) link must carry zero flow: the registered residual is the link's flow variable",
                               expected="Constraint(m.flow[link_name])", found="%s: %s" % (what, e))
        req = {"status", "_is_isolated"} | ({"pump_curve_name"} if bname == "head_pump_headloss_constraint" else set())
        allp, seenl = [], set()
        for case, paths, ex in runs:
            for p in paths:
                key = (p.label, tuple(p.updater_pairs()))
                if key not in seenl:
                    seenl.add(key)
                    allp.append(p)
        B.check_updaters(chk, "R-C02-1", fn, bname, allp, req, loc(fn))

    chk.floor("R-C02-1", 8 * 3)

    # ---------------------------------------------------------------- per path formulas of the open cases
    with chk.part("per path formulas of the open cases"):
        def formulas(bname):
            fn, runs = per[bname]
            dictname = bname.replace("_constraint", "")
            out = []
            for case, paths, ex in runs:
                if case.closed:
                    continue
                for p in paths:
                    st = p.stores("m.%s[" % dictname)
                    if not st:
                        continue
                    brs = branches_of(st[-1][1])
                    if brs is None:
                        raise ExtractError("%s: stored value is not a Constraint on path %s" % (bname, p.label))
                    out.append((case, p, brs, ex))
            return fn, out

        n_orient = 0
        for bname in LINK_BUILDERS:
            fn, fl = formulas(bname)
            for case, p, brs, ex in fl:
                sj, ej = case.sj, case.ej
                for i, (g, e) in enumerate(brs):
                    Rraw = S(ex, e)
                    R, info = canon(Rraw)
                    tag = "%s [%s] branch %d" % (bname, case.nodes, i)
                    stat = (case.status if bname in VALVE_BUILDERS else "") + path_tag(p)
                    tag += (" " + stat.strip()) if stat else ""
                    # binding of start_h / end_h: junction -> m.head[start_node_name], otherwise m.source_head[...]
                    for role, isj in (("Hs", sj), ("He", ej)):
                        for nm, i_ in info.get(role, []):
                            want = "head" if isj else "source_head"
                            chk.expect(i_.get("dict") == want, "R-C02-2", "%s: %s is read from m.%s" % (tag, role, want), loc(fn),
                                       "a junction's head is the variable m.head, a tank/reservoir's the parameter m.source_head", expected=want, found=nm)
                    is_setting = (bname in ("prv_headloss_constraint", "psv_headloss_constraint", "fcv_headloss_constraint") and case.status == "Active")
                    if not is_setting:
                        negq = isinstance(g, Ineq) and canon(g.body)[0] == Q and g.lb is None and g.ub is not None and S(ex, g.ub) == 0
                        if bname == "head_pump_headloss_constraint" and len(brs) == 3 and i == 1:
                            chk.note("head pump smoothing cubic on (pump_q1, pump_q2]: monotonicity depends on the fitted A,B,C and is checked at run time by get_pump_poly_coefficients (warning); not decided statically")
                            continue
                        interval = None
                        numsub = None
                        if bname == "piecewise_hazen_williams_headloss_constraint" and i == 1:
                            numsub = dict(csub)
                            numsub[cs("hw_minor_exp")] = 2
                            interval = (consts["hw_q1"][0], consts["hw_q2"][0])
                        if check_orientation(chk, "R-C02-2", "%s: orientation start->end" % tag, loc(fn), R, negative_flow=negq, numsub=numsub, interval=interval):
                            n_orient += 1
        chk.floor("R-C02-2", 60)

    # ---------------------------------------------------------------- R-C02-3 pipe law
    with chk.part("R-C02-3 pipe law"):
        k, Km, he, hm = cs("hw_resistance"), cs("minor_loss"), cs("hw_exp"), cs("hw_minor_exp")
        hw = lambda q: sp.sign(q) * k * sp.Abs(q) ** he
        ml = lambda q: sp.sign(q) * Km * q ** hm
        for nm, want, tol in (("hw_exp", sp.Rational("1.852"), 0), ("hw_minor_exp", sp.Integer(2), 0), ("hw_k", sp.Rational("10.667"), sp.Rational("5e-4"))):
            got = consts.get(nm)
            okc = got is not None and isinstance(got[0], sp.Basic) and got[0].is_number and abs(got[0] - want) <= tol * want
            chk.expect(okc, "R-C02-3", "constant %s = %s" % (nm, want), loc(B.CONSTANTS), "Hazen-Williams constant (SI): exponent 1.852, minor-loss exponent 2, k = 10.667",
                       expected=str(want), found=str(got[0]) if got else None)
        fn, fl = formulas("approx_hazen_williams_headloss_constraint")
        for case, p, brs, ex in fl:
            sj, ej = case.sj, case.ej
            R, _ = canon(S(ex, brs[0][1]))
            L = sp.expand((HS - HE) - R)
            D = sp.simplify((L - hw(Q) - ml(Q)).xreplace({Q: QP}))
            ratio = sp.simplify(D / (sp.sqrt(k) * QP))
            good = ratio.is_number and 0 <= ratio <= sp.Rational("1e-4")
            chk.expect(good, "R-C02-3", "approx H-W row [%s%s]: Hs - He = sign(q) k |q|^1.852 + sign(q) Km q^2 (+ eps sqrt(k) q, 0<=eps<=1e-4)" % ("J" if sj else "S", "J" if ej else "S"),
                       loc(fn), "open pipe law", expected="(Hs-He) - [HW + minor] = eps*sqrt(k)*q", found="L = %s" % L)
            Lm = L.subs(hm, 2)
            chk.expect(is_zero(Lm.subs(Q, -Q) + Lm), "R-C02-3", "approx H-W head loss is an odd function of flow [%s%s]" % ("J" if sj else "S", "J" if ej else "S"), loc(fn),
                       expected="L(-q) = -L(q)", found=str(Lm))
            dL = sp.simplify(sp.diff(L.xreplace({Q: QP}), QP))
            chk.expect(dL.is_positive is True or sign_of(dL) == 1, "R-C02-3", "approx H-W head loss increases with flow [%s%s]" % ("J" if sj else "S", "J" if ej else "S"), loc(fn),
                       expected="dL/dq > 0 for q > 0", found=str(dL))
        fn, fl = formulas("piecewise_hazen_williams_headloss_constraint")
        for case, p, brs, ex in fl:
            sj, ej = case.sj, case.ej
            tagp = "piecewise H-W [%s%s]" % ("J" if sj else "S", "J" if ej else "S")
            if len(brs) != 3:
                chk.bad("R-C02-3", "%s has three branches" % tagp, loc(fn), found=len(brs))
                continue
            Ls = []
            for i, (g, e) in enumerate(brs):
                R, _ = canon(S(ex, e))
                L = sp.expand((HS - HE) - R)
                Ls.append(L)
                Lm = L.subs(hm, 2)
                chk.expect(is_zero(sp.simplify(Lm.subs(Q, -Q) + Lm)), "R-C02-3", "%s branch %d is odd in the flow" % (tagp, i), loc(fn), found=str(Lm))
            chk.expect(is_zero(Ls[2] - hw(Q) - ml(Q)), "R-C02-3", "%s final branch is H-W + minor loss" % tagp, loc(fn), found=str(Ls[2]))
            # guards |q| <= hw_q1, |q| <= hw_q2
            gs = []
            for g, e in brs[:2]:
                if not isinstance(g, Ineq):
                    gs.append(None)
                    continue
                body, _ = canon(g.body)
                ub, _ = canon(S(ex, g.ub)) if g.ub is not None else (None, None)
                gs.append((body, ub, g.lb))
            chk.expect(gs[0] is not None and gs[0][0] == sp.Abs(Q) and gs[0][1] == cs("hw_q1") and gs[0][2] is None and
                       gs[1] is not None and gs[1][0] == sp.Abs(Q) and gs[1][1] == cs("hw_q2"), "R-C02-3", "%s guards are |q| <= hw_q1, |q| <= hw_q2" % tagp, loc(fn), found=str(gs))
            # C0 / C1 agreement at the break points with the constants file (q > 0)
            num = dict(csub)
            num[hm] = 2
            for (i, j, bp) in ((0, 1, "hw_q1"), (1, 2, "hw_q2")):
                xq = consts[bp][0]
                for order in (0, 1):
                    fi = sp.diff(Ls[i].xreplace({Q: QP}), QP, order).xreplace(num).subs(QP, xq)
                    fj = sp.diff(Ls[j].xreplace({Q: QP}), QP, order).xreplace(num).subs(QP, xq)
                    d = sp.N(sp.simplify((fi - fj) / k), 40)
                    scale = abs(sp.N((fj / k), 40)) + sp.Float("1e-30")
                    chk.expect(bool(d.is_number and abs(d) <= sp.Float("1e-9") * scale + sp.Float("1e-25")), "R-C02-3",
                               "%s: branches %d and %d agree at %s (derivative order %d)" % (tagp, i, j, bp, order), loc(fn),
                               "the smoothing polynomial data in constants.py must be the value/derivative of the neighbouring branches", found="difference/k = %s" % d)
        chk.floor("R-C02-3", 3 + 4 * 3 + 4 * (3 + 1 + 1 + 4))

    # ---------------------------------------------------------------- R-C02-4 coefficients
    with chk.part("R-C02-4 coefficients"):
        coeff_specs = {
            "hw_resistance_param": ("hw_resistance", lambda: cs("hw_k") * cs("roughness") ** sp.Rational("-1.852") * cs("diameter") ** sp.Rational("-4.871") * cs("length"),
                                    {"roughness", "diameter", "length"}),
            "minor_loss_param": ("minor_loss", lambda: 8 * cs("minor_loss") / (sp.Rational("9.81") * sp.pi ** 2 * cs("diameter") ** 4), {"minor_loss", "diameter"}),
            "tcv_resistance_param": ("tcv_resistance", lambda: 8 * cs("setting") / (sp.Rational("9.81") * sp.pi ** 2 * cs("diameter") ** 4), {"setting", "diameter"}),
            "pump_power_param": ("pump_power", lambda: cs("power"), {"power"}),
            "valve_setting_param": ("valve_setting", lambda: cs("setting"), {"setting"}),
        }
        for pname, (dname, ref, reads) in coeff_specs.items():
            fn, paths, ex = B.run_builder(repo, PAR, pname + ".build")
            chk.fn(fn)
            for p in paths:
                st = p.stores("m.%s[" % dname)
                vals = []
                for t, v, ln in st:
                    if isinstance(v, Opaque) and v.text.startswith("aml.Param("):
                        continue
                    vals.append(v)
                # value is either passed to aml.Param(value) (call event) or stored to .value
                for e in p.st.events:
                    if e[0] == "call" and e[1].startswith("aml.Param("):
                        vals.append(e[2][1][0])
                if not vals:
                    chk.bad("R-C02-4", "%s computes a value" % pname, loc(fn), found=p.label)
                    continue
                v, _ = canon(S(ex, vals[-1]))
                chk.expect(is_zero(v - ref()), "R-C02-4", "%s value equals the documented coefficient" % pname, loc(fn),
                           expected=str(ref()), found=str(v))
            B.check_updaters(chk, "R-C02-4", fn, pname, paths, reads, loc(fn))
        chk.floor("R-C02-4", 10)

    # ---------------------------------------------------------------- R-C02-5 pumps
    with chk.part("R-C02-5 pumps"):
        A, Bc, C = cs("A"), cs("B"), cs("C")
        fn, fl = formulas("head_pump_headloss_constraint")
        for case, p, brs, ex in fl:
            sj, ej = case.sj, case.ej
            tagp = "head pump [%s]%s" % (case.nodes, path_tag(p))
            Rf, _ = canon(S(ex, brs[-1][1]))
            chk.expect(is_zero(Rf - (A - Bc * Q ** C - HE + HS)), "R-C02-5", "%s final branch is He - Hs = A - B q^C" % tagp, loc(fn), found=str(Rf))
            exprs = [canon(S(ex, e))[0] for g, e in brs]
            ubs = [canon(S(ex, g.ub))[0] if isinstance(g, Ineq) and g.ub is not None else None for g, e in brs]
            bodies = [canon(g.body)[0] if isinstance(g, Ineq) else None for g, e in brs]
            chk.expect(all(b == Q for b in bodies[:-1]), "R-C02-5", "%s low-flow guards are on the flow" % tagp, loc(fn), found=str(bodies))
            num = dict(csub)
            for i in range(len(brs) - 1):
                bp = ubs[i]
                for order in (0, 1):
                    fi = sp.diff(exprs[i].xreplace({Q: QP}), QP, order).subs(QP, bp).xreplace(num)
                    fj = sp.diff(exprs[i + 1].xreplace({Q: QP}), QP, order).subs(QP, bp).xreplace(num)
                    # the derivative of B q^C at q = pump_q1 = 0 is taken as the limit for C<=1 between polynomial branches only
                    d = sp.simplify(fi - fj)
                    okk = is_zero(d)
                    chk.expect(okk, "R-C02-5", "%s: branches %d and %d agree at the break point (derivative order %d)" % (tagp, i, i + 1, order), loc(fn),
                               "pump low-flow smoothing must join the curve continuously", found=str(d)[:200])
        fn, fl = formulas("power_pump_headloss_constraint")
        for case, p, brs, ex in fl:
            sj, ej = case.sj, case.ej
            R, _ = canon(S(ex, brs[0][1]))
            want = cs("pump_power") + (HS - HE) * Q * sp.Rational("9810")
            chk.expect(is_zero(R - want), "R-C02-5", "power pump [%s%s]: P = rho g q (He - Hs), rho g = 9810" % ("J" if sj else "S", "J" if ej else "S"), loc(fn),
                       expected=str(want), found=str(R))
        # get_head_curve_coefficients: the method is RUN (sa/concrete.py) on pumps of the repository's own HeadPump / Curve classes; the 1- and
        # 2-point fits are decided on sample curves (the formulas are rational in the points: generic samples, rel. tolerance 1e-9); the
        # the regression on MORE than three points (scipy curve_fit) is NOT analysed; 3-point curves are, see below
        gfn = repo.func(ELEM, "HeadPump.get_head_curve_coefficients")
        chk.fn(gfn)
        TOL = 1e-9

        def close(x, y, scale):
            return abs(x - y) <= TOL * max(abs(scale), 1e-300)

        one_pt = [[(0.05, 30.0)], [(0.1234, 71.5)], [(2.0, 3.25)], [(0.75, 1000.0)]]
        two_pt = [[(0.0, 40.0), (0.1, 30.0)], [(0.02, 55.5), (0.31, 12.25)], [(0.5, 10.0), (1.5, 4.0)], [(0.0, 30.0), (0.1, 20.0)]]
        seen = set()
        fails = {"design": [], "shutoff": [], "zero": [], "p0": [], "p1": []}
        for pts in one_pt:
            got, err = fresh_fit(repo, pts)
            (q0, h0), = pts
            if err is not None:
                for k in ("design", "shutoff", "zero"):
                    fails[k].append("%s: %s" % (pts, err))
                continue
            seen.add(1)
            a_, b_, c_ = got
            if not close(a_ - b_ * q0 ** c_, h0, h0):
                fails["design"].append("points %s: A=%r B=%r C=%r gives H(Q0)=%r" % (pts, a_, b_, c_, a_ - b_ * q0 ** c_))
            if not close(a_, 4.0 * h0 / 3.0, h0):
                fails["shutoff"].append("points %s: A=%r, 4/3 H=%r" % (pts, a_, 4.0 * h0 / 3.0))
            if not close(a_, b_ * (2 * q0) ** c_, a_):
                fails["zero"].append("points %s: H(2 Q0)=%r" % (pts, a_ - b_ * (2 * q0) ** c_))
        chk.expect(not fails["design"], "R-C02-5", "1-point pump curve passes through the design point", loc(gfn), found=fails["design"][:3])
        chk.expect(not fails["shutoff"], "R-C02-5", "1-point pump curve: shut-off head 4/3 H", loc(gfn), found=fails["shutoff"][:3])
        chk.expect(not fails["zero"], "R-C02-5", "1-point pump curve: zero head at twice the design flow", loc(gfn), found=fails["zero"][:3])
        for pts in two_pt:
            got, err = fresh_fit(repo, pts)
            if err is not None:
                for k in ("p0", "p1"):
                    fails[k].append("%s: %s" % (pts, err))
                continue
            seen.add(2)
            a_, b_, c_ = got
            for i, (qi, hi) in enumerate(pts):
                if not close(a_ - b_ * qi ** c_, hi, max(h for _q, h in pts)):
                    fails["p%d" % i].append("points %s: A=%r, B=%r, C=%r; H(Q%d)=%r" % (pts, a_, b_, c_, i, a_ - b_ * qi ** c_))
        for i in (0, 1):
            chk.expect(not fails["p%d" % i], "R-C02-5", "2-point pump curve H = A - B Q^C passes through point %d" % i, loc(gfn),
                       "the fitted curve must reproduce the points it was fitted to", expected="A - B*Q%d^C = H%d" % (i, i), found=fails["p%d" % i][:3])
        chk.expect(seen == {1, 2}, "R-C02-5", "1- and 2-point pump-curve formulas located", loc(gfn), "the fit of a 1-point and of a 2-point curve must return coefficients",
                   found=sorted(seen))
        # 3-point curves: H = A - B Q^C has three parameters, so the fit must reproduce all three points -- also when the first point is NOT at zero flow (the closed-form
        # start values A0 = H0, C0, B0 assume it is).  scipy's curve_fit is replaced by a stand-in that returns the exact interpolant (see _curve_fit_stub); whatever the
        # function does with it (or instead of it), the coefficients it reports are checked against the points.  Regressions on more than three points: not analysed.
        three_pt = [[(0.0, 40.0), (0.1, 35.0), (0.2, 20.0)], [(0.05, 57.37), (0.1, 50.0), (0.2, 25.0)], [(0.02, 80.0), (0.06, 71.0), (0.11, 40.5)], [(0.5, 12.0), (1.0, 9.0), (2.0, 1.5)]]
        fails3 = []
        for pts in three_pt:
            got, err = fresh_fit(repo, pts)
            if err is not None:
                fails3.append("%s: %s" % (pts, err))
                continue
            a_, b_, c_ = got
            for i, (qi, hi) in enumerate(pts):
                hfit = a_ - b_ * qi ** c_ if qi > 0 else a_
                if not abs(hfit - hi) <= 1e-6 * pts[0][1]:
                    fails3.append("points %s: A=%r, B=%r, C=%r; H(Q%d)=%r instead of %r" % (pts, a_, b_, c_, i, hfit, hi))
                    break
        chk.expect(not fails3, "R-C02-5", "3-point pump curve H = A - B Q^C passes through its three points (first point at zero flow or not)", loc(gfn),
                   "three parameters, three points: the fitted curve must reproduce the points; the closed-form start values take A = H0, which is only right when Q0 = 0", found=fails3[:3])
        # R-C02-5c: the coefficients a pump reports belong to its curve's CURRENT points, whatever was computed before: each scenario computes the
        # coefficients once (so that anything memoised is in place), changes the curve the way the API allows, and compares the coefficients
        # reported afterwards with those of a NEW pump on a NEW curve with the same points (differential, exact equality)
        world, _LS = make_world(repo)
        P1, P2 = [(0.1, 30.0)], [(0.2, 45.0)]
        L1, L2 = [(0.0, 40.0), (0.1, 30.0)], [(0.0, 50.0), (0.2, 20.0)]
        M1, M2 = [(0.0, 40.0), (0.1, 35.0), (0.2, 20.0)], [(0.0, 60.0), (0.1, 50.0), (0.2, 25.0)]

        def current_points(curve):
            pts, err = interpreted("Curve.points", lambda: world.interp.getattr_(curve, "points"))
            if err is not None or not isinstance(pts, (list, tuple)):
                raise ExtractError("Curve.points of the mock world's curve: %s" % (err or repr(pts)))
            return pts

        def reassign(points):
            def f(pump, curves):
                world.interp.setattr_(curves["c"], "points", list(points))
            return f

        def set_item(i, pt):
            def f(pump, curves):
                current_points(curves["c"])[i] = pt
            return f

        def append(pt):
            def f(pump, curves):
                current_points(curves["c"]).append(pt)
            return f

        def other_curve(pump, curves):
            world.interp.setattr_(pump, "pump_curve_name", "d")

        def memo_scenario(start, change, other=None):
            """-> None when the coefficients after `change` are those of the curve's current points, else a description"""
            curves = {"c": list(start)}
            if other is not None:
                curves["d"] = list(other)
            pump, objs = head_pump(repo, curves, "c")
            first, err = head_curve_coefficients(repo, pump)
            if err is not None:
                return "first call on %s: %s" % (start, err)
            again, err = head_curve_coefficients(repo, pump)
            if err is not None or again != first:
                return "a second call on the unchanged curve %s gives %s after %s" % (start, err or (again,), first)
            _r, err = interpreted("changing the curve", lambda: change(pump, objs))
            if err is not None:
                return "changing the curve: %s" % err
            now_curve, err = interpreted("HeadPump.get_pump_curve", lambda: world.interp.getattr_(pump, "get_pump_curve")())
            if err is not None:
                return "get_pump_curve: %s" % err
            now = [tuple(pt) for pt in current_points(now_curve)]
            after, err = head_curve_coefficients(repo, pump)
            want, werr = fresh_fit(repo, now)
            if (after, err) != (want, werr):
                return "points %s -> %s: the pump reports %s, a fresh fit of the current points gives %s" % (list(start), now, err or (after,), werr or (want,))
            return None

        bad_ = [r for r in (memo_scenario(P1, set_item(0, P2[0])), memo_scenario(P1, append((0.3, 10.0))), memo_scenario(L1, set_item(1, (0.25, 10.0))),
                            memo_scenario(M1, set_item(2, (0.2, 10.0)))) if r]
        chk.expect(not bad_, "R-C02-5", "the points stored with the memoised fit are a copy, not the curve's live list", loc(gfn),
                   "Curve.points returns the internal list: after an in-place edit (curve.points[0] = ..., .append) a memo keyed by that very list compares equal to itself and "
                   "the pump keeps the coefficients of the old curve", expected="coefficients of the edited points", found=bad_[:3])
        bad_ = [r for r in (memo_scenario(P1, reassign(P2)), memo_scenario(L1, reassign(L2)), memo_scenario(P1, reassign(L2)), memo_scenario(L2, reassign(P1)),
                            memo_scenario(M1, reassign(M2)), memo_scenario(M1, reassign(L1))) if r]
        chk.expect(not bad_, "R-C02-5", "get_head_curve_coefficients re-fits A, B, C whenever the curve's points differ from the points of the memoised fit", loc(gfn),
                   "a head pump must lie on the curve fitted to its CURRENT points: after `curve.points = [...]` a stale memo makes every later run use the old curve",
                   expected="coefficients of the re-assigned points", found=bad_[:3])
        psetter = repo.func(ELEM, "HeadPump.pump_curve_name", kind="setter")
        chk.fn(psetter)
        bad_ = [r for r in (memo_scenario(P1, other_curve, other=P2), memo_scenario(L1, other_curve, other=L2), memo_scenario(P1, other_curve, other=L1),
                            memo_scenario(M1, other_curve, other=M2)) if r]
        chk.expect(not bad_, "R-C02-5", "assigning another curve to the pump (pump_curve_name setter) drops the memoised coefficients", loc(psetter),
                   expected="coefficients of the newly assigned curve", found=bad_[:3])
        chk.floor("R-C02-5", 8 + 4 + 6 + 2 + 1)

    # ---------------------------------------------------------------- R-C02-6 valves
    with chk.part("R-C02-6 valves"):
        # the registered relation is compared AS A FUNCTION of the flow: for q > 0 and for q < 0 the branch in force (first guard that holds) must equal
        # the documented relation -- one expression with sign(q), two branches split at q <= 0 or at q >= 0 are the same function
        minor = sp.sign(Q) * Km * Q ** 2 - HS + HE
        valve_ref = {
            ("prv_headloss_constraint", "Active"): HE - cs("valve_setting") - cs("elev_end"),
            ("prv_headloss_constraint", "Open"): minor,
            ("psv_headloss_constraint", "Active"): HS - cs("valve_setting") - cs("elev_start"),
            ("psv_headloss_constraint", "Open"): minor,
            ("fcv_headloss_constraint", "Active"): Q - cs("valve_setting"),
            ("fcv_headloss_constraint", "Open"): minor,
            ("tcv_headloss_constraint", "Active"): sp.sign(Q) * cs("tcv_resistance") * Q ** 2 - HS + HE,
            ("tcv_headloss_constraint", "Open"): minor,
        }

        def in_force(brs, ex, qsym):
            """the canonical residual in force for a flow of the sign of qsym (None: a guard is not a test of the flow's sign)"""
            for g, e in brs:
                if g is not None:
                    if not isinstance(g, Ineq):
                        return None
                    body = canon(g.body)[0].xreplace({Q: qsym})
                    lb = None if g.lb is None else canon(S(ex, g.lb))[0]
                    ub = None if g.ub is None else canon(S(ex, g.ub))[0]
                    if any(x is not None and x != 0 for x in (lb, ub)) or (lb is None and ub is None):
                        return None
                    sg = sign_of(body)
                    if sg not in (1, -1) or not (body.is_positive or body.is_negative):
                        return None
                    holds = (lb is None or sg > 0) and (ub is None or sg < 0)
                    if not holds:
                        continue
                return canon(S(ex, e))[0].xreplace({Q: qsym})
            return None

        seenv = set()
        for bname in VALVE_BUILDERS:
            fn, fl = formulas(bname)
            for case, p, brs, ex in fl:
                stat = case.status
                ref = valve_ref[(bname, stat)]
                seenv.add((bname, stat))
                tagv = "%s %s [%s]%s" % (bname, stat, case.nodes, path_tag(p))
                fwd, rev = in_force(brs, ex, QP), in_force(brs, ex, QN)
                chk.expect(fwd is not None and is_zero(fwd - ref.xreplace({Q: QP})), "R-C02-6", "%s: documented valve relation" % tagv, loc(fn),
                           expected=str(ref), found=[str(canon(S(ex, e))[0]) for g, e in brs])
                # a loss coefficient takes head in the direction of flow: the relation must be odd in q
                chk.expect(rev is not None and is_zero(rev - ref.xreplace({Q: QN})), "R-C02-6", "%s: the relation in force for reverse flow" % tagv, loc(fn),
                           "K*q^2 - Hs + He alone is even in q: for q < 0 the valve ADDS K*q^2 of head in the flow direction (PRV/PSV with fixed status OPEN: Hs - He = +77 m "
                           "instead of -77 m)", expected=str(ref), found=[(str(g), str(canon(S(ex, e))[0])) for g, e in brs])
        chk.expect(seenv == set(valve_ref), "R-C02-6", "all valve type/status branches located", loc(CON), found=sorted(set(valve_ref) - seenv))
        chk.floor("R-C02-6", 32)

    # ---------------------------------------------------------------- R-C02-7 status resolution
    with chk.part("R-C02-7 status resolution"):
        members = ["Closed", "Open", "Active"]
        for cname, rule in (("Pipe", "int-closed"), ("Pump", "int-closed"), ("Valve", "user-first")):
            fn = repo.func(ELEM, "%s.status" % cname, kind="getter")
            chk.fn(fn)
            tab = status_table(repo, cname)
            for u, i in itertools.product(members, members):
                if rule == "int-closed":
                    want = "Closed" if i == "Closed" else u
                else:
                    want = u if u in ("Closed", "Open") else i
                chk.expect(tab[(u, i)] == want, "R-C02-7", "%s.status(user=%s, internal=%s) = %s" % (cname, u, i, want), loc(fn),
                           "effective status: pipes/pumps are closed by their internal status else follow the user; valves follow a fixed user status else the internal one",
                           expected=want, found=tab[(u, i)])
        chk.floor("R-C02-7", 27)

    # ---------------------------------------------------------------- R-C02-8 no reverse flow
    with chk.part("R-C02-8 no reverse flow"):
        # each condition object is built by its own constructor on mock nodes / link / network and its evaluate() is run (sa/concrete.py) on one
        # sample point per region of the (head difference, flow[, internal status]) space
        def cond(cname, dh_start_minus_end, flow, internal="Open", shutoff=None):
            got, err = condition_value(repo, cname, (0.0, -dh_start_minus_end), flow, internal, shutoff)
            return got if err is None else "raises " + err

        fclose, fopen = repo.func(CTRL, "_CloseCVCondition.evaluate"), repo.func(CTRL, "_OpenCVCondition.evaluate")
        chk.fn(fclose, fopen)
        cc = class_constants(repo, CTRL, "_CloseCVCondition")
        Ht, Qt = named_constant(cc, "Htol", HTOL_SI), named_constant(cc, "Qtol", QTOL_SI)
        if not (0 < Ht < 1e-2 and 0 < Qt < 1e-3):
            chk.bad("R-C02-8", "_CloseCVCondition tolerances are small positive numbers", loc(fclose), found=cc)
        else:
            dhs = [-1.0, -2 * Ht, -Ht / 2, 0.0, Ht / 2, 2 * Ht, 1.0]
            qs = [-1.0, -2 * Qt, -Qt / 2, 0.0, Qt / 2, 1.0]
            for dh, q in itertools.product(dhs, qs):
                close = cond("_CloseCVCondition", dh, q)
                opn = cond("_OpenCVCondition", dh, q)
                must_close = q < -Qt or dh < -Ht
                region = "dh=%+.3g*Htol q=%+.3g*Qtol" % (dh / Ht, q / Qt)
                if must_close:
                    chk.expect(close is True, "R-C02-8", "check valve closes on reverse flow / adverse head [%s]" % region, loc(fclose),
                               "a CV pipe must close whenever flow < -Qtol or Hs - He < -Htol", expected=True, found=close)
                    chk.expect(opn is False, "R-C02-8", "check valve does not re-open while reverse conditions hold [%s]" % region, loc(fopen), expected=False, found=opn)
                chk.expect(not (close is True and opn is True) and isinstance(close, bool) and isinstance(opn, bool), "R-C02-8",
                           "close and open conditions are never both true [%s]" % region, loc(fopen), found="close=%s open=%s" % (close, opn))
        # pumps: closed above the shut-off head AND whenever they carry reverse flow; never both conditions true; able to re-open below the shut-off head
        Aval = 50.0
        for pclose, popen, head in (("_CloseHeadPumpCondition", "_OpenHeadPumpCondition", True), ("_ClosePowerPumpCondition", "_OpenPowerPumpCondition", False)):
            f1, f2 = repo.func(CTRL, pclose + ".evaluate"), repo.func(CTRL, popen + ".evaluate")
            chk.fn(f1, f2)
            cc1 = class_constants(repo, CTRL, pclose)
            # a head pump's shut-off head is the A its (stubbed) curve fit reports; a power pump has none (the class constant Hmax, 1e10)
            hmax = Aval if head else named_constant(cc1, "Hmax", 1e10)
            ht = named_constant(cc1, "Htol", HTOL_SI)
            qt = named_constant(cc1, "Qtol", Qt)
            dvals = [hmax - 1.0, hmax + 1.0] if hmax < 1e9 else [0.0, 10.0]
            for d, q, ist in itertools.product(dvals, (-1.0, -2 * qt, 0.0, 1.0), ("Open", "Closed")):
                close = cond(pclose, -d, q, ist, Aval)
                opn = cond(popen, -d, q, ist, Aval)
                region = "dh-Hmax=%+.3g q=%+.3g*Qtol internal=%s" % (d - hmax, q / qt, ist)
                must_close = q < -qt or d > hmax + ht
                if must_close:
                    chk.expect(close is True, "R-C02-8", "%s is true on reverse flow / above the shut-off head [%s]" % (pclose, region), loc(f1),
                               "pumps never report reverse flow beyond the flow tolerance: for q < 0 the pump relation is flat at the shut-off head (head pump) or has a second root "
                               "(power pump), so a head test alone never closes a pump that runs backwards", expected=True, found=close)
                    chk.expect(opn is False, "R-C02-8", "%s does not re-open the pump while it must be closed [%s]" % (popen, region), loc(f2), expected=False, found=opn)
                else:
                    chk.expect(close is False, "R-C02-8", "%s leaves a forward-running pump below the shut-off head alone [%s]" % (pclose, region), loc(f1), expected=False, found=close)
                    if d < hmax - 0.5:
                        chk.expect(opn is True, "R-C02-8", "%s re-opens a pump well below the shut-off head [%s]" % (popen, region), loc(f2), expected=True, found=opn)
                chk.expect(not (close is True and opn is True) and isinstance(close, bool) and isinstance(opn, bool), "R-C02-8",
                           "%s / %s are never both true [%s]" % (pclose, popen, region), loc(f2), found="close=%s open=%s" % (close, opn))
        chk.floor("R-C02-8", 40)

    # ---------------------------------------------------------------- R-C02-9 status conditions read the state of the moment
    with chk.part("R-C02-9 status conditions read the state of the moment"):
        # the simulator builds every internal status condition ONCE per run_sim and evaluates it after every solve; heads, flows, internal statuses and
        # (through controls) valve settings change in between.  Differential, interpreted (T3, bounded to the state pairs below): a condition built in
        # state S1 and evaluated after the mocks moved to S2 must give what a condition freshly built in S2 gives.
        internal = sorted(n for n, c in repo.classes(CTRL).items() if n.startswith("_") and n.endswith("Condition")
                          and any(isinstance(m, ast.FunctionDef) and m.name == "evaluate" for m in c.body))
        if len(internal) < 12:
            raise AnchorError("internal status condition classes not found in %s (%s)" % (CTRL, internal))
        S1 = dict(hs=40.0, he=35.0, flow=0.02, internal="Active", setting=30.0)
        moves = [dict(S1, setting=80.0), dict(S1, setting=5.0), dict(S1, hs=20.0, he=36.0), dict(S1, flow=-0.02), dict(S1, internal="Closed", flow=0.0),
                 dict(S1, internal="Closed", flow=0.0, setting=80.0), dict(S1, internal="Open", setting=60.0), dict(S1, internal="Open", he=90.0, hs=95.0, setting=50.0),
                 dict(S1, internal="Closed", flow=0.0, hs=60.0, he=10.0, setting=45.0), dict(S1, flow=1e-9, setting=0.5)]
        for cname in internal:
            bad_ = []
            for S2 in moves:
                cond_, apply = condition_world(repo, cname, S1)
                apply(S2)
                got = evaluate_condition(repo, cname, cond_)
                fresh, _ap = condition_world(repo, cname, S2)
                want = evaluate_condition(repo, cname, fresh)
                if got != want:
                    bad_.append("after %s: %s, a condition built in that state: %s" % ({k: v for k, v in S2.items() if S1[k] != v}, got[1] or got[0], want[1] or want[0]))
            chk.expect(not bad_, "R-C02-9", "%s.evaluate decides on the state at the time of evaluation" % cname, loc(repo.func(CTRL, cname + ".evaluate")),
                       "the condition objects are built once per run_sim; a quantity cached at construction (a valve's setting turned into a head, a node's head) goes stale when a control "
                       "or the solver changes it: the status automaton keeps deciding on the initial value while the head-loss row follows the new one",
                       expected="same verdict as a condition built in the new state", found=bad_[:3])
        chk.floor("R-C02-9", 12)

    # ---------------------------------------------------------------- R-C02-10 every link's rows are built from that link's own data
    with chk.part("R-C02-10 every link's rows are built from that link's own data"):
        B.check_loop_independence(repo, chk, "R-C02-10", [(CON, b + ".build") for b in (
            "piecewise_hazen_williams_headloss_constraint", "approx_hazen_williams_headloss_constraint", "head_pump_headloss_constraint", "power_pump_headloss_constraint",
            "prv_headloss_constraint", "psv_headloss_constraint", "fcv_headloss_constraint", "tcv_headloss_constraint")] + [(PAR, p + ".build") for p in (
            "hw_resistance_param", "minor_loss_param", "tcv_resistance_param", "pump_power_param", "valve_setting_param")] + [(B.VAR, "flow_var")], "link")
        chk.floor("R-C02-10", 14)


_W = lambda name, old, new, rule, **kw: dict(name=name, file=CON, old=old, new=new, rule=rule, **kw)
WITNESSES = [
    dict(name="pump-end-head-carried-from-the-previous-pump", file=CON, old="                if isinstance(end_node, wntr.network.Junction):\n                    end_h = m.head[end_node_name]\n                else:\n                    end_h = m.source_head[end_node_name]\n                A, B, C = link.get_head_curve_coefficients()",
         new="                if not isinstance(end_node, wntr.network.Junction):\n                    end_h = m.source_head[end_node_name]\n                A, B, C = link.get_head_curve_coefficients()", rule="R-C02-10"),
    dict(name="prv-setting-head-cached-at-construction", file=CTRL, old="        self._r = 8.0 * self._prv.minor_loss / (9.81 * math.pi**2 * self._prv.diameter**4)\n\n    def requires(self):\n        return OrderedSet([self._prv, self._start_node, self._end_node])\n\n    def evaluate(self):\n        if self._prv._internal_status == LinkStatus.Active:\n            if self._prv.flow < -self._Qtol:\n                return False\n            elif self._start_node.head < self._prv.setting + self._end_node.elevation + self._r",
         new="        self._r = 8.0 * self._prv.minor_loss / (9.81 * math.pi**2 * self._prv.diameter**4)\n        self._hset = self._prv.setting + self._end_node.elevation\n\n    def requires(self):\n        return OrderedSet([self._prv, self._start_node, self._end_node])\n\n    def evaluate(self):\n        if self._prv._internal_status == LinkStatus.Active:\n            if self._prv.flow < -self._Qtol:\n                return False\n            elif self._start_node.head < self._hset + self._r", rule="R-C02-9"),
    dict(name="three-point-curve-keeps-the-start-values", file=ELEM, old="                    coeff, cov = curve_fit(flow_vs_head_func, Q, H, [A0, B0, C0])\n", new="                    coeff = [A0, B0, C0]\n", rule="R-C02-5"),
    dict(name="head-pump-ignores-reverse-flow", file=CTRL, old="        if self._pump.flow is not None and self._pump.flow < -2.83168e-6:\n            return True\n", new="", rule="R-C02-8"),
    dict(name="pump-memo-key-aliases-live-list", file=ELEM, old="            self._coeffs_curve_points = list(curve.points)", new="            self._coeffs_curve_points = curve.points", rule="R-C02-5"),
    dict(name="stale-pump-curve-memo", file=ELEM, old="if self._curve_coeffs is None or curve.points != self._coeffs_curve_points:", new="if self._curve_coeffs is None:", rule="R-C02-5"),
    _W("hw-drop-sign", "con = aml.Constraint(expr=-aml.sign(f)*k*aml.abs(f)**m.hw_exp", "con = aml.Constraint(expr=-k*aml.abs(f)**m.hw_exp", "R-C02-3"),
    _W("hw-swap-heads", "- aml.sign(f)*minor_k*f**m.hw_minor_exp + start_h - end_h)\n\n            m.approx", "- aml.sign(f)*minor_k*f**m.hw_minor_exp + end_h - start_h)\n\n            m.approx", "R-C02-2"),
    _W("closed-branch-open-law", "            if status == LinkStatus.Closed or link._is_isolated:\n                con = aml.Constraint(f)\n            else:\n                eps = 1e-5",
       "            if link._is_isolated:\n                con = aml.Constraint(f)\n            else:\n                eps = 1e-5", "R-C02-1"),
    _W("prv-upstream", "con = aml.Constraint(end_h - m.valve_setting[link_name] - m.elevation[end_node_name])", "con = aml.Constraint(start_h - m.valve_setting[link_name] - m.elevation[start_node_name])", "R-C02-6"),
    _W("power-pump-rho-g", "* f * (9.81 * 1000.0))", "* f * (9.8 * 1000.0))", "R-C02-5"),
    _W("tcv-guard", "con.add_condition(aml.inequality(f, ub=0), -m.tcv_resistance[link_name] * f ** 2 - start_h + end_h)", "con.add_condition(aml.inequality(f, ub=0), m.tcv_resistance[link_name] * f ** 2 - start_h + end_h)", "R-C02-6"),
    _W("start-end-binding-swap", "                if isinstance(start_node, wntr.network.Junction):\n                    start_h = m.head[start_node_name]\n                else:\n                    start_h = m.source_head[start_node_name]\n                if isinstance(end_node, wntr.network.Junction):\n                    end_h = m.head[end_node_name]\n                else:\n                    end_h = m.source_head[end_node_name]\n\n                con = aml.Constraint(m.pump_power",
       "                if isinstance(start_node, wntr.network.Junction):\n                    start_h = m.head[start_node_name]\n                else:\n                    start_h = m.source_head[start_node_name]\n                if isinstance(end_node, wntr.network.Junction):\n                    end_h = m.head[end_node_name]\n                else:\n                    end_h = m.head[end_node_name]\n\n                con = aml.Constraint(m.pump_power", "R-C02-2"),
    dict(name="hw-exponent", file=B.CONSTANTS, old="m.hw_exp = 1.852", new="m.hw_exp = 1.85", rule="R-C02-3"),
    dict(name="minor-loss-d5", file=PAR, old="value = 8.0 * link.minor_loss / (9.81 * math.pi**2 * link.diameter**4)", new="value = 8.0 * link.minor_loss / (9.81 * math.pi**2 * link.diameter**5)", rule="R-C02-4"),
    dict(name="hw-res-not-updated-on-length", file=PAR, old="            updater.add(link, 'length', hw_resistance_param.update)\n", new="", rule="R-C02-4"),
    dict(name="pipe-status-swap", file=ELEM, old="        if self._internal_status == LinkStatus.Closed:\n            return LinkStatus.Closed\n        else:\n            return self._user_status\n\n    @property\n    def friction_factor",
         new="        if self._user_status == LinkStatus.Closed:\n            return LinkStatus.Closed\n        else:\n            return self._internal_status\n\n    @property\n    def friction_factor", rule="R-C02-7"),
    dict(name="cv-qtol-sign", file=CTRL, old="            elif self._cv.flow < -self.Qtol:\n                return True\n            else:\n                return False\n        else:\n            if self._cv.flow < -self.Qtol:",
         new="            elif self._cv.flow < -self.Qtol:\n                return True\n            else:\n                return False\n        else:\n            if self._cv.flow < -self.Htol:", rule="R-C02-8"),
    dict(name="pump-curve-1pt-coefficient", file=ELEM, old="                B = (1.0/3.0)*(H[0]/(Q[0]**2))", new="                B = (1.0/2.0)*(H[0]/(Q[0]**2))", rule="R-C02-5"),
    dict(name="pump-curve-2pt-intercept", file=ELEM, old="                A = H[0] + B * Q[0]", new="                A = H[0] - B * Q[0]", rule="R-C02-5"),
    dict(name="valve-open-status-ignores-user-closed", file=ELEM, old="        if self._user_status == LinkStatus.Closed:\n            return LinkStatus.Closed\n        elif self._user_status == LinkStatus.Open:",
         new="        if self._user_status == LinkStatus.Active:\n            return LinkStatus.Closed\n        elif self._user_status == LinkStatus.Open:", rule="R-C02-7"),
    _W("isolated-link-keeps-head-loss-row", "            if status == LinkStatus.Closed or link._is_isolated:\n                con = aml.Constraint(f)\n            else:\n                start_node_name = link.start_node_name\n                end_node_name = link.end_node_name\n                start_node = wn.get_node(start_node_name)\n                end_node = wn.get_node(end_node_name)\n                if isinstance(start_node, wntr.network.Junction):\n                    start_h = m.head[start_node_name]\n                else:\n                    start_h = m.source_head[start_node_name]\n                if isinstance(end_node, wntr.network.Junction):\n                    end_h = m.head[end_node_name]\n                else:\n                    end_h = m.source_head[end_node_name]\n\n                if status == LinkStatus.Active:\n                    con = aml.ConditionalExpression()\n                    con.add_condition(aml.inequality(f, ub=0), -m.tcv_resistance",
       "            if status == LinkStatus.Closed and link._is_isolated:\n                con = aml.Constraint(f)\n            else:\n                start_node_name = link.start_node_name\n                end_node_name = link.end_node_name\n                start_node = wn.get_node(start_node_name)\n                end_node = wn.get_node(end_node_name)\n                if isinstance(start_node, wntr.network.Junction):\n                    start_h = m.head[start_node_name]\n                else:\n                    start_h = m.source_head[start_node_name]\n                if isinstance(end_node, wntr.network.Junction):\n                    end_h = m.head[end_node_name]\n                else:\n                    end_h = m.source_head[end_node_name]\n\n                if status == LinkStatus.Active:\n                    con = aml.ConditionalExpression()\n                    con.add_condition(aml.inequality(f, ub=0), -m.tcv_resistance", "R-C02-1"),
    # ---- behaviour-preserving variants (must stay quiet)
    dict(name="preserving-pump-condition-subscript-and-named-tolerance", file=CTRL,
         old="        a, b, c = self._pump.get_head_curve_coefficients()\n        if self._pump.speed_timeseries.at(self._wn.sim_time) != 1.0:\n            raise NotImplementedError('Pump speeds other than 1.0 are not yet supported.')\n        Hmax = a\n        dh = self._end_node.head - self._start_node.head\n        if dh > Hmax + self._Htol:\n            return True\n        if self._pump.flow is not None and self._pump.flow < -2.83168e-6:\n            return True\n        return False\n",
         new="        Hmax = self._pump.get_head_curve_coefficients()[0]\n        if self._pump.speed_timeseries.at(self._wn.sim_time) != 1.0:\n            raise NotImplementedError('Pump speeds other than 1.0 are not yet supported.')\n        dh = self._end_node.head - self._start_node.head\n        flow = self._pump.flow\n        return dh > Hmax + self._Htol or (flow is not None and flow < -self._Qtol)\n",
         also=[("class _CloseHeadPumpCondition(ControlCondition):\n    \"\"\"\n    Prevents reverse flow in pumps.\n    \"\"\"\n    _Htol = 0.0001524\n",
                "class _CloseHeadPumpCondition(ControlCondition):\n    \"\"\"\n    Prevents reverse flow in pumps.\n    \"\"\"\n    _Htol = 0.0001524\n    _Qtol = 2.83168e-6\n")], rule=None, silent=True),
    dict(name="preserving-cv-condition-flattened", file=CTRL,
         old="        if abs(dh) > self.Htol:\n            if dh < -self.Htol:\n                return True\n            elif self._cv.flow < -self.Qtol:\n                return True\n            else:\n                return False\n        else:\n            if self._cv.flow < -self.Qtol:\n                return True\n            else:\n                return False\n",
         new="        reverse = self._cv.flow < -self.Qtol\n        return bool(dh < -self.Htol or reverse)\n", rule=None, silent=True),
    dict(name="preserving-curve-fit-guard-first-comprehensions-unpacking", file=ELEM,
         old="            Q = []\n            H = []\n            for pt in curve.points:\n                Q.append(pt[0])\n                H.append(pt[1])\n            \n            # 1-Point curve - Replicate EPANET for a one point curve\n            if curve.num_points == 1:",
         new="            n_pts = curve.num_points\n            if n_pts < 1:\n                raise RuntimeError('Head pump ' + self.name + ' has an empty pump curve.')\n            Q, H = [pt[0] for pt in curve.points], [pt[1] for pt in curve.points]\n            if n_pts == 1:",
         also=[("        A = self._curve_coeffs[0]\n        B = self._curve_coeffs[1]\n        C = self._curve_coeffs[2]\n        \n        return A,B,C", "        A, B, C = self._curve_coeffs\n        return A, B, C")],
         rule=None, silent=True),
    dict(name="preserving-curve-fit-returns-coefficients-caller-memoises", file=ELEM,
         old="            self._coeffs_curve_points = list(curve.points)                \n            self._curve_coeffs = [A,B,C]\n",
         new="            return [A, B, C]\n",
         also=[("            calculate_coefficients(curve)\n", "            fitted = calculate_coefficients(curve)\n            self._coeffs_curve_points = list(curve.points)\n            self._curve_coeffs = fitted\n")],
         rule=None, silent=True),
    dict(name="preserving-pipe-status-conditional-expression", file=ELEM,
         old="        if self._internal_status == LinkStatus.Closed:\n            return LinkStatus.Closed\n        else:\n            return self._user_status\n\n    @property\n    def friction_factor",
         new="        closed = self._internal_status is LinkStatus.Closed\n        return {True: LinkStatus.Closed, False: self._user_status}[closed]\n\n    @property\n    def friction_factor", rule=None, silent=True),
    _W("preserving-closed-guard-reordered-and-split", "            if status == LinkStatus.Closed or link._is_isolated:\n                con = aml.Constraint(f)\n            else:\n                eps = 1e-5",
       "            if link._is_isolated:\n                con = aml.Constraint(f)\n            elif not status != LinkStatus.Closed:\n                con = aml.Constraint(f)\n            else:\n                eps = 1e-5", None, silent=True),
    _W("preserving-tcv-one-odd-expression", "                    con = aml.ConditionalExpression()\n                    con.add_condition(aml.inequality(f, ub=0), -m.tcv_resistance[link_name] * f ** 2 - start_h + end_h)\n                    con.add_final_expr(m.tcv_resistance[link_name] * f ** 2 - start_h + end_h)\n                    con = aml.Constraint(con)\n",
       "                    con = aml.Constraint(aml.sign(f) * m.tcv_resistance[link_name] * f ** 2 - start_h + end_h)\n", None, silent=True),
    _W("preserving-valve-status-dispatch-order", "                if status == LinkStatus.Active:\n                    con = aml.ConditionalExpression()\n                    con.add_condition(aml.inequality(f, ub=0), -m.tcv_resistance[link_name] * f ** 2 - start_h + end_h)\n                    con.add_final_expr(m.tcv_resistance[link_name] * f ** 2 - start_h + end_h)\n                    con = aml.Constraint(con)\n                else:\n                    assert status == LinkStatus.Open\n                    con = aml.ConditionalExpression()\n                    con.add_condition(aml.inequality(f, ub=0), -m.minor_loss[link_name] * f ** 2 - start_h + end_h)\n                    con.add_final_expr(m.minor_loss[link_name] * f ** 2 - start_h + end_h)\n                    con = aml.Constraint(con)\n",
       "                coefficient = m.minor_loss[link_name] if status != LinkStatus.Active else m.tcv_resistance[link_name]\n                con = aml.ConditionalExpression()\n                con.add_condition(aml.inequality(f, ub=0), -coefficient * f ** 2 - start_h + end_h)\n                con.add_final_expr(coefficient * f ** 2 - start_h + end_h)\n                con = aml.Constraint(con)\n", None, silent=True),
    _W("reassociate-preserving", "con = aml.Constraint(m.pump_power[link_name] + (start_h - end_h) * f * (9.81 * 1000.0))", "hd = start_h - end_h\n                con = aml.Constraint((9.81 * 1000.0) * f * hd + m.pump_power[link_name])", None, silent=True),
]
