"""C06 -- tank volumes integrate their net inflow and stay within their limits (integration step, bookkeeping, limit controls).

Techniques (DESIGN 2b), per rule:
* T2 symbolic path enumeration (AtomExec / SymExec, sympy is_zero): R-C06-1 (Euler step, get_volume / level / init_level),
  R-C06-3 (case table of _get_all_tank_controls), R-C06-4 (partial step of TankLevelCondition.evaluate).
* T1 structural + T2: R-C06-2 (CFG reachability in run_sim; stores of update_network_previous_values from symbolic events; the time
  advance is recognised only as `self._wn.sim_time += ..`, source_head_param by a substring of its unparsed source).
* T3 finite evaluation, exhaustive over a finite domain: R-C06-3b (3 x 3 status table by sa/peval, via c02.status_table).
* T2 as well: R-C06-1b (the elevation / init_level setters executed symbolically: last value stored into _head = elevation + init_level),
  R-C06-1c (the axes of every interpolation, with locals resolved by the symbolic execution, are computed from <tank>.vol_curve.points).
* T3 bounded: R-C06-3d (_CloseHeadPumpCondition built on mocks and evaluated on three reverse-flow fixtures below the shut-off head).
* PRESENCE / TEXT MATCHES ONLY (both are recorded, unrepaired defects; the match only recognises that a repair has appeared):
  R-C06-3c (substring 'isinstance(other_node, Tank)'), R-C06-5 (some *interp call has a left=/right= keyword, or there is no such call).
"""
import ast
import os
import re

import sympy as sp

from ..src import walk, calls, call_name, dotted, const, loc, unparse, norm, AnchorError, ExtractError, last_attr
from ..symx import SymExec, Opaque, State, is_zero, CondExpr, Constraint, Ineq
from ..cfg import CFG

HYD = "wntr/sim/hydraulics.py"
CORE = "wntr/sim/core.py"
ELEM = "wntr/network/elements.py"
CTRL = "wntr/network/controls.py"

EXPLANATION = (
    "T2 (symbolic path enumeration to sympy forms, path-condition atoms and call events): R-C06-1 update_tank_heads is the explicit Euler step -- "
    "dt = sim_time - _prev_sim_time; cylindrical tanks: new head = last accepted head + demand*dt/(pi*D^2/4); volume-curve tanks: V^-1(V(accepted level) "
    "+ demand*dt) with transposed axes -- and Tank.get_volume / level / init_level follow their definitions; R-C06-3 case table of "
    "_get_all_tank_controls over link kind x orientation x limit (which links get closing / re-opening controls at which head, priority, solve "
    "phase); R-C06-4 TankLevelCondition.evaluate stores floor((cur - thr)*area/demand) (floor(dV/demand) for curves) only when the condition became "
    "true since the last value (units and sign are not analysed). T1+T2: R-C06-2 CFG reachability in run_sim: previous values (time, tank heads) are "
    "stored once per accepted step after save_results and before the advance (seen only as `sim_time +=`), heads recomputed on non-first, "
    "non-resolve iterations; source_head_param by text. T3, exhaustive over the 3x3 (user, internal) status table evaluated by sa/peval: R-C06-3b "
    "Pipe/Pump/Valve.status is Closed when the internal status is. T2: R-C06-1b the elevation and init_level setters, executed "
    "symbolically, leave head = elevation + init_level; R-C06-1c every interpolation axis (locals resolved) is computed from <tank>.vol_curve.points at the "
    "time of use. T3 bounded: R-C06-3d _CloseHeadPumpCondition evaluated on mock pumps with reverse flow below the shut-off head is true. Presence / text "
    "matches only (two recorded, unrepaired defects): R-C06-3c _get_all_tank_controls contains 'isinstance(other_node, Tank)'; "
    "R-C06-5 an interp call carries left=/right= (or none exists). Decides the integration formula and the controls' construction, not trajectories.")
RULE_TEXT = "one instance = one extracted formula, one bookkeeping path rule, one row of the limit-control case table, or one presence check"
ASSUMPTIONS = ["the ~2 s overshoot bound and limits on every trajectory depend on the timing of the re-solve loop (not decided)",
               "R-C06-3c and -5 (known findings) are presence / text matches on the parsed source: they only recognise that a repair has appeared",
               "R-C06-3d is decided on three (heads, flow) fixtures",
               "R-C06-2 skips its 'stored before the advance' obligation silently when the advance is not written `self._wn.sim_time += ..`"]


def interp_hook(name, node, args, kwargs, st, ex, recv):
    if name in ("np.interp", "numpy.interp") and len(args) < 3 and set(kwargs) <= {"x", "xp", "fp", "left", "right", "period"}:
        # np.interp(x, xp, fp) with some of the three given by keyword: bound as numpy's signature binds them
        bound = list(args)
        for p_ in ("x", "xp", "fp")[len(bound):]:
            if p_ not in kwargs:
                bound = None
                break
            bound.append(kwargs[p_])
        if bound is not None:
            args = bound
    if name in ("np.interp", "numpy.interp") and len(args) == 3:
        return sp.Function("interp")(ex.S(args[0]), ex.sym(ex.text(args[1])), ex.sym(ex.text(args[2])))
    if name in ("np.array", "numpy.array") and len(args) == 1:
        return Opaque("array(%s)" % ex.text(args[0]))
    return NotImplemented


# ------------------------------------------------------------------------------------------------ path conditions as atoms
class BoolTerm(Opaque):
    """an undecided boolean combination of uninterpreted values: op in ('and', 'or', 'not', 'ite')"""
    __slots__ = ("op", "vals")

    def __init__(self, op, vals, text):
        Opaque.__init__(self, text)
        self.op = op
        self.vals = list(vals)


class ADict(dict):
    """abstract dict that remembers its (key value, value) pairs in source order, for look-ups with an undecided key"""
    pairs = ()


_CONSTLIKE = re.compile(r"^(None|True|False|[-+]?[0-9.]+(e[-+]?[0-9]+)?|'.*'|\".*\")$")


def eq_atom(a, b, sym="=="):
    """canonical text of the atom `a == b` / `a is b`: constants on the right, otherwise the operands in text order"""
    if _CONSTLIKE.match(a) and not _CONSTLIKE.match(b):
        a, b = b, a
    elif not _CONSTLIKE.match(b) and b < a:
        a, b = b, a
    return "%s %s %s" % (a, sym, b)


class AtomExec(SymExec):
    """SymExec whose path conditions are ATOMS, so that rules can ask `is X known true / false on this path` whatever shape
    the test was written in: `and` / `or` / `not` are split with short-circuit semantics (also when the combination was first
    stored in a local), `a != b` / `a is not b` are recorded as the negation of `a == b` / `a is b` with the operands in a
    canonical order, `x == False` as `not x`, `bool(x)` as x; a call through a local that aliases an uninterpreted callable
    (`rel = self._relation; rel(a, b)`) is named after the callable and remembered in `applied` (text -> (callable, args))."""

    def __init__(self, *a, **k):
        SymExec.__init__(self, *a, **k)
        self.applied = {}

    @staticmethod
    def truth(v):
        if isinstance(v, bool):
            return v
        if v is None:
            return False
        if isinstance(v, (int, float, str)):
            return bool(v)
        if isinstance(v, (list, tuple, dict)):
            return bool(v)
        if isinstance(v, (CondExpr, Constraint, Ineq)):
            return True
        return None

    def e_BoolOp(self, n, st):
        vals = [self.ev(v, st) for v in n.values]
        isand = isinstance(n.op, ast.And)
        tr = [self.truth(v) for v in vals]
        if all(t is not None for t in tr):
            return all(tr) if isand else any(tr)
        if isand and any(t is False for t in tr):
            return False
        if (not isand) and any(t is True for t in tr):
            return True
        vals = [v for v, t in zip(vals, tr) if t is None]
        if len(vals) == 1:
            return vals[0]
        return BoolTerm("and" if isand else "or", vals, (" and " if isand else " or ").join(self.text(v) for v in vals))

    def negate(self, v):
        t = self.truth(v)
        if t is not None:
            return not t
        if isinstance(v, BoolTerm) and v.op == "not":
            return v.vals[0]
        return BoolTerm("not", [v], "not " + self.text(v))

    def e_UnaryOp(self, n, st):
        if isinstance(n.op, ast.Not):
            return self.negate(self.ev(n.operand, st))
        return SymExec.e_UnaryOp(self, n, st)

    def e_IfExp(self, n, st):
        c = self.ev(n.test, st)
        t = self.truth(c)
        if t is not None:
            return self.ev(n.body if t else n.orelse, st)
        a, b = self.ev(n.body, st), self.ev(n.orelse, st)
        if all(isinstance(x, (bool, Opaque)) or x is None for x in (a, b)):      # a choice between two uninterpreted / boolean values: split when branched on
            return BoolTerm("ite", [c, a, b], "(%s if %s else %s)" % (self.text(a), self.text(c), self.text(b)))
        return SymExec.e_IfExp(self, n, st)

    def compare(self, op, a, b):
        opn = type(op).__name__
        if opn in ("Eq", "NotEq", "Is", "IsNot"):
            for x, y in ((a, b), (b, a)):
                if y is False and isinstance(x, Opaque):      # x == False  ~  not x
                    return self.negate(x) if opn in ("Eq", "Is") else x
        if opn in ("In", "NotIn") and isinstance(a, Opaque) and isinstance(b, (list, tuple)) and b and len(b) <= 8 \
                and all(isinstance(x, (str, int, float, Opaque)) and not isinstance(x, BoolTerm) for x in b):
            # membership in a literal collection = one of the equalities
            atoms = [Opaque(eq_atom(self.text(a), self.text(x))) for x in b]
            m = atoms[0] if len(atoms) == 1 else BoolTerm("or", atoms, " or ".join(x.text for x in atoms))
            return m if opn == "In" else self.negate(m)
        r = SymExec.compare(self, op, a, b)
        if isinstance(r, Opaque) and not isinstance(r, BoolTerm) and opn in ("Eq", "NotEq", "Is", "IsNot"):
            atom = Opaque(eq_atom(self.text(a), self.text(b), "==" if opn in ("Eq", "NotEq") else "is"))
            return atom if opn in ("Eq", "Is") else self.negate(atom)
        return r

    def e_Dict(self, n, st):
        d = ADict(SymExec.e_Dict(self, n, st))
        d.pairs = [(self.ev(k, st), self.ev(v, st)) for k, v in zip(n.keys, n.values) if k is not None]
        return d

    def lookup(self, d, key, default):
        """table look-up with a key the table does not decide: a chain of choices `v1 if key == k1 else (v2 if key == k2 else default)`"""
        out = default
        for k, v in reversed(list(d.pairs)):
            cond = Opaque(eq_atom(self.text(key), self.text(k)))
            out = BoolTerm("ite", [cond, v, out], "(%s if %s else %s)" % (self.text(v), cond.text, self.text(out)))
        return out

    def e_Subscript(self, n, st):
        base = self.ev(n.value, st)
        if isinstance(base, ADict) and base.pairs:
            key = self.ev(n.slice, st)
            if isinstance(key, Opaque) and self.text(key) not in base:
                return self.lookup(base, key, Opaque("<KeyError>"))
        return SymExec.e_Subscript(self, n, st)

    def e_Call(self, n, st):
        if isinstance(n.func, ast.Name) and n.func.id == "bool" and len(n.args) == 1 and not n.keywords:
            return self.ev(n.args[0], st)
        if isinstance(n.func, ast.Attribute) and n.func.attr == "get" and 1 <= len(n.args) <= 2 and not n.keywords:
            recv = self.ev(n.func.value, st)
            if isinstance(recv, ADict) and recv.pairs:
                key = self.ev(n.args[0], st)
                if isinstance(key, Opaque) and self.text(key) not in recv:
                    return self.lookup(recv, key, self.ev(n.args[1], st) if len(n.args) == 2 else None)
        if isinstance(n.func, ast.Name) and isinstance(st.env.get(n.func.id), Opaque) and not n.keywords:
            f = st.env[n.func.id]
            args = [self.ev(a, st) for a in n.args]
            txt = "%s(%s)" % (f.text, ", ".join(self.text(a) for a in args))
            self.applied[txt] = (f.text, args)
            return Opaque(txt)
        return SymExec.e_Call(self, n, st)

    def split(self, v, st):
        """-> [(state, truth)]: the states in which the value v is true / false, forking on the atoms not yet known"""
        t = self.truth(v)
        if t is not None:
            return [(st, t)]
        if isinstance(v, BoolTerm):
            if v.op == "not":
                return [(s, not t_) for s, t_ in self.split(v.vals[0], st)]
            if v.op == "ite":
                return [r for s, t_ in self.split(v.vals[0], st) for r in self.split(v.vals[1] if t_ else v.vals[2], s)]
            out = []
            stop = v.op == "or"                                    # `or` stops at the first true operand, `and` at the first false
            rest = v.vals[1:]
            restv = rest[0] if len(rest) == 1 else BoolTerm(v.op, rest, (" %s " % v.op).join(self.text(x) for x in rest))
            for s, t_ in self.split(v.vals[0], st):
                if t_ == stop:
                    out.append((s, t_))
                else:
                    out.extend(self.split(restv, s))
            return out
        txt = self.text(v)
        known = st.cond(txt)
        if known is None and self.test_hook:
            known = self.test_hook(txt, None, st)
        if known is not None:
            return [(st, bool(known))]
        a, b = st, st.fork()
        a.conds.append((txt, True))
        b.conds.append((txt, False))
        return [(a, True), (b, False)]

    def choices(self, v, st):
        """-> [(state, value)]: a choice value (conditional expression / table look-up) resolved by forking on its condition"""
        if isinstance(v, BoolTerm) and v.op == "ite":
            return [r for s, t in self.split(v.vals[0], st) for r in self.choices(v.vals[1] if t else v.vals[2], s)]
        return [(st, v)]

    def stmt(self, s, st):
        if isinstance(s, ast.Assign) and len(s.targets) == 1 and isinstance(s.targets[0], ast.Name):
            # `x = a if c else b` is the statement `if c: x = a else: x = b`
            v = self.ev(s.value, st)
            outs = []
            for s2, v2 in self.choices(v, st):
                self.assign(s.targets[0], v2, s2, s)
                outs.append(s2)
            return outs
        return SymExec.stmt(self, s, st)

    def branch(self, test, body, orelse, st):
        outs = []
        for s, t in self.split(self.ev(test, st), st):
            outs.extend(self.block(body if t else orelse, [s]))
        return outs


def test_literals(e, pol=True):
    """the literals {(text, polarity)} that necessarily hold when test `e` has outcome `pol`: conjunctions (and refuted disjunctions) are
    split, `not x` / `x == False` / `x is False` / `x != True` flip the polarity; anything else is one uninterpreted literal"""
    if isinstance(e, ast.UnaryOp) and isinstance(e.op, ast.Not):
        return test_literals(e.operand, not pol)
    if isinstance(e, ast.BoolOp) and isinstance(e.op, ast.And if pol else ast.Or):
        out = set()
        for v in e.values:
            out |= test_literals(v, pol)
        return out
    if isinstance(e, ast.Compare) and len(e.ops) == 1 and isinstance(e.ops[0], (ast.Eq, ast.NotEq, ast.Is, ast.IsNot)):
        l, r = e.left, e.comparators[0]
        for x, y in ((l, r), (r, l)):
            if isinstance(y, ast.Constant) and isinstance(y.value, bool):
                same = isinstance(e.ops[0], (ast.Eq, ast.Is)) == y.value        # `x == True`, `x != False` keep the polarity of x
                return test_literals(x, pol if same else not pol)
    return {(unparse(e), pol)}


def guard_literals(node, stop):
    """literals that hold whenever statement `node` executes, collected from the if-statements enclosing it (up to `stop`)"""
    out = set()
    cur = node
    par = getattr(cur, "_parent", None)
    while par is not None and par is not stop and not isinstance(par, (ast.FunctionDef, ast.AsyncFunctionDef)):
        if isinstance(par, ast.If):
            if any(cur is x for x in par.body):
                out |= test_literals(par.test, True)
            elif any(cur is x for x in par.orelse):
                out |= test_literals(par.test, False)
        cur, par = par, getattr(par, "_parent", None)
    return out


def run(repo, chk):
    # ---------------------------------------------------------------- R-C06-1 Euler step
    with chk.part("R-C06-1 Euler step"):
        fn = repo.func(HYD, "update_tank_heads")
        chk.fn(fn)
        ex = AtomExec(call_hook=interp_hook)          # path conditions as canonical atoms: `is not None`, swapped operands, and/or shapes do not matter
        outs = ex.run(fn)
        sy = ex.sym
        dt_ref = sy("wn.sim_time") - sy("wn._prev_sim_time")
        dem, prevh, D = sy("tank.demand"), sy("tank._prev_head"), sy("tank.diameter")
        seen = {"cyl": 0, "curve": 0}
        for o in outs:
            st = [e for e in o.events if e[0] == "store" and e[1] == "tank._head"]
            if len(st) != 1:
                chk.bad("R-C06-1", "update_tank_heads assigns the new head exactly once per tank", loc(fn), found=[e[1] for e in st])
                continue
            ctx = st[0][4][-1] if len(st[0]) > 4 and st[0][4] else ""
            chk.expect(ctx == "wn.tanks()", "R-C06-1", "update_tank_heads ranges over all tanks", loc(fn), found=ctx)
            val = ex.S(st[0][2])
            none = [v for t, v in o.conds if t == eq_atom("tank.vol_curve", "None", "is")]
            if none and none[0]:
                seen["cyl"] += 1
                want = prevh + dem * dt_ref / (sp.pi * D ** 2 / 4)
                chk.expect(is_zero(val - want), "R-C06-1", "cylindrical tank: new head = last accepted head + demand*dt / (pi*D^2/4)", loc(fn),
                           "explicit Euler step with the tank's cross-section, net inflow and the elapsed time since the last accepted solve", expected=str(want), found=str(val))
            elif none and not none[0]:
                seen["curve"] += 1
                same = [v for t, v in o.conds if t == eq_atom("tank.head", "tank._prev_head")]
                interps = [a for a in val.atoms(sp.Function) if a.func.__name__ == "interp"]
                outer = [a for a in interps if any(isinstance(b, sp.Function) and b.func.__name__ == "interp" for b in a.args[0].atoms(sp.Function))]
                okc = len(outer) == 1
                detail = ""
                if okc:
                    O = outer[0]
                    inner = [b for b in O.args[0].atoms(sp.Function) if b.func.__name__ == "interp"]
                    I = inner[0]
                    L = I.args[0]
                    # axes transposed on the same curve
                    okc = I.args[1] == O.args[2] and I.args[2] == O.args[1] and I.args[1] != I.args[2]
                    detail += "axes %s/%s vs %s/%s; " % (I.args[1], I.args[2], O.args[1], O.args[2])
                    # level axis is column 0, volume axis column 1 of the curve points
                    okc = okc and str(I.args[1]).endswith("[:, 0]") or str(I.args[1]).endswith("[(:, 0)]") or ", 0)" in str(I.args[1]) if okc else False
                    okc = okc and is_zero(O.args[0] - (I + dem * dt_ref))
                    detail += "V1 - (V0 + q*dt) = %s; " % sp.simplify(O.args[0] - (I + dem * dt_ref))
                    okc = okc and is_zero(val - (prevh + O - L))
                    # reference level must be the LAST ACCEPTED level
                    lvl_prev = prevh - (sy("tank.head") - sy("tank.level"))
                    if same and same[0]:
                        okl = is_zero(L - sy("tank.level")) or is_zero(L - lvl_prev)
                    else:
                        okl = is_zero(L - lvl_prev)
                    chk.expect(okl, "R-C06-1", "volume-curve tank: the step starts from the last accepted level%s" % (" [head unchanged since]" if same and same[0] else " [head already advanced]"), loc(fn),
                               "update_tank_heads is called several times per step; once the head has been advanced, tank.level is no longer the accepted level and the volume increment "
                               "would be measured on the wrong part of the curve", expected=str(lvl_prev), found=str(L))
                chk.expect(bool(okc), "R-C06-1", "volume-curve tank: V1 = V(level) + demand*dt and new level = V^-1(V1) on the same curve%s" % (" [head unchanged since]" if same and same[0] else " [head already advanced]"),
                           loc(fn), detail, found=str(val)[:300])
        chk.expect(seen["cyl"] >= 1 and seen["curve"] >= 1, "R-C06-1", "both tank geometries are handled", loc(fn), found=seen)
        # dt definition: the value a local `dt` has at the end of every path (when the step is written without such a local, the two formulas above, which
        # are compared against sim_time - _prev_sim_time, already decide it)
        dtv = [o.env["dt"] for o in outs if "dt" in o.env]
        okdt = True
        for v in dtv:
            try:
                okdt = okdt and is_zero(ex.S(v) - dt_ref)
            except ExtractError:
                okdt = False
        chk.expect(okdt, "R-C06-1", "dt is the time since the last accepted solve", loc(fn), expected=str(dt_ref), found=str(dtv[0]) if dtv else "no local dt")
        gv = repo.func(ELEM, "Tank.get_volume")
        chk.fn(gv)
        exv = AtomExec(call_hook=interp_hook)
        gseen = set()
        for o in exv.run(gv):
            if o.raised or o.ret is None:
                continue
            none = [v for t, v in o.conds if "vol_curve is None" in t]
            lvl_none = [v for t, v in o.conds if t == "level is None"]
            if lvl_none and lvl_none[0]:
                continue
            if none and none[0]:
                r = exv.S(o.ret)
                want = sp.pi / 4 * exv.sym("self.diameter") ** 2 * exv.sym("level")
                chk.expect(is_zero(r - want), "R-C06-1", "Tank.get_volume (cylindrical) = pi/4 * D^2 * level", loc(gv), found=str(r))
                gseen.add("cyl")
            elif none and not none[0]:
                r = exv.S(o.ret) if not isinstance(o.ret, Opaque) else None
                okg = r is not None and len([a for a in r.atoms(sp.Function) if a.func.__name__ == "interp"]) == 1
                chk.expect(bool(okg), "R-C06-1", "Tank.get_volume (curve) interpolates the volume curve at the level", loc(gv), found=str(o.ret)[:120])
                gseen.add("curve")
        chk.expect(gseen == {"cyl", "curve"}, "R-C06-1", "Tank.get_volume handles both geometries", loc(gv), found=sorted(gseen))
        # Tank.level and the init_level setter, as formulas (a property and its backing field `_x` are the same quantity)
        def pub(exq, v):
            e = exq.S(v)
            return e.subs({y: exq.sym(str(y).replace("self._", "self.")) for y in e.free_symbols if str(y).startswith("self._")})
        lv = repo.func(ELEM, "Tank.level", kind="getter")
        exl = SymExec()
        rets = [o.ret for o in exl.run(lv) if not o.raised]
        okl = bool(rets)
        for r in rets:
            try:
                okl = okl and r is not None and is_zero(pub(exl, r) - (exl.sym("self.head") - exl.sym("self.elevation")))
            except ExtractError:
                okl = False
        chk.expect(okl, "R-C06-1", "Tank.level = head - elevation", loc(lv), found=[str(r) for r in rets])
        il = repo.func(ELEM, "Tank.init_level", kind="setter")
        exi = SymExec()
        oki, found_i = False, []
        for o in exi.run(il):
            if o.raised:
                continue
            hs = [e for e in o.events if e[0] == "store" and e[1] == "self._head"]
            found_i.append([str(e[2]) for e in hs])
            try:
                val = pub(exi, hs[-1][2]) if hs else None
            except ExtractError:
                val = None
            newv = [e[2] for e in o.events if e[0] == "store" and e[1] == "self._init_level"]      # the value the setter stores as the new init_level
            cands = [exi.sym("self.init_level")] + [exi.S(x) for x in newv[-1:] if isinstance(x, (Opaque, sp.Basic, int, float))]
            oki = val is not None and any(is_zero(val - (exi.sym("self.elevation") + c_)) for c_ in cands)
            if not oki:
                break
        chk.expect(oki, "R-C06-1", "setting init_level sets head = elevation + init_level", loc(il), found=found_i)
        chk.floor("R-C06-1", 10)

    # ---------------------------------------------------------------- R-C06-2 bookkeeping
    with chk.part("R-C06-2 bookkeeping"):
        up = repo.func(HYD, "update_network_previous_values")
        chk.fn(up)
        exu = SymExec()
        ou = exu.run(up)[0]
        stores = {(e[1], (e[4][-1] if len(e) > 4 and e[4] else "")): e[2] for e in ou.events if e[0] == "store"}
        chk.expect(stores.get(("wn._prev_sim_time", "")) == Opaque("wn.sim_time"), "R-C06-2", "update_network_previous_values stores the accepted time", loc(up), found=stores.get(("wn._prev_sim_time", "")))
        chk.expect(stores.get(("tank._prev_head", "wn.tanks()")) == Opaque("tank.head"), "R-C06-2", "update_network_previous_values stores every tank's accepted head", loc(up), found={k: str(v) for k, v in stores.items()})
        rs = repo.func(CORE, "WNTRSimulator.run_sim")
        chk.fn(rs)
        g = CFG(rs)
        heads = [h for n, h in g.loop_heads.items() if isinstance(n, ast.While)]
        if len(heads) != 1:
            raise AnchorError("run_sim: expected one while loop")
        head = heads[0]
        inloop = g.reachable(head)
        upd = g.calling("update_network_previous_values")
        upd_in = [u for u in upd if u in inloop and head in g.reachable(u)]
        upd_pre = [u for u in upd if u not in upd_in]
        saves = g.calling("save_results")
        adv = g.nodes_where(lambda node, d: isinstance(node, ast.AugAssign) and unparse(node.target) == "self._wn.sim_time" and isinstance(node.op, ast.Add))
        chk.expect(len(upd_in) == 1, "R-C06-2", "exactly one update_network_previous_values per accepted step", loc(rs), found=[g.label(u) for u in upd_in])
        if upd_in and adv:
            u = upd_in[0]
            w = g.can_reach_avoiding(head, adv, [u], drop_back=True)
            chk.expect(w is None, "R-C06-2", "the accepted state is stored before sim_time advances", loc(rs), found=g.path_text(w) if w else None)
            rr = g.reachable(u, g.view(drop_back=True))
            chk.expect(not any(s in rr for s in saves), "R-C06-2", "the accepted state is stored after the results of the step were saved", loc(rs))
            gt = [n for n in g.nodes_where(lambda node, d: d["kind"] == "test" and "changes_made" in unparse(node) and "'graph'" in unparse(node))]
            if gt:
                w = g.can_reach_avoiding(g.succ_on(gt[0], True)[0], [u], [], drop_back=True) if g.succ_on(gt[0], True) else None
                chk.expect(w is None, "R-C06-2", "a step that is going to be re-solved is not stored as accepted", loc(rs), found=g.path_text(w) if w else None)
        okpre = len(upd_pre) == 1 and guard_literals(g.node_ast(upd_pre[0]), rs) == {("first_step", True)}
        chk.expect(okpre, "R-C06-2", "before the loop the previous values are initialised only on a first step", loc(rs),
                   found=[sorted(guard_literals(g.node_ast(u), rs)) for u in upd_pre])
        uth = g.calling("update_tank_heads")
        comp = g.calling("_compute_next_timestep_and_run_presolve_controls_and_rules")
        shp = g.calling("source_head_param")
        if not (uth and comp and shp):
            raise AnchorError("run_sim: update_tank_heads / scheduler / source_head_param calls missing")
        between = [n for n in uth if n in g.reachable(comp[0], g.view(drop_back=True)) and shp[0] in g.reachable(n, g.view(drop_back=True))]
        # the guards are read as sets of literals from all enclosing ifs: nesting, operand order, `x == False` / `not x` do not matter
        wloop = [n for n in g.loop_heads if isinstance(n, ast.While)][0]
        okb = any(guard_literals(g.node_ast(n), wloop) == {("first_step", False), ("resolve", False)} for n in between)
        chk.expect(okb, "R-C06-2", "every non-first, non-resolve iteration recomputes tank heads after the step's final time is known and before the source heads are refreshed", loc(rs),
                   expected="a call guarded by exactly (not first_step) and (not resolve)", found=[(g.label(n), sorted(guard_literals(g.node_ast(n), wloop))) for n in between])
        early = [n for n in uth if comp[0] in g.reachable(n, g.view(drop_back=True))]
        for n in early:
            lits = guard_literals(g.node_ast(n), wloop)
            chk.expect(("first_step", False) in lits and not any(t == "first_step" and v for t, v in lits), "R-C06-2", "tank heads are projected before the controls are checked, except on a first step", loc(rs, g.node_ast(n)), found=sorted(lits))
        shn = repo.func("wntr/sim/models/param.py", "source_head_param")
        # decided on the store events of the symbolic paths (not on the text): on the refresh path, inside a loop over wn.tanks() binding (key, tank), the model
        # parameter under that key receives that tank's head
        from ..symx import SymExec as _SX
        ok_copy = False
        for hv in (True, False):
            exs = _SX(test_hook=lambda txt, node, st, hv=hv: (hv if txt.startswith("hasattr(") else None))
            for o in exs.run(shn):
                for e in o.events:
                    if e[0] != "store" or not e[4]:
                        continue
                    val = exs.text(e[2])
                    m_ = re.match(r"^m\.source_head\[(\w+)\]\.value$", e[1])
                    if not m_:
                        continue
                    key = m_.group(1)
                    # the loops this store is nested in: (target text, iterable text) recorded with the loop events of the path
                    for le in o.events:
                        if le[0] == "loop" and "tanks()" in le[2]:
                            names = [x.strip() for x in le[1].strip("()").split(",")]
                            if len(names) == 2 and names[0] == key and val == names[1] + ".head":
                                ok_copy = True
        chk.expect(ok_copy, "R-C06-2", "source_head_param copies every tank's head into the model", loc(shn),
                   "on the refresh path the parameter m.source_head[<tank name>] must receive <tank>.head for every tank of wn.tanks(): the integrated level reaches the solver only through it")
        chk.floor("R-C06-2", 8)

    # ---------------------------------------------------------------- R-C06-3 limit controls
    with chk.part("R-C06-3 limit controls"):
        tc = repo.func(CORE, "WNTRSimulator._get_all_tank_controls")
        chk.fn(tc)
        outer = [n for n in tc.body if isinstance(n, ast.For)]
        if len(outer) != 1:
            raise AnchorError("_get_all_tank_controls: expected one loop over tanks")
        chk.expect("Tank" in unparse(outer[0].iter), "R-C06-3", "limit controls are built for every tank", loc(tc), found=unparse(outer[0].iter))
        inner = [n for n in outer[0].body if isinstance(n, ast.For)]
        if len(inner) != 2:
            raise AnchorError("_get_all_tank_controls: expected a min-level loop and a max-level loop, found %d" % len(inner))
        # constructor calls are read through the real __init__ signatures (positional or keyword arguments alike): role name -> value
        sigs, defaults = {}, {}
        for cname in ("ValueCondition", "RelativeCondition", "_InternalControlAction", "Control"):
            ini = repo.func(CTRL, cname + ".__init__")
            a_ = ini.args
            if a_.vararg or a_.kwarg:
                raise ExtractError("%s.__init__ takes star arguments" % cname)
            sigs[cname] = [x.arg for x in a_.args[1:]] + [x.arg for x in a_.kwonlyargs]
            for x, d_ in list(zip(a_.args[len(a_.args) - len(a_.defaults):], a_.defaults)) + [(x, d_) for x, d_ in zip(a_.kwonlyargs, a_.kw_defaults) if d_ is not None]:
                defaults[(cname, x.arg)] = d_.value if isinstance(d_, ast.Constant) else Opaque(unparse(d_))
        ROLES = {"ValueCondition": ("source_obj", "source_attr", "relation", "threshold"),
                 "RelativeCondition": ("source_obj", "source_attr", "relation", "threshold_obj", "threshold_attr"),
                 "_InternalControlAction": ("target_obj", "internal_attribute", "value", "property_attribute"),
                 "Control": ("condition", "then_action", "priority")}
        for cname, roles in ROLES.items():
            if not set(roles) <= set(sigs[cname]):
                raise AnchorError("%s.__init__ no longer has the parameters %s" % (cname, sorted(set(roles) - set(sigs[cname]))))

        def bound(ev_):
            cname = ev_[1].split("(", 1)[0]
            _, args_, kw_ = ev_[2]
            if len(args_) > len(sigs[cname]) or set(kw_) - set(sigs[cname]):
                raise ExtractError("cannot bind the arguments of %s" % ev_[1][:120])
            b_ = {k_: v_ for (c_, k_), v_ in defaults.items() if c_ == cname}
            b_.update(zip(sigs[cname], args_))
            b_.update(kw_)
            return b_

        def txt_(v):
            return v.text if isinstance(v, Opaque) else v
        for li, (lp, lim) in enumerate(zip(inner, ("min", "max"))):
            pre = [s for s in outer[0].body if s.lineno < lp.lineno and isinstance(s, ast.Assign)]
            ex3 = AtomExec()
            st0 = State({"self": Opaque("self"), "tank": Opaque("tank"), "tank_name": Opaque("tank_name"), "tank_controls": []})
            for s in pre:
                ex3.stmt(s, st0)
            headname = "%s_head" % lim
            hv = st0.env.get(headname)
            want_h = ex3.sym("tank.%s_level" % lim) + ex3.sym("tank.elevation")
            chk.expect(hv is not None and is_zero(ex3.S(hv) - want_h), "R-C06-3", "%s limit threshold is %s_level + elevation (a head)" % (lim, lim), loc(tc), found=str(hv))
            itv = ex3.ev(lp.iter, st0)              # the iterable, with locals resolved; flag 'ALL' is get_links_for_node's default
            chk.expect(isinstance(itv, Opaque) and re.fullmatch(r"self\._wn\.get_links_for_node\(tank_name(, (flag=)?'ALL')?\)", itv.text) is not None, "R-C06-3", "%s limit: all links at the tank are considered" % lim, loc(tc, lp), found=str(itv))
            ex3.bind_loop_target(lp.target, st0)
            paths = ex3.block(lp.body, [st0])
            Htol = ex3.sym("self._Htol")
            closing = "Comparison.le" if lim == "min" else "Comparison.ge"
            opening = "Comparison.ge" if lim == "min" else "Comparison.le"
            skip_end = "end_node_name" if lim == "min" else "start_node_name"    # the link end that must be the tank for the skip
            ncase = 0
            for o in paths:
                if o.raised:
                    continue
                c = dict(o.conds)                 # atoms (AtomExec): the same facts whatever and/or/not/helper shape the tests have
                ispipe = c.get("isinstance(self._wn.get_link(link_name), Pipe)")
                ispump = c.get("isinstance(self._wn.get_link(link_name), Pump)")
                cv = c.get("self._wn.get_link(link_name).check_valve")
                at_skip_end = [v for t, v in o.conds if t == eq_atom("self._wn.get_link(link_name).%s" % skip_end, "tank_name")]
                kind = "pipe+cv" if (ispipe and cv) else ("pipe" if ispipe else ("pump" if ispump else "valve/other"))
                if ispipe and ispump:
                    continue                      # infeasible combination of the two isinstance tests
                skipped = any(e[0] == "continue" for e in o.events)
                want_skip = kind in ("pipe+cv", "pump") and bool(at_skip_end and at_skip_end[0])
                case = "%s limit, %s%s" % (lim, kind, (", tank is its %s" % ("end" if (at_skip_end and at_skip_end[0]) == (lim == "min") else "start")) if kind in ("pipe+cv", "pump") else "")
                ncase += 1
                chk.expect(skipped == want_skip, "R-C06-3", "%s: %s" % (case, "no control (the link cannot carry water %s the tank)" % ("out of" if lim == "min" else "into") if want_skip else "gets a closing control"), loc(tc, lp),
                           "at the %s limit exactly the links that can %s the tank must be closed" % (lim, "drain" if lim == "min" else "fill"), expected="skip=%s" % want_skip, found="skip=%s [%s]" % (skipped, o.label()[-120:]))
                if skipped:
                    continue
                vcs = [e for e in o.events if e[0] == "call" and e[1].startswith("ValueCondition(")]
                rcs = [e for e in o.events if e[0] == "call" and e[1].startswith("RelativeCondition(")]
                ctl = [e for e in o.events if e[0] == "call" and e[1].startswith("Control(")]
                acts = [e for e in o.events if e[0] == "call" and e[1].startswith("_InternalControlAction(")]
                types = [(e[1], e[2].text if isinstance(e[2], Opaque) else e[2]) for e in o.events if e[0] == "store" and e[1].endswith("._control_type")]
                has_cv = kind in ("pipe+cv", "pump")
                nctl = 1 if has_cv else 3
                chk.expect(len(ctl) == nctl and len(o.env["tank_controls"]) == nctl, "R-C06-3", "%s: %d control(s) created and collected" % (case, nctl), loc(tc, lp), found=(len(ctl), len(o.env["tank_controls"])))
                ab = [bound(a) for a in acts]
                a_ok = len(ab) == 2 and all(x.get("internal_attribute") == "_internal_status" and x.get("property_attribute") == "status" and x.get("target_obj") == Opaque("self._wn.get_link(link_name)") for x in ab) \
                    and ab[0].get("value") == Opaque("LinkStatus.Closed") and ab[1].get("value") == Opaque("LinkStatus.Open")
                chk.expect(a_ok, "R-C06-3", "%s: actions set the link's internal status (Closed / Open) and report `status`" % case, loc(tc, lp), found=[a[1] for a in acts])
                if vcs:
                    def vc_ok(ev_, rel, thr):
                        b_ = bound(ev_)
                        try:
                            return b_.get("source_obj") == Opaque("tank") and b_.get("source_attr") == "head" and txt_(b_.get("relation")) == rel and "threshold" in b_ and is_zero(ex3.S(b_["threshold"]) - thr)
                        except ExtractError:
                            return False
                    okc = vc_ok(vcs[0], closing, want_h)
                    chk.expect(okc, "R-C06-3", "%s: closing condition is tank head %s %s_level + elevation" % (case, "<=" if lim == "min" else ">=", lim), loc(tc, lp), found=vcs[0][1])
                    k0 = bound(ctl[0])
                    chk.expect(isinstance(k0.get("priority"), Opaque) and k0["priority"].text == "ControlPriority.medium" and k0.get("then_action") is not None and
                               isinstance(k0["then_action"], Opaque) and "LinkStatus.Closed" in k0["then_action"].text, "R-C06-3", "%s: closing control has medium priority and the closing action" % case, loc(tc, lp), found=ctl[0][1][:160])
                    chk.expect(bool(types) and types[0][1] == "_ControlType.pre_and_postsolve", "R-C06-3", "%s: closing control is pre- and post-solve (back-tracked to the limit)" % case, loc(tc, lp), found=types[:1])
                if not has_cv and len(vcs) == 3 and len(rcs) == 1 and len(ctl) == 3:
                    sgn = 1 if lim == "min" else -1
                    ok1 = vc_ok(vcs[1], opening, want_h + sgn * Htol)
                    chk.expect(ok1, "R-C06-3", "%s: re-opening condition 1 is tank head %s limit %s Htol" % (case, ">=" if lim == "min" else "<=", "+" if lim == "min" else "-"), loc(tc, lp), found=vcs[1][1])
                    k1 = bound(ctl[1])
                    chk.expect(txt_(k1.get("priority")) == "ControlPriority.low" and "LinkStatus.Open" in str(txt_(k1.get("then_action"))) and types[1][1] == "_ControlType.postsolve", "R-C06-3",
                               "%s: re-opening control 1 is low priority, post-solve, opening" % case, loc(tc, lp), found=ctl[1][1][:120])
                    r2 = bound(rcs[0])
                    other = r2.get("threshold_obj")
                    ok2 = r2.get("source_obj") == Opaque("tank") and r2.get("source_attr") == "head" and txt_(r2.get("relation")) == closing and r2.get("threshold_attr") == "head" and vc_ok(vcs[2], closing, want_h + sgn * Htol)
                    other_ok = isinstance(other, Opaque) and other.text in ("self._wn.get_link(link_name).end_node", "self._wn.get_link(link_name).start_node")
                    chk.expect(ok2 and other_ok, "R-C06-3", "%s: re-opening condition 2 is (tank head %s other node's head) and (tank head %s limit %s Htol)" % (case, "<=" if lim == "min" else ">=", "<=" if lim == "min" else ">=", "+" if lim == "min" else "-"),
                               loc(tc, lp), found=(rcs[0][1], vcs[2][1]))
                    k2 = bound(ctl[2])
                    chk.expect(txt_(k2.get("priority")) == "ControlPriority.high" and "LinkStatus.Open" in str(txt_(k2.get("then_action"))) and "AndCondition" in str(txt_(k2.get("condition"))) and types[2][1] == "_ControlType.postsolve", "R-C06-3",
                               "%s: re-opening control 2 is high priority, post-solve, opening, conjunction of both conditions" % case, loc(tc, lp), found=ctl[2][1][:160])
                    # the `other node` is the end opposite to the tank
                    st_is = [v for t, v in o.conds if t in (eq_atom("self._wn.get_link(link_name).start_node", "tank", "is"), eq_atom("self._wn.get_link(link_name).start_node", "tank"))]
                    if st_is:
                        wanto = "self._wn.get_link(link_name).end_node" if st_is[0] else "self._wn.get_link(link_name).start_node"
                        chk.expect(txt_(other) == wanto, "R-C06-3", "%s: the comparison node is the link's other end [tank is start=%s]" % (case, st_is[0]), loc(tc, lp), found=txt_(other))
                elif not has_cv:
                    chk.bad("R-C06-3", "%s: two re-opening controls are created for links without a check valve" % case, loc(tc, lp), found=(len(vcs), len(rcs), len(ctl)))
            chk.expect(ncase >= 6, "R-C06-3", "%s limit: all link kinds/orientations enumerated" % lim, loc(tc, lp), found=ncase)
        chk.floor("R-C06-3", 50)

    # ---------------------------------------------------------------- R-C06-4 partial step at the limit
    with chk.part("R-C06-4 partial step at the limit"):
        tl = repo.func(CTRL, "TankLevelCondition.evaluate")
        chk.fn(tl)
        # the whole method is executed symbolically (path conditions as atoms); every fact below is read off the paths, not off the text:
        #   state      = the value returned: relation R applied to (current value, threshold)   [np.round is transparent]
        #   partial    = the last value stored into self._backtrack on the path
        # so locals, aliases of self._source_obj, hoisted sub-expressions, early returns / extracted helpers (inlined by E0) do not matter
        SRC = "self._source_obj"

        def hook4(name, node, args, kwargs, st, ex, recv):
            last = (name or "").split(".")[-1]
            if name in ("np.round", "numpy.round", "np.around", "numpy.around", "round") and args:
                return args[0]
            if last == "get_volume" and len(args) == 1 and not kwargs and isinstance(recv, Opaque):
                return sp.Function("V")(ex.sym(recv.text), ex.S(args[0]))
            return NotImplemented

        def enum_hook(txt, node, st):
            m = re.fullmatch(r"Comparison\.(\w+) (?:is|==) Comparison\.(\w+)", txt)     # two members of the Comparison enum
            return (m.group(1) == m.group(2)) if m else None
        ex4 = AtomExec(call_hook=hook4, test_hook=enum_hook)
        outs4 = ex4.run(tl)
        Dm, dm, elev = (ex4.sym(SRC + x) for x in (".diameter", ".demand", ".elevation"))
        V = sp.Function("V")
        srcsym = ex4.sym(SRC)

        def fact(c, a, b):
            for sym_ in ("is", "=="):
                if eq_atom(a, b, sym_) in c:
                    return c[eq_atom(a, b, sym_)]
            return None

        def unfloor(v):
            """int(floor(x)) / floor(x) -> x (None when the value is not rounded down to whole seconds)"""
            try:
                v = ex4.S(v)
            except ExtractError:
                return None
            if isinstance(v, sp.Function) and v.func.__name__ == "int" and len(v.args) == 1:
                v = v.args[0]
            return v.args[0] if isinstance(v, sp.floor) else None
        cyl_n, cyl_bad, cur_n, cur_bad = 0, [], {"head": 0, "level": 0}, []
        remap, remap_bad, last_bad, guard_bad, n_partial, n_ret = {}, [], [], [], 0, 0
        for o in outs4:
            if o.raised:
                continue
            n_ret += 1
            info = ex4.applied.get(o.ret.text) if isinstance(o.ret, Opaque) else None
            if info is None or len(info[1]) != 2:
                raise ExtractError("TankLevelCondition.evaluate: the returned state is not `relation(current value, threshold)`: %r" % (o.ret,))
            R, (a, b) = info
            cur, thr = ex4.S(a), ex4.S(b)
            c = dict(o.conds)
            # strict relations are made inclusive
            nan = any(v and "isnan(" in t for t, v in o.conds)
            for strict, incl in (("gt", "ge"), ("lt", "le")):
                if fact(c, "self._relation", "Comparison." + strict) and not (nan and R == "np.greater"):   # (a NaN threshold replaces the relation altogether)
                    remap.setdefault(strict, set()).add(R)
            # the crossing detector's last value
            lst = [e for e in o.events if e[0] == "store" and e[1] == "self._last_value"]
            if not (lst and ex4.same(lst[-1][2], a)):
                last_bad.append(o.label()[-160:])
            bts = [e for e in o.events if e[0] == "store" and e[1] == "self._backtrack"]
            final = bts[-1][2] if bts else None
            if final is None or (isinstance(final, (int, float, sp.Basic)) and final == 0):
                continue
            # ---- a partial step is computed on this path
            n_partial += 1
            crossed = [t for t, v in o.conds if not v and t in ex4.applied and ex4.applied[t][0] == R and len(ex4.applied[t][1]) == 2
                       and ex4.same(ex4.applied[t][1][1], b) and not ex4.same(ex4.applied[t][1][0], a)]
            if not (c.get(o.ret.text) is True and crossed):
                guard_bad.append(o.label()[-200:])
            inner = unfloor(final)
            vc = fact(c, SRC + ".vol_curve", "None")
            if vc is True:
                cyl_n += 1
                want = (cur - thr) * sp.pi / 4 * Dm ** 2 / dm
                if inner is None or not is_zero(inner - want):
                    cyl_bad.append(str(final))
            elif vc is False:
                which = "head" if fact(c, "self._source_attr", "'head'") else ("level" if fact(c, "self._source_attr", "'level'") else None)
                if which is None:
                    cur_bad.append("source attribute undetermined: %s" % final)
                    continue
                cur_n[which] += 1
                off = elev if which == "head" else 0            # a head is converted to a level before the curve is read
                want = (V(srcsym, cur - off) - V(srcsym, thr - off)) / dm
                if inner is None or not is_zero(inner - want):
                    cur_bad.append("[%s] %s" % (which, final))
            else:
                cyl_bad.append("geometry undetermined on path %s" % o.label()[-120:])
        if not n_ret:
            raise ExtractError("TankLevelCondition.evaluate: no returning path")
        if os.environ.get("VERIF_DEBUG_C06"):
            print("R-C06-4 paths=%d returning=%d partial=%d cyl=%d curve=%s remap=%s" % (len(outs4), n_ret, n_partial, cyl_n, cur_n, remap))
        chk.expect(cyl_n >= 1 and not cyl_bad, "R-C06-4", "tank-level crossing: partial step = floor((level - threshold) * pi/4 * D^2 / net inflow) seconds", loc(tl),
                   expected="int(floor((cur - thresh) * pi/4 * D**2 / demand)) on every cylindrical-tank path", found=cyl_bad[:2] or "no such path")
        chk.expect(cur_n["head"] >= 1 and cur_n["level"] >= 1 and not cur_bad, "R-C06-4", "tank-level crossing with a volume curve: partial step = floor((V(level) - V(threshold)) / net inflow)", loc(tl),
                   expected="int(floor((get_volume(level) - get_volume(threshold level)) / demand)) for head and level conditions", found=cur_bad[:2] or cur_n)
        remap_txt = {k: "|".join(sorted(v)) for k, v in remap.items()}
        chk.expect(remap_txt == {"gt": "Comparison.ge", "lt": "Comparison.le"}, "R-C06-4", "strict tank-level relations are treated as inclusive (a level exactly at the limit triggers)", loc(tl), found=remap_txt)
        chk.expect(not last_bad, "R-C06-4", "the crossing detector's last value is updated on every evaluation (top-level statement)", loc(tl), found=last_bad[:2])
        # crossing guard: `state and not relation(<value at the last accepted step>, threshold)`; which variable carries that value is C05's R-C05-6
        chk.expect(n_partial >= 1 and not guard_bad, "R-C06-4", "a partial step is computed only when the condition became true since the last accepted step (so (level - threshold)/inflow >= 0)", loc(tl),
                   found=guard_bad[:2] or "no path computes a partial step")


    # ================================================================ rules added after the defect hunt (hunted/C06)
    # ---------------------------------------------------------------- R-C06-1b "starting from init_level": both quantities the starting head is made of refresh it
    with chk.part("R-C06-1b 'starting from init_level': both quantities the starting head is made of refresh "):
        # (T2: each setter is executed symbolically; on every returning path the LAST value stored into self._head must be elevation + init_level with the
        #  quantity being set taken at its NEW value -- read through the property, the backing field or the setter's parameter alike)
        tk = repo.cls(ELEM, "Tank")
        setters = {n.name: n for n in tk.body if isinstance(n, ast.FunctionDef) and any(isinstance(d, ast.Attribute) and d.attr == "setter" for d in n.decorator_list)}
        ini_ = [n for n in tk.body if isinstance(n, ast.FunctionDef) and n.name == "__init__"][0]
        head0 = [a for a in walk(ini_) if isinstance(a, ast.Assign) and unparse(a.targets[0]) == "self._head"]
        if not head0:
            raise ExtractError("Tank.__init__: initial head not found")
        reads = {x.attr.lstrip("_") for x in ast.walk(head0[0].value) if isinstance(x, ast.Attribute)}
        parts = sorted(reads & {"elevation", "init_level"})
        if parts != ["elevation", "init_level"]:
            raise ExtractError("Tank.__init__: the starting head is no longer made of elevation and init_level (%s)" % sorted(reads))
        for q in parts:
            st = setters.get(q)
            if st is None:
                chk.bad("R-C06-1b", "Tank.%s setter refreshes the starting head (head = elevation + init_level)" % q, ELEM, found="no setter")
                continue
            chk.fn(st)
            exs = SymExec()
            okq, found_q, npaths = True, [], 0
            for o in exs.run(st):
                if o.raised:
                    continue
                npaths += 1
                hs = [e for e in o.events if e[0] == "store" and e[1] == "self._head"]
                newq = [e[2] for e in o.events if e[0] == "store" and e[1] == "self._" + q]
                found_q.append([str(e[2]) for e in hs] or "no assignment of _head")
                if not hs or not newq:
                    okq = False
                    continue
                try:
                    val = pub(exs, hs[-1][2])
                    newv = exs.S(newq[-1])
                except ExtractError:
                    okq = False
                    continue
                # the quantity being set counts at its new value: replace its symbol (property / backing field spelling) by the value stored
                val = val.subs(exs.sym("self." + q), newv)
                other = [x for x in parts if x != q][0]
                okq = okq and is_zero(val - (newv + exs.sym("self." + other)))
            chk.expect(okq and npaths >= 1, "R-C06-1b", "Tank.%s setter refreshes the starting head (head = elevation + init_level)" % q, loc(ELEM, st),
                       "the tank's head at the start of a simulation is elevation + init_level; a setter that leaves _head alone (or stores something else) makes the run start from a different level than init_level",
                       expected="self._head = elevation + init_level with the new %s" % q, found=found_q)
        chk.floor("R-C06-1b", 2)

    # ---------------------------------------------------------------- R-C06-1c the volume curve used is the tank's CURRENT curve
    with chk.part("R-C06-1c the volume curve used is the tank's CURRENT curve"):
        # (T2: the axes handed to every interpolation are taken from the symbolic execution, i.e. with all locals resolved to what they were computed from; each axis
        #  must be computed, inside the function, from `<tank>.vol_curve.points` (Curve.points has a setter: the points of an assigned curve can be replaced).  An axis that
        #  comes from a method of Tank is accepted when that method reads the points itself or memoises under a guard that compares them; anything else -- an attribute
        #  cached on the tank, a module-level table -- is a stale-curve hazard.)
        def interp_axes(fn, stores):
            exa = AtomExec(call_hook=interp_hook)
            axes = set()
            for o in exa.run(fn):
                if o.raised:
                    continue
                vals = [e[2] for e in o.events if e[0] == "store" and e[1] in stores] + ([o.ret] if o.ret is not None else [])
                for v in vals:
                    try:
                        v = exa.S(v)
                    except ExtractError:
                        continue
                    for at in (v.atoms(sp.Function) if isinstance(v, sp.Basic) else ()):
                        if at.func.__name__ == "interp":
                            axes.update(str(x) for x in at.args[1:])
            return sorted(axes)

        def axis_verdict(txt, owner_cls):
            if re.search(r"vol_curve(_name\])?\.points", txt):
                return None
            m = re.search(r"(?:self|tank)\.(\w+)\(", txt)
            if m:
                meth = [n for n in owner_cls.body if isinstance(n, ast.FunctionDef) and n.name == m.group(1)]
                if meth:
                    body_txt = unparse(meth[0])
                    tests = [unparse(n.test) for n in walk(meth[0]) if isinstance(n, ast.If)]
                    if ".points" in body_txt and (not tests or any(".points" in t for t in tests)):
                        return None
                    return "%s() memoises the curve array without comparing the curve's points (%s)" % (m.group(1), "; ".join(tests)[:120])
            return "axis `%s` is not computed from the curve's points at the time of use" % txt[:100]
        for fn_, label, stores_ in ((repo.func(HYD, "update_tank_heads"), "update_tank_heads", ("tank._head",)), (repo.func(ELEM, "Tank.get_volume"), "Tank.get_volume", ())):
            axes_ = interp_axes(fn_, stores_)
            bad_ = [b_ for b_ in (axis_verdict(t, tk) for t in axes_) if b_] if axes_ else ["no interpolation on the volume curve found"]
            chk.expect(not bad_, "R-C06-1c", "%s reads the points of the tank's volume curve at the time of use" % label, loc(fn_),
                       "the points of an assigned curve can be replaced in place (curve.points = [...]); an array cached when the curve was first used makes later runs integrate through the old curve",
                       expected="every interpolation axis computed from <tank>.vol_curve.points (or a memo keyed by the points)", found=bad_ or axes_)
        chk.floor("R-C06-1c", 2)

    # ---------------------------------------------------------------- R-C06-3b the closure the tank controls command is effective for every link kind they act on
    with chk.part("R-C06-3b the closure the tank controls command is effective for every link kind they act o"):
        # the closing controls write _internal_status = Closed; a link's effective status must then be Closed whatever the user status is
        from .c02 import status_table
        for cname in ("Pipe", "Pump", "Valve"):
            tab = status_table(repo, cname)
            bad_ = sorted(u for (u, i_), v in tab.items() if i_ == "Closed" and v != "Closed")
            chk.expect(not bad_, "R-C06-3b", "%s.status is Closed whenever the tank-limit controls set _internal_status = Closed" % cname, loc(ELEM, repo.cls(ELEM, cname)),
                       "_get_all_tank_controls closes links through _internal_status; %s.status ignores it for user status %s: such a link next to a tank keeps filling / draining it past its limits" % (cname, bad_),
                       expected="Closed", found={u: tab[(u, "Closed")] for u in bad_})

    # ---------------------------------------------------------------- R-C06-3c a link between two tanks: re-opening looks at the other tank's limit too
    with chk.part("R-C06-3c a link between two tanks: re-opening looks at the other tank's limit too"):
        # (text match: the substring 'isinstance(other_node, Tank)' in the unparsed function; what the test is used for is not analysed)
        gat = repo.func(CORE, "WNTRSimulator._get_all_tank_controls")
        txt_ = unparse(gat)
        looks_at_other_tank = "isinstance(other_node, Tank)" in txt_ or "isinstance(other_node, wntr.network.Tank)" in txt_
        chk.expect(looks_at_other_tank, "R-C06-3c", "the re-opening control of a link at a full / empty tank checks the limit of the tank at its other end", loc(gat),
                   "open_control_2 (priority high) re-opens the link when this tank's head allows flow towards the other node, without asking whether the other node is a tank at its own "
                   "limit; it out-ranks that tank's closing control (priority medium), so a pipe between two full tanks keeps filling one of them", expected="a condition on other_node when it is a Tank",
                   found="other_node is used only through its head")

    # ---------------------------------------------------------------- R-C06-3d pumps are skipped by the tank controls because they cannot run backwards -- they must not
    with chk.part("R-C06-3d pumps are skipped by the tank controls because they cannot run backwards -- they "):
        # (T3, bounded: the shut-off condition object is built by its own constructor on mock nodes / pump (c02.condition_value) and evaluated by the in-house interpreter
        #  for a pump that carries reverse flow although the head difference is BELOW its shut-off head: a tank draining backwards through its fill pump)
        from .c02 import condition_value, QTOL_SI
        for cname in ("_CloseHeadPumpCondition",):      # power pumps: the constant-power relation admits no reverse-flow solution (checked by experiment), not claimed
            ev_fn = repo.func(CTRL, cname + ".evaluate")
            chk.fn(ev_fn)
            for heads, flow in (((10.0, 30.0), -1e-3), ((25.0, 20.0), -5e-2), ((0.0, 49.0), -10 * QTOL_SI)):
                got, err = condition_value(repo, cname, heads, flow, internal="Open", shutoff=50.0)
                chk.expect(err is None and got is True, "R-C06-3d", "%s closes a pump that carries reverse flow [heads %s -> %s, shut-off 50, flow %g]" % (cname, heads[0], heads[1], flow), loc(ev_fn),
                           "pumps that end (start) at a tank get no min-level (max-level) closing control 'because pumps have check valves', but a closing condition that only "
                           "compares the head difference with the shut-off head never fires for q < 0 (the pump curve is flat at the shut-off head there) and the tank drains backwards "
                           "through the open pump below its minimum level", expected="True (as _CloseCVCondition)", found=err or repr(got))
        chk.floor("R-C06-3d", 3)

    # ---------------------------------------------------------------- R-C06-5 volume curves are not silently clamped at their ends
    with chk.part("R-C06-5 volume curves are not silently clamped at their ends"):
        # (presence match: passes if any call ending in 'interp' carries a left= / right= keyword, or if there is no such call)
        uth = repo.func(HYD, "update_tank_heads")
        interp_calls = [c for c in calls(uth) if (call_name(c) or "").endswith("interp")]
        extended = any(k.arg in ("left", "right") for c in interp_calls for k in c.keywords) or not interp_calls
        chk.expect(extended, "R-C06-5", "the level <-> volume conversion of a volume-curve tank is extended beyond the ends of the curve", loc(uth),
                   "np.interp clamps outside the tabulated range: when the trial volume leaves the curve the level stops at the curve's end, the partial step is computed from the clamped "
                   "level (back-track 0) and the stored volume no longer changes by net inflow x dt (88.96 m3 lost in one step in hunted/C06/defect_1.py)",
                   expected="extrapolation (or a refusal) outside the curve", found="%d plain np.interp call(s)" % len(interp_calls))

WITNESSES = [
    dict(name="tank-source-head-refreshed-from-the-elevation", file="wntr/sim/models/param.py", old="            m.source_head[node_name].value = node.head\n", new="            m.source_head[node_name].value = node.elevation\n", rule="R-C06-2"),
    dict(name="tank-source-head-through-a-generator-helper-preserving", file="wntr/sim/models/param.py",
         old="        for node_name, node in wn.tanks():\n            m.source_head[node_name].value = node.head\n",
         new="        for tank_name, head in _tank_heads(wn):\n            m.source_head[tank_name].value = head\n",
         also=[("def expected_demand_param(m, wn):\n", "def _tank_heads(wn):\n    for name, tank in wn.tanks():\n        yield name, tank.head\n\n\ndef expected_demand_param(m, wn):\n")], silent=True),
    dict(name="elevation-setter-leaves-head", file=ELEM, old="        self._head = self._elevation + self._init_level  # like the init_level setter: the tank starts at init_level\n", new="", rule="R-C06-1b"),
    dict(name="elevation-setter-stores-elevation-only", file=ELEM, old="        self._head = self._elevation + self._init_level  # like the init_level setter: the tank starts at init_level\n", new="        self._head = self._elevation\n", rule="R-C06-1b"),
    dict(name="quiet-elevation-setter-uses-value-and-property", file=ELEM, silent=True, old="        self._head = self._elevation + self._init_level  # like the init_level setter: the tank starts at init_level\n", new="        self._head = self.init_level + value\n"),
    dict(name="head-pump-reverse-flow-needs-adverse-head", file=CTRL, old="        if self._pump.flow is not None and self._pump.flow < -2.83168e-6:\n            return True\n", new="        if self._pump.flow is not None and self._pump.flow < -2.83168e-6 and dh > 0:\n            return True\n", rule="R-C06-3d"),
    dict(name="integration-through-cached-curve-array", file=HYD, old="            vcurve = np.array(tank.vol_curve.points)\n", new="            vcurve = tank._vol_curve_cache\n", rule="R-C06-1c"),
    dict(name="get-volume-through-cached-curve-array", file=ELEM, old="            arr = np.array(self.vol_curve.points)\n", new="            arr = self._vol_curve_cache\n", rule="R-C06-1c"),
    dict(name="quiet-curve-array-other-local-names", file=HYD, silent=True, old="            vcurve = np.array(tank.vol_curve.points)\n            level_x = vcurve[:,0]\n            volume_y = vcurve[:,1]\n",
         new="            table = np.array(tank.vol_curve.points)\n            level_x, volume_y = table[:,0], table[:,1]\n"),
    dict(name="pipe-ignores-internal-closure", file=ELEM, old="        if self._internal_status == LinkStatus.Closed:\n            return LinkStatus.Closed\n        else:\n            return self._user_status\n\n    @property\n    def friction_factor",
         new="        return self._user_status\n\n    @property\n    def friction_factor", rule="R-C06-3b"),
    dict(name="area-2", file=HYD, old="            delta_h = 4.0 * dV / (math.pi * tank.diameter ** 2)", new="            delta_h = 2.0 * dV / (math.pi * tank.diameter ** 2)", rule="R-C06-1"),
    dict(name="diameter-not-squared", file=HYD, old="(math.pi * tank.diameter ** 2)", new="(math.pi * tank.diameter)", rule="R-C06-1"),
    dict(name="dt-wrong-clock", file=HYD, old="    dt = wn.sim_time - wn._prev_sim_time   ", new="    dt = wn.options.time.hydraulic_timestep", rule="R-C06-1"),
    dict(name="step-sign", file=HYD, old="        tank._head = tank._prev_head + delta_h", new="        tank._head = tank._prev_head - delta_h", rule="R-C06-1"),
    dict(name="curve-reference-level", file=HYD, old="            if tank.head == tank._prev_head:\n                cur_level = tank.level\n            else:\n                cur_level = tank._prev_head - (tank.head - tank.level)", new="            cur_level = tank.level", rule="R-C06-1"),
    dict(name="curve-axes", file=HYD, old="            level_new = np.interp(V1,volume_y,level_x)", new="            level_new = np.interp(V1,level_x,volume_y)", rule="R-C06-1"),
    dict(name="prev-head-not-stored", file=HYD, old="    for tank_name, tank in wn.tanks():\n        tank._prev_head = tank.head\n", new="", rule="R-C06-2"),
    dict(name="min-uses-max-level", file=CORE, old="            min_head = tank.min_level + tank.elevation", new="            min_head = tank.max_level + tank.elevation", rule="R-C06-3"),
    dict(name="min-close-ge", file=CORE, old="                close_condition = ValueCondition(tank, 'head', Comparison.le, min_head)", new="                close_condition = ValueCondition(tank, 'head', Comparison.ge, min_head)", rule="R-C06-3"),
    dict(name="elevation-omitted", file=CORE, old="            max_head = tank.max_level + tank.elevation", new="            max_head = tank.max_level", rule="R-C06-3"),
    dict(name="skip-wrong-orientation", file=CORE, old="                elif isinstance(link, Pump):\n                    if link.end_node_name == tank_name:\n                        continue", new="                elif isinstance(link, Pump):\n                    if link.start_node_name == tank_name:\n                        continue", rule="R-C06-3"),
    dict(name="backtrack-area", file=CTRL, old="                             *math.pi/4.0*self._source_obj.diameter**2", new="                             *math.pi/2.0*self._source_obj.diameter**2", rule="R-C06-4"),
    dict(name="backtrack-sign", file=CTRL, old="self._backtrack = int(math.floor((cur_value - thresh_value)", new="self._backtrack = int(math.floor((thresh_value - cur_value)", rule="R-C06-4"),
    dict(name="backtrack-not-floored", file=CTRL, old="self._backtrack = int(math.floor((cur_value - thresh_value)", new="self._backtrack = int(math.ceil((cur_value - thresh_value)", rule="R-C06-4"),
    dict(name="backtrack-curve-head-as-level", file=CTRL, old="                        level = cur_value - self._source_obj.elevation\n", new="                        level = cur_value\n", rule="R-C06-4"),
    dict(name="backtrack-curve-threshold-volume", file=CTRL, old="thresh_volume = self._source_obj.get_volume(thresh_level)", new="thresh_volume = self._source_obj.get_volume(thresh_value)", rule="R-C06-4"),
    dict(name="strict-relation-kept", file=CTRL, old="        if relation is Comparison.lt:\n            relation = Comparison.le\n        if np.isnan(self._threshold):  # what", new="        if np.isnan(self._threshold):  # what", rule="R-C06-4"),
    dict(name="last-value-only-on-crossing", file=CTRL, old="                                                      / self._source_obj.demand))\n        self._last_value = cur_value  # update the last value\n",
         new="                                                      / self._source_obj.demand))\n            self._last_value = cur_value  # update the last value\n", rule="R-C06-4"),
    dict(name="partial-step-without-crossing", file=CTRL, old="        if state and not relation(np.round(last_value,10), np.round(thresh_value,10)):\n", new="        if state:\n", rule="R-C06-4"),
    dict(name="partial-step-crossing-of-other-threshold", file=CTRL, old="        if state and not relation(np.round(last_value,10), np.round(thresh_value,10)):\n", new="        if state and not relation(np.round(last_value,10), 0.0):\n", rule="R-C06-4"),
    dict(name="level-without-elevation", file=ELEM, old="        return self.head - self.elevation\n", new="        return self.head\n", rule="R-C06-1"),
    dict(name="init-level-setter-drops-elevation", file=ELEM, old="        self._head = self.elevation+self._init_level\n", new="        self._head = self._init_level\n", rule="R-C06-1"),
    dict(name="only-outlet-links", file=CORE, old="all_links = self._wn.get_links_for_node(tank_name, 'ALL')", new="all_links = self._wn.get_links_for_node(tank_name, 'OUTLET')", rule="R-C06-3"),
    dict(name="tank-heads-not-always-recomputed", file=CORE, old="            if not first_step and not resolve:\n", new="            if not first_step and not resolve and trial > 0:\n", rule="R-C06-2"),
    # ---- behaviour-preserving variants (must stay quiet): the shapes of ref_C05_r1, ref_C06_r2, ref_C06_r3
    dict(name="quiet-recompute-guard-nested-eq-false", file=CORE, silent=True, old="            if not first_step and not resolve:\n                wntr.sim.hydraulics.update_tank_heads(self._wn)\n",
         new="            if resolve == False:\n                if not first_step:\n                    wntr.sim.hydraulics.update_tank_heads(self._wn)\n"),
    dict(name="quiet-euler-step-renamed-locals", file=HYD, silent=True, old="    dt = wn.sim_time - wn._prev_sim_time   \n", new="    elapsed = wn.sim_time - wn._prev_sim_time\n",
         also=[("        dV = q_net * dt\n", "        dV = elapsed * q_net\n"), ("            if tank.head == tank._prev_head:\n", "            if tank._prev_head == tank.head:\n")]),
    dict(name="quiet-init-level-setter-uses-value", file=ELEM, silent=True, old="        self._head = self.elevation+self._init_level\n", new="        self._head = value + self._elevation\n"),
    dict(name="quiet-all-links-inlined", file=CORE, silent=True, old="            for link_name in all_links:\n                link = self._wn.get_link(link_name)\n                link_has_cv = False  # flow leaving",
         new="            for link_name in self._wn.get_links_for_node(tank_name):\n                link = self._wn.get_link(link_name)\n                link_has_cv = False  # flow leaving"),
    # ---- round 2: the shapes of ref2_C05_r1 (look-up table, flipped geometry test, guard + head/else) and ref2_C05_r3 (flat one-way predicate with an
    #      early continue, keyword / default constructor arguments, reopening head computed once)
    dict(name="quiet-strict-relation-lookup-table", file=CTRL, silent=True, old='        relation = self._relation\n        if relation is Comparison.gt:\n            relation = Comparison.ge\n        if relation is Comparison.lt:\n            relation = Comparison.le\n',
         new="        relation = self._INCLUSIVE_RELATION.get(self._relation, self._relation)\n",
         also=[('    def evaluate(self):\n        self._backtrack = 0  # no backtracking', "    _INCLUSIVE_RELATION = {Comparison.gt: Comparison.ge, Comparison.lt: Comparison.le}\n\n" + '    def evaluate(self):\n        self._backtrack = 0  # no backtracking')]),
    dict(name="quiet-strict-relation-subscript-table", file=CTRL, silent=True, old='        relation = self._relation\n        if relation is Comparison.gt:\n            relation = Comparison.ge\n        if relation is Comparison.lt:\n            relation = Comparison.le\n',
         new="        relation = {Comparison.gt: Comparison.ge, Comparison.lt: Comparison.le, Comparison.ge: Comparison.ge, Comparison.le: Comparison.le,\n"
             "                    Comparison.eq: Comparison.eq, Comparison.ne: Comparison.ne}[self._relation]\n"),
    dict(name="lookup-table-keeps-lt-strict", file=CTRL, rule="R-C06-4", old='        relation = self._relation\n        if relation is Comparison.gt:\n            relation = Comparison.ge\n        if relation is Comparison.lt:\n            relation = Comparison.le\n',
         new="        relation = {Comparison.gt: Comparison.ge, Comparison.lt: Comparison.lt}.get(self._relation, self._relation)\n"),
    dict(name="quiet-geometry-test-flipped-guarded-chain", file=CTRL, silent=True, old='                if self._source_obj.vol_curve is None:\n                    self._backtrack = int(math.floor((cur_value - thresh_value)\n                             *math.pi/4.0*self._source_obj.diameter**2\n                             /self._source_obj.demand))\n                else: # a volume curve must be used instead\n                    if self._source_attr == \'head\':\n                        thresh_level = thresh_value - self._source_obj.elevation\n                        level = cur_value - self._source_obj.elevation\n                    elif self._source_attr == \'level\':\n                        thresh_level = thresh_value\n                        level = cur_value\n                    else:\n                        raise NotImplementedError("Pressure tank value conditions with a " + \n                                                     "volume curve have not been implemented.")\n                    \n                    cur_value_volume = self._source_obj.get_volume(level)\n                    thresh_volume = self._source_obj.get_volume(thresh_level)\n                    \n                    self._backtrack = int(math.floor((cur_value_volume \n                                                      - thresh_volume) \n                                                      / self._source_obj.demand))\n',
         new='                tank = self._source_obj\n                demand = tank.demand\n                if tank.vol_curve is not None:  # a volume curve must be used\n                    if self._source_attr not in (\'head\', \'level\'):\n                        raise NotImplementedError("Pressure tank value conditions with a volume curve have not been implemented.")\n                    if self._source_attr == \'head\':\n                        thresh_level = thresh_value - tank.elevation\n                        level = cur_value - tank.elevation\n                    else:  # level\n                        thresh_level = thresh_value\n                        level = cur_value\n                    self._backtrack = int(math.floor((tank.get_volume(level) - tank.get_volume(thresh_level)) / demand))\n                else:  # cylindrical tank\n                    self._backtrack = int(math.floor((cur_value - thresh_value)*math.pi/4.0*tank.diameter**2/demand))\n'),
    dict(name="flipped-geometry-level-branch-takes-head", file=CTRL, rule="R-C06-4", old='                if self._source_obj.vol_curve is None:\n                    self._backtrack = int(math.floor((cur_value - thresh_value)\n                             *math.pi/4.0*self._source_obj.diameter**2\n                             /self._source_obj.demand))\n                else: # a volume curve must be used instead\n                    if self._source_attr == \'head\':\n                        thresh_level = thresh_value - self._source_obj.elevation\n                        level = cur_value - self._source_obj.elevation\n                    elif self._source_attr == \'level\':\n                        thresh_level = thresh_value\n                        level = cur_value\n                    else:\n                        raise NotImplementedError("Pressure tank value conditions with a " + \n                                                     "volume curve have not been implemented.")\n                    \n                    cur_value_volume = self._source_obj.get_volume(level)\n                    thresh_volume = self._source_obj.get_volume(thresh_level)\n                    \n                    self._backtrack = int(math.floor((cur_value_volume \n                                                      - thresh_volume) \n                                                      / self._source_obj.demand))\n',
         new='                tank = self._source_obj\n                demand = tank.demand\n                if tank.vol_curve is not None:  # a volume curve must be used\n                    if self._source_attr not in (\'head\', \'level\'):\n                        raise NotImplementedError("Pressure tank value conditions with a volume curve have not been implemented.")\n                    if self._source_attr == \'head\':\n                        thresh_level = thresh_value - tank.elevation\n                        level = cur_value - tank.elevation\n                    else:  # level\n                        thresh_level = thresh_value - tank.elevation\n                        level = cur_value - tank.elevation\n                    self._backtrack = int(math.floor((tank.get_volume(level) - tank.get_volume(thresh_level)) / demand))\n                else:  # cylindrical tank\n                    self._backtrack = int(math.floor((cur_value - thresh_value)*math.pi/4.0*tank.diameter**2/demand))\n'),
    dict(name="quiet-flat-one-way-keyword-ctors", file=CORE, silent=True, old="                link_has_cv = False  # flow leaving the tank (start node = tank)\n                if isinstance(link, Pipe):\n                    if link.check_valve:\n                        if link.end_node_name == tank_name:\n                            continue\n                        else:\n                            link_has_cv = True\n                elif isinstance(link, Pump):\n                    if link.end_node_name == tank_name:\n                        continue\n                    else:\n                        link_has_cv = True\n\n                close_control_action = _InternalControlAction(link, '_internal_status', LinkStatus.Closed, 'status')\n                open_control_action = _InternalControlAction(link, '_internal_status', LinkStatus.Open, 'status')\n\n",
         new="                one_way = isinstance(link, Pump) or (isinstance(link, Pipe) and link.check_valve)\n                if one_way and link.end_node_name == tank_name:\n                    continue  # can only fill the tank\n                link_has_cv = bool(one_way)\n\n                close_control_action = _InternalControlAction(target_obj=link, internal_attribute='_internal_status',\n                                                              value=LinkStatus.Closed, property_attribute='status')\n                open_control_action = _InternalControlAction(property_attribute='status', target_obj=link, internal_attribute='_internal_status',\n                                                             value=LinkStatus.Open)\n\n",
         also=[("                close_condition = ValueCondition(tank, 'head', Comparison.le, min_head)\n                close_control_1 = Control(condition=close_condition, then_action=close_control_action,\n                                          priority=ControlPriority.medium)\n", "                close_condition = ValueCondition(source_obj=tank, source_attr='head', relation=Comparison.le,\n                                                 threshold=min_head)\n                close_control_1 = Control(close_condition, close_control_action)\n"), ('            min_head = tank.min_level + tank.elevation\n', '            min_head = tank.min_level + tank.elevation\n            min_head_reopen = min_head + self._Htol\n'), ("open_condition_1 = ValueCondition(tank, 'head', Comparison.ge, min_head + self._Htol)", "open_condition_1 = ValueCondition(tank, 'head', threshold=min_head_reopen, relation=Comparison.ge)"), ("open_condition_2a = RelativeCondition(tank, 'head', Comparison.le, other_node, 'head')", "open_condition_2a = RelativeCondition(source_obj=tank, source_attr='head', relation=Comparison.le,\n                                                          threshold_obj=other_node, threshold_attr='head')"), ("open_condition_2b = ValueCondition(tank, 'head', Comparison.le, min_head + self._Htol)", "open_condition_2b = ValueCondition(source_obj=tank, source_attr='head', relation=Comparison.le, threshold=min_head_reopen)"), ('                    open_control_2 = Control(condition=open_condition_2, then_action=open_control_action,\n                                             priority=ControlPriority.high)\n                    open_control_2._control_type = _ControlType.postsolve\n                    tank_controls.append(open_control_2)\n\n            # Now take care', '                    open_control_2 = Control(open_condition_2, open_control_action, ControlPriority.high)\n                    open_control_2._control_type = _ControlType.postsolve\n                    tank_controls.append(open_control_2)\n\n            # Now take care')]),
    dict(name="keyword-close-condition-wrong-relation", file=CORE, rule="R-C06-3", old="close_condition = ValueCondition(tank, 'head', Comparison.le, min_head)",
         new="close_condition = ValueCondition(threshold=min_head, source_obj=tank, source_attr='head', relation=Comparison.ge)"),
    dict(name="keyword-action-wrong-attribute", file=CORE, rule="R-C06-3", old="                link_has_cv = False  # flow leaving the tank (start node = tank)\n                if isinstance(link, Pipe):\n                    if link.check_valve:\n                        if link.end_node_name == tank_name:\n                            continue\n                        else:\n                            link_has_cv = True\n                elif isinstance(link, Pump):\n                    if link.end_node_name == tank_name:\n                        continue\n                    else:\n                        link_has_cv = True\n\n                close_control_action = _InternalControlAction(link, '_internal_status', LinkStatus.Closed, 'status')\n                open_control_action = _InternalControlAction(link, '_internal_status', LinkStatus.Open, 'status')\n\n",
         new="                one_way = isinstance(link, Pump) or (isinstance(link, Pipe) and link.check_valve)\n                if one_way and link.end_node_name == tank_name:\n                    continue  # can only fill the tank\n                link_has_cv = bool(one_way)\n\n                close_control_action = _InternalControlAction(target_obj=link, internal_attribute='status',\n                                                              value=LinkStatus.Closed, property_attribute='_internal_status')\n                open_control_action = _InternalControlAction(property_attribute='status', target_obj=link, internal_attribute='_internal_status',\n                                                             value=LinkStatus.Open)\n\n"),
    dict(name="quiet-tank-alias-hoisted-area", file=CTRL, silent=True,
         old="                if self._source_obj.vol_curve is None:\n                    self._backtrack = int(math.floor((cur_value - thresh_value)\n                             *math.pi/4.0*self._source_obj.diameter**2\n                             /self._source_obj.demand))\n",
         new="                tank = self._source_obj\n                if tank.vol_curve is None:\n                    area = math.pi/4.0*tank.diameter**2\n                    overshoot = cur_value - thresh_value\n"
             "                    seconds = overshoot*area/tank.demand\n                    self._backtrack = int(math.floor(seconds))\n"),
    dict(name="quiet-crossing-guard-hoisted", file=CTRL, silent=True, old="        if state and not relation(np.round(last_value,10), np.round(thresh_value,10)):\n",
         new="        rounded_thresh = np.round(thresh_value,10)\n        was_true = relation(np.round(last_value,10), rounded_thresh)\n        crossed = state and not was_true\n        if crossed:\n"),
    dict(name="quiet-crossing-guard-eq-false", file=CTRL, silent=True, old="        if state and not relation(np.round(last_value,10), np.round(thresh_value,10)):\n",
         new="        if relation(np.round(last_value,10), np.round(thresh_value,10)) == False and state:\n"),
    dict(name="quiet-demand-guard-inverted", file=CTRL, silent=True, old="            if self._source_obj.demand != 0 and not self._source_obj.demand is None:\n",
         new="            if not (self._source_obj.demand == 0 or self._source_obj.demand is None):\n"),
    dict(name="quiet-strict-relation-elif", file=CTRL, silent=True, old="        if relation is Comparison.lt:\n            relation = Comparison.le\n", new="        elif Comparison.lt is relation:\n            relation = Comparison.le\n"),
    dict(name="quiet-one-way-link-test-merged", file=CORE, silent=True,
         old="                if isinstance(link, Pipe):\n                    if link.check_valve:\n                        if link.end_node_name == tank_name:\n                            continue\n                        else:\n                            link_has_cv = True\n"
             "                elif isinstance(link, Pump):\n                    if link.end_node_name == tank_name:\n                        continue\n                    else:\n                        link_has_cv = True\n",
         new="                one_way = bool(link.check_valve) if isinstance(link, Pipe) else isinstance(link, Pump)\n                if one_way:\n                    if tank_name == link.end_node_name:\n                        continue\n                    link_has_cv = True\n"),
    dict(name="quiet-one-way-link-test-boolop", file=CORE, silent=True,
         old="                if isinstance(link, Pipe):\n                    if link.check_valve:\n                        if link.start_node_name == tank_name:\n                            continue\n                        else:\n                            link_has_cv = True\n"
             "                if isinstance(link, Pump):\n                    if link.start_node_name == tank_name:\n                        continue\n                    else:\n                        link_has_cv = True\n",
         new="                if (isinstance(link, Pipe) and link.check_valve) or isinstance(link, Pump):\n                    if not link.start_node_name != tank_name:\n                        continue\n                    link_has_cv = True\n"),
]
