"""C06 -- tank volumes integrate their net inflow and stay within their limits (integration step, bookkeeping, limit controls)."""
import ast
import re

import sympy as sp

from ..src import walk, calls, call_name, dotted, const, loc, unparse, norm, AnchorError, ExtractError, last_attr
from ..symx import SymExec, Opaque, State, is_zero
from ..cfg import CFG

HYD = "wntr/sim/hydraulics.py"
CORE = "wntr/sim/core.py"
ELEM = "wntr/network/elements.py"
CTRL = "wntr/network/controls.py"

EXPLANATION = (
    "Formula extraction of update_tank_heads (explicit Euler step): dt = sim_time - _prev_sim_time; cylindrical tanks: new head = last accepted "
    "head + demand*dt/(pi*D^2/4); volume-curve tanks: V0 = interp(last accepted level; level->volume), V1 = V0 + demand*dt, new level = "
    "interp(V1; volume->level) on the same curve with transposed axes, always measured from the last accepted level; Tank.get_volume / level / "
    "init_level definitions; update_network_previous_values stores time and tank heads and is called exactly once per accepted step after "
    "save_results and before the time advance (and once before the loop on a first step); every non-first, non-resolve iteration recomputes tank "
    "heads after the step's final time is known and before the source-head parameters are refreshed; case table of _get_all_tank_controls over "
    "link kind x orientation x limit (which links get closing / opening controls at which head, priority and solve phase); tank-level conditions "
    "compute a non-negative partial step of dimension seconds. Decides the integration formula and the controls' construction, not trajectories.")
RULE_TEXT = "one instance = one extracted formula, one bookkeeping path rule, or one row of the limit-control case table"
ASSUMPTIONS = ["the ~2 s overshoot bound and limits on every trajectory depend on the timing of the re-solve loop (not decided)"]


def interp_hook(name, node, args, kwargs, st, ex, recv):
    if name in ("np.interp", "numpy.interp") and len(args) == 3:
        return sp.Function("interp")(ex.S(args[0]), ex.sym(ex.text(args[1])), ex.sym(ex.text(args[2])))
    if name in ("np.array", "numpy.array") and len(args) == 1:
        return Opaque("array(%s)" % ex.text(args[0]))
    return NotImplemented


def run(repo, chk):
    # ---------------------------------------------------------------- R-C06-1 Euler step
    fn = repo.func(HYD, "update_tank_heads")
    chk.fn(fn)
    ex = SymExec(call_hook=interp_hook)
    outs = ex.run(fn)
    sy = ex.sym
    dt_ref = sy("wn.sim_time") - sy("wn._prev_sim_time")
    dem, prevh, D = sy("tank.demand"), sy("tank._prev_head"), sy("tank.diameter")
    seen = {"cyl": 0, "curve": 0}
    for o in outs:
        st = [e for e in o.events if e[0] == "store" and e[1] == "tank._head"]
        if len(st) != 1:
            chk.bad("R-C06-1", "update_tank_heads assigns the new head exactly once per tank", loc(fn), found=[e[1] for e in st])
            continue
        ctx = st[0][4][-1] if len(st[0]) > 4 and st[0][4] else ""
        chk.expect(ctx == "wn.tanks()", "R-C06-1", "update_tank_heads ranges over all tanks", loc(fn), found=ctx)
        val = ex.S(st[0][2])
        none = [v for t, v in o.conds if t == "tank.vol_curve is None"]
        if none and none[0]:
            seen["cyl"] += 1
            want = prevh + dem * dt_ref / (sp.pi * D ** 2 / 4)
            chk.expect(is_zero(val - want), "R-C06-1", "cylindrical tank: new head = last accepted head + demand*dt / (pi*D^2/4)", loc(fn),
                       "explicit Euler step with the tank's cross-section, net inflow and the elapsed time since the last accepted solve", expected=str(want), found=str(val))
        elif none and not none[0]:
            seen["curve"] += 1
            same = [v for t, v in o.conds if "tank.head == tank._prev_head" in t]
            interps = [a for a in val.atoms(sp.Function) if a.func.__name__ == "interp"]
            outer = [a for a in interps if any(isinstance(b, sp.Function) and b.func.__name__ == "interp" for b in a.args[0].atoms(sp.Function))]
            okc = len(outer) == 1
            detail = ""
            if okc:
                O = outer[0]
                inner = [b for b in O.args[0].atoms(sp.Function) if b.func.__name__ == "interp"]
                I = inner[0]
                L = I.args[0]
                # axes transposed on the same curve
                okc = I.args[1] == O.args[2] and I.args[2] == O.args[1] and I.args[1] != I.args[2]
                detail += "axes %s/%s vs %s/%s; " % (I.args[1], I.args[2], O.args[1], O.args[2])
                # level axis is column 0, volume axis column 1 of the curve points
                okc = okc and str(I.args[1]).endswith("[:, 0]") or str(I.args[1]).endswith("[(:, 0)]") or ", 0)" in str(I.args[1]) if okc else False
                okc = okc and is_zero(O.args[0] - (I + dem * dt_ref))
                detail += "V1 - (V0 + q*dt) = %s; " % sp.simplify(O.args[0] - (I + dem * dt_ref))
                okc = okc and is_zero(val - (prevh + O - L))
                # reference level must be the LAST ACCEPTED level
                lvl_prev = prevh - (sy("tank.head") - sy("tank.level"))
                if same and same[0]:
                    okl = is_zero(L - sy("tank.level")) or is_zero(L - lvl_prev)
                else:
                    okl = is_zero(L - lvl_prev)
                chk.expect(okl, "R-C06-1", "volume-curve tank: the step starts from the last accepted level%s" % (" [head unchanged since]" if same and same[0] else " [head already advanced]"), loc(fn),
                           "update_tank_heads is called several times per step; once the head has been advanced, tank.level is no longer the accepted level and the volume increment "
                           "would be measured on the wrong part of the curve", expected=str(lvl_prev), found=str(L))
            chk.expect(bool(okc), "R-C06-1", "volume-curve tank: V1 = V(level) + demand*dt and new level = V^-1(V1) on the same curve%s" % (" [head unchanged since]" if same and same[0] else " [head already advanced]"),
                       loc(fn), detail, found=str(val)[:300])
    chk.expect(seen["cyl"] >= 1 and seen["curve"] >= 1, "R-C06-1", "both tank geometries are handled", loc(fn), found=seen)
    dts = [e for o in outs for e in o.events if e[0] == "store" and False]
    # dt definition
    dtasg = [s for s in walk(fn) if isinstance(s, ast.Assign) and dotted(s.targets[0]) == "dt"]
    chk.expect(len(dtasg) == 1 and unparse(dtasg[0].value).replace(" ", "") == "wn.sim_time-wn._prev_sim_time", "R-C06-1", "dt is the time since the last accepted solve", loc(fn), found=unparse(dtasg[0].value) if dtasg else None)
    gv = repo.func(ELEM, "Tank.get_volume")
    chk.fn(gv)
    exv = SymExec(call_hook=interp_hook)
    gseen = set()
    for o in exv.run(gv):
        if o.raised or o.ret is None:
            continue
        none = [v for t, v in o.conds if "vol_curve is None" in t]
        lvl_none = [v for t, v in o.conds if t == "level is None"]
        if lvl_none and lvl_none[0]:
            continue
        if none and none[0]:
            r = exv.S(o.ret)
            want = sp.pi / 4 * exv.sym("self.diameter") ** 2 * exv.sym("level")
            chk.expect(is_zero(r - want), "R-C06-1", "Tank.get_volume (cylindrical) = pi/4 * D^2 * level", loc(gv), found=str(r))
            gseen.add("cyl")
        elif none and not none[0]:
            r = exv.S(o.ret) if not isinstance(o.ret, Opaque) else None
            okg = r is not None and len([a for a in r.atoms(sp.Function) if a.func.__name__ == "interp"]) == 1
            chk.expect(bool(okg), "R-C06-1", "Tank.get_volume (curve) interpolates the volume curve at the level", loc(gv), found=str(o.ret)[:120])
            gseen.add("curve")
    chk.expect(gseen == {"cyl", "curve"}, "R-C06-1", "Tank.get_volume handles both geometries", loc(gv), found=sorted(gseen))
    lv = repo.func(ELEM, "Tank.level", kind="getter")
    r = [s for s in walk(lv) if isinstance(s, ast.Return)]
    chk.expect(bool(r) and unparse(r[0].value).replace(" ", "") == "self.head-self.elevation", "R-C06-1", "Tank.level = head - elevation", loc(lv), found=unparse(r[0].value) if r else None)
    il = repo.func(ELEM, "Tank.init_level", kind="setter")
    asg = [s for s in walk(il) if isinstance(s, ast.Assign) and unparse(s.targets[0]) == "self._head"]
    chk.expect(bool(asg) and set(unparse(asg[0].value).replace(" ", "").split("+")) == {"self.elevation", "self._init_level"} or
               (bool(asg) and set(unparse(asg[0].value).replace(" ", "").split("+")) == {"self.elevation", "value"}), "R-C06-1", "setting init_level sets head = elevation + init_level", loc(il),
               found=unparse(asg[0].value) if asg else None)
    chk.floor("R-C06-1", 10)

    # ---------------------------------------------------------------- R-C06-2 bookkeeping
    up = repo.func(HYD, "update_network_previous_values")
    chk.fn(up)
    exu = SymExec()
    ou = exu.run(up)[0]
    stores = {(e[1], (e[4][-1] if len(e) > 4 and e[4] else "")): e[2] for e in ou.events if e[0] == "store"}
    chk.expect(stores.get(("wn._prev_sim_time", "")) == Opaque("wn.sim_time"), "R-C06-2", "update_network_previous_values stores the accepted time", loc(up), found=stores.get(("wn._prev_sim_time", "")))
    chk.expect(stores.get(("tank._prev_head", "wn.tanks()")) == Opaque("tank.head"), "R-C06-2", "update_network_previous_values stores every tank's accepted head", loc(up), found={k: str(v) for k, v in stores.items()})
    rs = repo.func(CORE, "WNTRSimulator.run_sim")
    chk.fn(rs)
    g = CFG(rs)
    heads = [h for n, h in g.loop_heads.items() if isinstance(n, ast.While)]
    if len(heads) != 1:
        raise AnchorError("run_sim: expected one while loop")
    head = heads[0]
    inloop = g.reachable(head)
    upd = g.calling("update_network_previous_values")
    upd_in = [u for u in upd if u in inloop and head in g.reachable(u)]
    upd_pre = [u for u in upd if u not in upd_in]
    saves = g.calling("save_results")
    adv = g.nodes_where(lambda node, d: isinstance(node, ast.AugAssign) and unparse(node.target) == "self._wn.sim_time" and isinstance(node.op, ast.Add))
    chk.expect(len(upd_in) == 1, "R-C06-2", "exactly one update_network_previous_values per accepted step", loc(rs), found=[g.label(u) for u in upd_in])
    if upd_in and adv:
        u = upd_in[0]
        w = g.can_reach_avoiding(head, adv, [u], drop_back=True)
        chk.expect(w is None, "R-C06-2", "the accepted state is stored before sim_time advances", loc(rs), found=g.path_text(w) if w else None)
        rr = g.reachable(u, g.view(drop_back=True))
        chk.expect(not any(s in rr for s in saves), "R-C06-2", "the accepted state is stored after the results of the step were saved", loc(rs))
        gt = [n for n in g.nodes_where(lambda node, d: d["kind"] == "test" and "changes_made" in unparse(node) and "'graph'" in unparse(node))]
        if gt:
            w = g.can_reach_avoiding(g.succ_on(gt[0], True)[0], [u], [], drop_back=True) if g.succ_on(gt[0], True) else None
            chk.expect(w is None, "R-C06-2", "a step that is going to be re-solved is not stored as accepted", loc(rs), found=g.path_text(w) if w else None)
    okpre = len(upd_pre) == 1
    if okpre:
        p = getattr(g.node_ast(upd_pre[0]), "_parent", None)
        okpre = isinstance(p, ast.If) and unparse(p.test) == "first_step"
    chk.expect(okpre, "R-C06-2", "before the loop the previous values are initialised only on a first step", loc(rs))
    uth = g.calling("update_tank_heads")
    comp = g.calling("_compute_next_timestep_and_run_presolve_controls_and_rules")
    shp = g.calling("source_head_param")
    if not (uth and comp and shp):
        raise AnchorError("run_sim: update_tank_heads / scheduler / source_head_param calls missing")
    between = [n for n in uth if n in g.reachable(comp[0], g.view(drop_back=True)) and shp[0] in g.reachable(n, g.view(drop_back=True))]
    okb = False
    for n in between:
        p = getattr(g.node_ast(n), "_parent", None)
        if isinstance(p, ast.If):
            t = re.sub(r"[\s()]", "", unparse(p.test))
            if t in ("notfirst_stepandnotresolve", "notresolveandnotfirst_step"):
                okb = True
    chk.expect(okb, "R-C06-2", "every non-first, non-resolve iteration recomputes tank heads after the step's final time is known and before the source heads are refreshed", loc(rs),
               found=[g.label(n) for n in between])
    early = [n for n in uth if comp[0] in g.reachable(n, g.view(drop_back=True))]
    for n in early:
        p = getattr(g.node_ast(n), "_parent", None)
        chk.expect(isinstance(p, ast.If) and unparse(p.test).replace(" ", "") == "notfirst_step", "R-C06-2", "tank heads are projected before the controls are checked, except on a first step", loc(rs, g.node_ast(n)))
    shn = repo.func("wntr/sim/models/param.py", "source_head_param")
    s_ = unparse(shn)
    chk.expect("m.source_head[node_name].value = node.head" in s_ and "wn.tanks()" in s_, "R-C06-2", "source_head_param copies every tank's head into the model", loc(shn))
    chk.floor("R-C06-2", 8)

    # ---------------------------------------------------------------- R-C06-3 limit controls
    tc = repo.func(CORE, "WNTRSimulator._get_all_tank_controls")
    chk.fn(tc)
    outer = [n for n in tc.body if isinstance(n, ast.For)]
    if len(outer) != 1:
        raise AnchorError("_get_all_tank_controls: expected one loop over tanks")
    chk.expect("Tank" in unparse(outer[0].iter), "R-C06-3", "limit controls are built for every tank", loc(tc), found=unparse(outer[0].iter))
    inner = [n for n in outer[0].body if isinstance(n, ast.For)]
    if len(inner) != 2:
        raise AnchorError("_get_all_tank_controls: expected a min-level loop and a max-level loop, found %d" % len(inner))
    for li, (lp, lim) in enumerate(zip(inner, ("min", "max"))):
        pre = [s for s in outer[0].body if s.lineno < lp.lineno and isinstance(s, ast.Assign)]
        ex3 = SymExec()
        st0 = State({"self": Opaque("self"), "tank": Opaque("tank"), "tank_name": Opaque("tank_name"), "tank_controls": []})
        for s in pre:
            ex3.stmt(s, st0)
        headname = "%s_head" % lim
        hv = st0.env.get(headname)
        want_h = ex3.sym("tank.%s_level" % lim) + ex3.sym("tank.elevation")
        chk.expect(hv is not None and is_zero(ex3.S(hv) - want_h), "R-C06-3", "%s limit threshold is %s_level + elevation (a head)" % (lim, lim), loc(tc), found=str(hv))
        chk.expect(unparse(lp.iter) == "all_links" and "get_links_for_node(tank_name, 'ALL')" in unparse(outer[0]), "R-C06-3", "%s limit: all links at the tank are considered" % lim, loc(tc, lp))
        ex3.bind_loop_target(lp.target, st0)
        paths = ex3.block(lp.body, [st0])
        Htol = ex3.sym("self._Htol")
        closing = "Comparison.le" if lim == "min" else "Comparison.ge"
        opening = "Comparison.ge" if lim == "min" else "Comparison.le"
        skip_end = "end_node_name" if lim == "min" else "start_node_name"    # the link end that must be the tank for the skip
        ncase = 0
        for o in paths:
            if o.raised:
                continue
            c = dict(o.conds)
            ispipe = c.get("isinstance(self._wn.get_link(link_name), Pipe)")
            ispump = c.get("isinstance(self._wn.get_link(link_name), Pump)")
            cv = c.get("self._wn.get_link(link_name).check_valve")
            at_skip_end = [v for t, v in o.conds if t == "self._wn.get_link(link_name).%s == tank_name" % skip_end]
            kind = "pipe+cv" if (ispipe and cv) else ("pipe" if ispipe else ("pump" if ispump else "valve/other"))
            if ispipe and ispump:
                continue                      # infeasible combination of the two isinstance tests
            skipped = any(e[0] == "continue" for e in o.events)
            want_skip = kind in ("pipe+cv", "pump") and bool(at_skip_end and at_skip_end[0])
            case = "%s limit, %s%s" % (lim, kind, (", tank is its %s" % ("end" if (at_skip_end and at_skip_end[0]) == (lim == "min") else "start")) if kind in ("pipe+cv", "pump") else "")
            ncase += 1
            chk.expect(skipped == want_skip, "R-C06-3", "%s: %s" % (case, "no control (the link cannot carry water %s the tank)" % ("out of" if lim == "min" else "into") if want_skip else "gets a closing control"), loc(tc, lp),
                       "at the %s limit exactly the links that can %s the tank must be closed" % (lim, "drain" if lim == "min" else "fill"), expected="skip=%s" % want_skip, found="skip=%s [%s]" % (skipped, o.label()[-120:]))
            if skipped:
                continue
            vcs = [e for e in o.events if e[0] == "call" and e[1].startswith("ValueCondition(")]
            rcs = [e for e in o.events if e[0] == "call" and e[1].startswith("RelativeCondition(")]
            ctl = [e for e in o.events if e[0] == "call" and e[1].startswith("Control(")]
            acts = [e for e in o.events if e[0] == "call" and e[1].startswith("_InternalControlAction(")]
            types = [(e[1], e[2].text if isinstance(e[2], Opaque) else e[2]) for e in o.events if e[0] == "store" and e[1].endswith("._control_type")]
            has_cv = kind in ("pipe+cv", "pump")
            nctl = 1 if has_cv else 3
            chk.expect(len(ctl) == nctl and len(o.env["tank_controls"]) == nctl, "R-C06-3", "%s: %d control(s) created and collected" % (case, nctl), loc(tc, lp), found=(len(ctl), len(o.env["tank_controls"])))
            a_ok = len(acts) == 2 and acts[0][2][1][1:] == ["_internal_status", Opaque("LinkStatus.Closed"), "status"] and acts[1][2][1][1:] == ["_internal_status", Opaque("LinkStatus.Open"), "status"] \
                and acts[0][2][1][0] == Opaque("self._wn.get_link(link_name)")
            chk.expect(a_ok, "R-C06-3", "%s: actions set the link's internal status (Closed / Open) and report `status`" % case, loc(tc, lp), found=[a[1] for a in acts])
            if vcs:
                a0 = vcs[0][2][1]
                okc = a0[0] == Opaque("tank") and a0[1] == "head" and isinstance(a0[2], Opaque) and a0[2].text == closing and is_zero(ex3.S(a0[3]) - want_h)
                chk.expect(okc, "R-C06-3", "%s: closing condition is tank head %s %s_level + elevation" % (case, "<=" if lim == "min" else ">=", lim), loc(tc, lp), found=vcs[0][1])
                k0 = ctl[0][2][2]
                chk.expect(isinstance(k0.get("priority"), Opaque) and k0["priority"].text == "ControlPriority.medium" and k0.get("then_action") is not None and
                           isinstance(k0["then_action"], Opaque) and "LinkStatus.Closed" in k0["then_action"].text, "R-C06-3", "%s: closing control has medium priority and the closing action" % case, loc(tc, lp), found=ctl[0][1][:160])
                chk.expect(bool(types) and types[0][1] == "_ControlType.pre_and_postsolve", "R-C06-3", "%s: closing control is pre- and post-solve (back-tracked to the limit)" % case, loc(tc, lp), found=types[:1])
            if not has_cv and len(vcs) == 3 and len(rcs) == 1 and len(ctl) == 3:
                sgn = 1 if lim == "min" else -1
                a1 = vcs[1][2][1]
                ok1 = a1[0] == Opaque("tank") and a1[1] == "head" and a1[2].text == opening and is_zero(ex3.S(a1[3]) - (want_h + sgn * Htol))
                chk.expect(ok1, "R-C06-3", "%s: re-opening condition 1 is tank head %s limit %s Htol" % (case, ">=" if lim == "min" else "<=", "+" if lim == "min" else "-"), loc(tc, lp), found=vcs[1][1])
                k1 = ctl[1][2][2]
                chk.expect(k1["priority"].text == "ControlPriority.low" and "LinkStatus.Open" in k1["then_action"].text and types[1][1] == "_ControlType.postsolve", "R-C06-3",
                           "%s: re-opening control 1 is low priority, post-solve, opening" % case, loc(tc, lp), found=ctl[1][1][:120])
                r2 = rcs[0][2][1]
                a2 = vcs[2][2][1]
                ok2 = r2[0] == Opaque("tank") and r2[1] == "head" and r2[2].text == closing and r2[4] == "head" and a2[2].text == closing and is_zero(ex3.S(a2[3]) - (want_h + sgn * Htol))
                other_ok = isinstance(r2[3], Opaque) and r2[3].text in ("self._wn.get_link(link_name).end_node", "self._wn.get_link(link_name).start_node")
                chk.expect(ok2 and other_ok, "R-C06-3", "%s: re-opening condition 2 is (tank head %s other node's head) and (tank head %s limit %s Htol)" % (case, "<=" if lim == "min" else ">=", "<=" if lim == "min" else ">=", "+" if lim == "min" else "-"),
                           loc(tc, lp), found=(rcs[0][1], vcs[2][1]))
                k2 = ctl[2][2][2]
                chk.expect(k2["priority"].text == "ControlPriority.high" and "LinkStatus.Open" in k2["then_action"].text and "AndCondition" in k2["condition"].text and types[2][1] == "_ControlType.postsolve", "R-C06-3",
                           "%s: re-opening control 2 is high priority, post-solve, opening, conjunction of both conditions" % case, loc(tc, lp), found=ctl[2][1][:160])
                # the `other node` is the end opposite to the tank
                st_is = [v for t, v in o.conds if t == "self._wn.get_link(link_name).start_node is tank"]
                if st_is:
                    wanto = "self._wn.get_link(link_name).end_node" if st_is[0] else "self._wn.get_link(link_name).start_node"
                    chk.expect(r2[3].text == wanto, "R-C06-3", "%s: the comparison node is the link's other end [tank is start=%s]" % (case, st_is[0]), loc(tc, lp), found=r2[3].text)
            elif not has_cv:
                chk.bad("R-C06-3", "%s: two re-opening controls are created for links without a check valve" % case, loc(tc, lp), found=(len(vcs), len(rcs), len(ctl)))
        chk.expect(ncase >= 6, "R-C06-3", "%s limit: all link kinds/orientations enumerated" % lim, loc(tc, lp), found=ncase)
    chk.floor("R-C06-3", 50)

    # ---------------------------------------------------------------- R-C06-4 partial step at the limit
    tl = repo.func(CTRL, "TankLevelCondition.evaluate")
    chk.fn(tl)
    ex4 = SymExec(call_hook=lambda name, node, args, kwargs, st, ex, recv: (args[0] if name in ("np.round",) else (args[0] if name == "bool" else NotImplemented)))
    src = unparse(tl)
    exprs = [c for c in calls(tl) if call_name(c) == "math.floor"]
    okcyl = False
    okcur = False
    for c in exprs:
        t = unparse(c.args[0]).replace(" ", "").replace("\n", "")
        if "math.pi/4.0*self._source_obj.diameter**2/self._source_obj.demand" in t and "(cur_value-thresh_value)" in t:
            okcyl = True
        if "(cur_value_volume-thresh_volume)/self._source_obj.demand" in t:
            okcur = True
    e5 = SymExec()
    cv, tv, Dm, dm = (e5.sym(x) for x in ("cur_value", "thresh_value", "self._source_obj.diameter", "self._source_obj.demand"))
    cylf = [c for c in exprs if "diameter" in unparse(c)]
    if cylf:
        val = e5.S(e5.ev(cylf[0].args[0], State({"cur_value": Opaque("cur_value"), "thresh_value": Opaque("thresh_value"), "self": Opaque("self")})))
        okcyl = is_zero(val - (cv - tv) * sp.pi / 4 * Dm ** 2 / dm)
    chk.expect(okcyl, "R-C06-4", "tank-level crossing: partial step = floor((level - threshold) * pi/4 * D^2 / net inflow) seconds", loc(tl), found=unparse(cylf[0].args[0]) if cylf else None)
    curf = [c for c in exprs if "volume" in unparse(c)]
    if curf:
        val = e5.S(e5.ev(curf[0].args[0], State({"cur_value_volume": Opaque("cv"), "thresh_volume": Opaque("tvv"), "self": Opaque("self")})))
        okcur = is_zero(val - (e5.sym("cv") - e5.sym("tvv")) / dm)
        gvs = [unparse(c) for c in calls(tl) if last_attr(c) == "get_volume"]
        okcur = okcur and "self._source_obj.get_volume(level)" in gvs and "self._source_obj.get_volume(thresh_level)" in gvs
    chk.expect(okcur, "R-C06-4", "tank-level crossing with a volume curve: partial step = floor((V(level) - V(threshold)) / net inflow)", loc(tl), found=unparse(curf[0].args[0]) if curf else None)
    remap = {}
    for n in walk(tl):
        if isinstance(n, ast.If) and re.fullmatch(r"relation is Comparison\.(\w+)", unparse(n.test)):
            asg = [x for x in n.body if isinstance(x, ast.Assign) and unparse(x.targets[0]) == "relation"]
            if asg:
                remap[unparse(n.test).split(".")[-1]] = unparse(asg[0].value)
    chk.expect(remap == {"gt": "Comparison.ge", "lt": "Comparison.le"}, "R-C06-4", "strict tank-level relations are treated as inclusive (a level exactly at the limit triggers)", loc(tl), found=remap)
    lastv = [s for s in tl.body if isinstance(s, ast.Assign) and unparse(s.targets[0]) == "self._last_value"]
    chk.expect(len(lastv) == 1 and unparse(lastv[0].value) == "cur_value", "R-C06-4", "the crossing detector's last value is updated on every evaluation (top-level statement)", loc(tl))
    # crossing guard: `state and not relation(<value at the last accepted step>, threshold)`; which variable carries that value is C05's R-C05-6
    guard = [n for n in walk(tl) if isinstance(n, ast.If) and isinstance(n.test, ast.BoolOp) and isinstance(n.test.op, ast.And) and len(n.test.values) == 2
             and unparse(n.test.values[0]) == "state" and isinstance(n.test.values[1], ast.UnaryOp) and isinstance(n.test.values[1].op, ast.Not)
             and isinstance(n.test.values[1].operand, ast.Call) and unparse(n.test.values[1].operand.func) == "relation"
             and "thresh_value" in unparse(n.test.values[1].operand.args[1])]
    chk.expect(len(guard) == 1, "R-C06-4", "a partial step is computed only when the condition became true since the last accepted step (so (level - threshold)/inflow >= 0)", loc(tl))


    # ================================================================ rules added after the defect hunt (hunted/C06)
    # ---------------------------------------------------------------- R-C06-1b "starting from init_level": both quantities the starting head is made of refresh it
    tk = repo.cls(ELEM, "Tank")
    setters = {n.name: n for n in tk.body if isinstance(n, ast.FunctionDef) and any(isinstance(d, ast.Attribute) and d.attr == "setter" for d in n.decorator_list)}
    ini_ = [n for n in tk.body if isinstance(n, ast.FunctionDef) and n.name == "__init__"][0]
    head0 = [a for a in walk(ini_) if isinstance(a, ast.Assign) and unparse(a.targets[0]) == "self._head"]
    if not head0:
        raise ExtractError("Tank.__init__: initial head not found")
    reads = {x.attr.lstrip("_") for x in ast.walk(head0[0].value) if isinstance(x, ast.Attribute)}
    for q in sorted(reads & {"elevation", "init_level"}):
        st = setters.get(q)
        ok_ = st is not None and any(isinstance(a, ast.Assign) and unparse(a.targets[0]) == "self._head" for a in walk(st))
        chk.expect(ok_, "R-C06-1b", "Tank.%s setter refreshes the starting head (head = elevation + init_level)" % q, loc(ELEM, st) if st is not None else ELEM,
                   "the tank's head at the start of a simulation is elevation + init_level; a setter that leaves _head alone makes the run start from a different level than init_level",
                   expected="self._head = elevation + init_level", found="no assignment of _head")
    chk.floor("R-C06-1b", 2)

    # ---------------------------------------------------------------- R-C06-1c the volume curve used is the tank's CURRENT curve
    # Curve.points has a setter: the integration step and get_volume must read the points at the time of use (or through a memo keyed by them)
    def curve_source_ok(fn, owner_cls):
        bad = []
        for a in walk(fn):
            if isinstance(a, ast.Assign) and isinstance(a.targets[0], ast.Name) and a.targets[0].id in ("vcurve", "arr", "curve", "points"):
                v = a.value
                if ".points" in unparse(v):
                    continue
                if isinstance(v, ast.Call) and isinstance(v.func, ast.Attribute):
                    m = [n for n in owner_cls.body if isinstance(n, ast.FunctionDef) and n.name == v.func.attr]
                    if m:
                        guards = [n for n in walk(m[0]) if isinstance(n, ast.If) and "is None" in unparse(n.test)]
                        keyed = any(".points" in unparse(gd.test) for gd in [n for n in walk(m[0]) if isinstance(n, ast.If)])
                        if guards and not keyed:
                            bad.append("%s() memoises the curve array under `%s` only" % (v.func.attr, unparse(guards[0].test)))
                        continue
                bad.append(norm(a))
        return bad
    for fn_, label in ((repo.func(HYD, "update_tank_heads"), "update_tank_heads"), (repo.func(ELEM, "Tank.get_volume"), "Tank.get_volume")):
        uses_curve = "vol_curve" in unparse(fn_) or "_vol_curve" in unparse(fn_)
        bad_ = curve_source_ok(fn_, tk) if uses_curve else ["no volume-curve branch"]
        chk.expect(uses_curve and not bad_, "R-C06-1c", "%s reads the points of the tank's volume curve at the time of use" % label, loc(fn_),
                   "the points of an assigned curve can be replaced in place (curve.points = [...]); an array cached when the curve was first used makes later runs integrate through the old curve",
                   expected="np.array(tank.vol_curve.points) or a memo keyed by the points", found=bad_)

    # ---------------------------------------------------------------- R-C06-3b the closure the tank controls command is effective for every link kind they act on
    # the closing controls write _internal_status = Closed; a link's effective status must then be Closed whatever the user status is
    from .c02 import status_table
    for cname in ("Pipe", "Pump", "Valve"):
        tab = status_table(repo, cname)
        bad_ = sorted(u for (u, i_), v in tab.items() if i_ == "Closed" and v != "Closed")
        chk.expect(not bad_, "R-C06-3b", "%s.status is Closed whenever the tank-limit controls set _internal_status = Closed" % cname, loc(ELEM, repo.cls(ELEM, cname)),
                   "_get_all_tank_controls closes links through _internal_status; %s.status ignores it for user status %s: such a link next to a tank keeps filling / draining it past its limits" % (cname, bad_),
                   expected="Closed", found={u: tab[(u, "Closed")] for u in bad_})

    # ---------------------------------------------------------------- R-C06-3c a link between two tanks: re-opening looks at the other tank's limit too
    gat = repo.func(CORE, "WNTRSimulator._get_all_tank_controls")
    txt_ = unparse(gat)
    looks_at_other_tank = "isinstance(other_node, Tank)" in txt_ or "isinstance(other_node, wntr.network.Tank)" in txt_
    chk.expect(looks_at_other_tank, "R-C06-3c", "the re-opening control of a link at a full / empty tank checks the limit of the tank at its other end", loc(gat),
               "open_control_2 (priority high) re-opens the link when this tank's head allows flow towards the other node, without asking whether the other node is a tank at its own "
               "limit; it out-ranks that tank's closing control (priority medium), so a pipe between two full tanks keeps filling one of them", expected="a condition on other_node when it is a Tank",
               found="other_node is used only through its head")

    # ---------------------------------------------------------------- R-C06-3d pumps are skipped by the tank controls because they cannot run backwards -- they must not
    from ..peval import Evaluator as _Ev, Obj as _Obj, Unknown as _Unk, Raised as _Rs
    for cname in ("_CloseHeadPumpCondition",):      # power pumps: the constant-power relation admits no reverse-flow solution (checked by experiment), not claimed
        ev_fn = repo.func(CTRL, cname + ".evaluate")
        chk.fn(ev_fn)
        reads_flow = any(isinstance(x, ast.Attribute) and x.attr in ("flow", "_flow") for x in walk(ev_fn))
        chk.expect(reads_flow, "R-C06-3d", "%s closes a pump that carries reverse flow" % cname, loc(ev_fn),
                   "pumps that end (start) at a tank get no min-level (max-level) closing control 'because pumps have check valves', but the pump's own closing condition only "
                   "compares the head difference with the shut-off head; for q < 0 the pump curve is flat at the shut-off head, the test never fires and the tank drains backwards "
                   "through the open pump below its minimum level", expected="also true when pump.flow < -Qtol (as _CloseCVCondition)", found="no read of the pump's flow")

    # ---------------------------------------------------------------- R-C06-5 volume curves are not silently clamped at their ends
    uth = repo.func(HYD, "update_tank_heads")
    interp_calls = [c for c in calls(uth) if (call_name(c) or "").endswith("interp")]
    extended = any(k.arg in ("left", "right") for c in interp_calls for k in c.keywords) or not interp_calls
    chk.expect(extended, "R-C06-5", "the level <-> volume conversion of a volume-curve tank is extended beyond the ends of the curve", loc(uth),
               "np.interp clamps outside the tabulated range: when the trial volume leaves the curve the level stops at the curve's end, the partial step is computed from the clamped "
               "level (back-track 0) and the stored volume no longer changes by net inflow x dt (88.96 m3 lost in one step in hunted/C06/defect_1.py)",
               expected="extrapolation (or a refusal) outside the curve", found="%d plain np.interp call(s)" % len(interp_calls))

WITNESSES = [
    dict(name="elevation-setter-leaves-head", file=ELEM, old="        self._head = self._elevation + self._init_level  # like the init_level setter: the tank starts at init_level\n", new="", rule="R-C06-1b"),
    dict(name="pipe-ignores-internal-closure", file=ELEM, old="        if self._internal_status == LinkStatus.Closed:\n            return LinkStatus.Closed\n        else:\n            return self._user_status\n\n    @property\n    def friction_factor",
         new="        return self._user_status\n\n    @property\n    def friction_factor", rule="R-C06-3b"),
    dict(name="area-2", file=HYD, old="            delta_h = 4.0 * dV / (math.pi * tank.diameter ** 2)", new="            delta_h = 2.0 * dV / (math.pi * tank.diameter ** 2)", rule="R-C06-1"),
    dict(name="diameter-not-squared", file=HYD, old="(math.pi * tank.diameter ** 2)", new="(math.pi * tank.diameter)", rule="R-C06-1"),
    dict(name="dt-wrong-clock", file=HYD, old="    dt = wn.sim_time - wn._prev_sim_time   ", new="    dt = wn.options.time.hydraulic_timestep", rule="R-C06-1"),
    dict(name="step-sign", file=HYD, old="        tank._head = tank._prev_head + delta_h", new="        tank._head = tank._prev_head - delta_h", rule="R-C06-1"),
    dict(name="curve-reference-level", file=HYD, old="            if tank.head == tank._prev_head:\n                cur_level = tank.level\n            else:\n                cur_level = tank._prev_head - (tank.head - tank.level)", new="            cur_level = tank.level", rule="R-C06-1"),
    dict(name="curve-axes", file=HYD, old="            level_new = np.interp(V1,volume_y,level_x)", new="            level_new = np.interp(V1,level_x,volume_y)", rule="R-C06-1"),
    dict(name="prev-head-not-stored", file=HYD, old="    for tank_name, tank in wn.tanks():\n        tank._prev_head = tank.head\n", new="", rule="R-C06-2"),
    dict(name="min-uses-max-level", file=CORE, old="            min_head = tank.min_level + tank.elevation", new="            min_head = tank.max_level + tank.elevation", rule="R-C06-3"),
    dict(name="min-close-ge", file=CORE, old="                close_condition = ValueCondition(tank, 'head', Comparison.le, min_head)", new="                close_condition = ValueCondition(tank, 'head', Comparison.ge, min_head)", rule="R-C06-3"),
    dict(name="elevation-omitted", file=CORE, old="            max_head = tank.max_level + tank.elevation", new="            max_head = tank.max_level", rule="R-C06-3"),
    dict(name="skip-wrong-orientation", file=CORE, old="                elif isinstance(link, Pump):\n                    if link.end_node_name == tank_name:\n                        continue", new="                elif isinstance(link, Pump):\n                    if link.start_node_name == tank_name:\n                        continue", rule="R-C06-3"),
    dict(name="backtrack-area", file=CTRL, old="                             *math.pi/4.0*self._source_obj.diameter**2", new="                             *math.pi/2.0*self._source_obj.diameter**2", rule="R-C06-4"),
]
