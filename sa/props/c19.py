"""C19 -- pipe splitting, breaking and skeletonization keep what they promise to keep."""
import ast

import sympy as sp

from ..src import walk, calls, call_name, last_attr, dotted, norm, loc, const, AnchorError, ExtractError, parent, unparse
from ..effects import writes

LINK = "wntr/morph/link.py"
SKEL = "wntr/morph/skel.py"
MODEL = "wntr/network/model.py"

EXPLANATION = (
    "Static analysis of wntr/morph/link.py::_split_or_break_pipe / reverse_link and wntr/morph/skel.py::_Skeletonize: (R-C19-1) formula "
    "extraction: in both placement branches new-pipe length + retained length = original length identically, the part that keeps the start "
    "node gets L*s, elevation and coordinates are the linear interpolation at s (reservoir ends take the other end's elevation; with "
    "vertices the interpolation runs on the crossing segment), and 0 <= s <= 1 is enforced before any mutation; (R-C19-2) the add_pipe call "
    "passes the old pipe's diameter, roughness and minor loss in the parameter positions of those names and a constant False check valve; "
    "(R-C19-3) the old pipe is re-wired through the usage-maintaining setters, SPLIT uses one junction for both pipes and BREAK two, name "
    "clashes are refused before mutation; (R-C19-4) with return_copy every store and mutating call goes through the deep copy, the caller's "
    "model is only read; (R-C19-5) every remove_link in skeletonize is guarded by isinstance Pipe, diameter <= threshold and the exclusion "
    "list for that very pipe, every remove_node removes a junction from junction_name_list that is not excluded, exclusion lists contain the "
    "requires() of every control, and the junction that receives demands is a Junction; (R-C19-6) demand entries and the skeleton map of the "
    "removed junction are moved to one and the same retained junction before remove_node, the initial map is {n: [n]}; (R-C19-7) the duration "
    "changed for the internal simulation is restored. Decides these clauses, not hydraulic equivalence.")
RULE_TEXT = "one instance = one formula, one argument position, one mutation site, one removal site; distinct = distinct constructs"
ASSUMPTIONS = [
    "copy.deepcopy of a WaterNetworkModel shares nothing mutable with the original (pickling hooks are checked under C10)",
    "demand entries are moved as objects (pattern registry usage records of the retained junction are not re-registered; inventoried, outside the statement)",
]


def S(expr, env):
    """tiny AST -> sympy translation for arithmetic over names / attributes (attributes and subscripts become symbols)."""
    if isinstance(expr, ast.Constant) and isinstance(expr.value, (int, float)):
        return sp.nsimplify(expr.value)
    if isinstance(expr, ast.Name):
        if expr.id in env:
            return env[expr.id]
        return sp.Symbol(expr.id)
    if isinstance(expr, (ast.Attribute, ast.Subscript)):
        t = unparse(expr)
        return env.get(t, sp.Symbol(t))
    if isinstance(expr, ast.BinOp):
        a, b = S(expr.left, env), S(expr.right, env)
        if isinstance(expr.op, ast.Add):
            return a + b
        if isinstance(expr.op, ast.Sub):
            return a - b
        if isinstance(expr.op, ast.Mult):
            return a * b
        if isinstance(expr.op, ast.Div):
            return a / b
        if isinstance(expr.op, ast.Pow):
            return a ** b
    if isinstance(expr, ast.UnaryOp) and isinstance(expr.op, ast.USub):
        return -S(expr.operand, env)
    raise ExtractError("cannot translate %s" % unparse(expr))


def local_env(stmts, upto=None):
    """straight-line reaching definitions name -> sympy for simple assignments in a statement list."""
    env = {}
    for s in stmts:
        if upto is not None and s.lineno >= upto:
            break
        if isinstance(s, ast.Assign) and len(s.targets) == 1 and isinstance(s.targets[0], ast.Name):
            try:
                env[s.targets[0].id] = S(s.value, env)
            except ExtractError:
                env.pop(s.targets[0].id, None)
    return env


def params_of(fn):
    return [a.arg for a in fn.args.args if a.arg != "self"]


def bind_args(call, names):
    out = {}
    for i, a in enumerate(call.args):
        if i < len(names):
            out[names[i]] = a
    for k in call.keywords:
        if k.arg:
            out[k.arg] = k.value
    return out


def mutations(fn_or_stmts):
    """(lineno, description) of statements that change a model: attribute stores and calls of add_*/remove_*/clear/append/extend."""
    out = []
    body = fn_or_stmts if isinstance(fn_or_stmts, list) else [fn_or_stmts]
    mod = ast.Module(body=body, type_ignores=[])
    for recv, attr, ae, via, node in writes(mod):
        out.append((node.lineno, "%s.%s (%s)" % (unparse(recv), attr, via), recv, node))
    for c in calls(mod):
        nm = last_attr(c) or ""
        if nm.startswith(("add_", "remove_")) and isinstance(c.func, ast.Attribute):
            out.append((c.lineno, "%s()" % unparse(c.func), c.func.value, c))
    return sorted(out, key=lambda x: x[0])


def run(repo, chk):
    sp_fn = repo.func(LINK, "_split_or_break_pipe")
    chk.fn(sp_fn)
    wn_add_pipe = repo.func(MODEL, "WaterNetworkModel.add_pipe")
    ap_names = params_of(wn_add_pipe)
    s = sp.Symbol("split_at_point")
    L = sp.Symbol("original_length")

    # ---------------------------------------------------------------- R-C19-1 / R-C19-2 / R-C19-3 per placement branch
    br = [n for n in sp_fn.body if isinstance(n, ast.If) and unparse(n.test) == "add_pipe_at_end"]
    if len(br) != 1:
        raise ExtractError("_split_or_break_pipe: `if add_pipe_at_end` not found")
    ol = [n for n in sp_fn.body if isinstance(n, ast.Assign) and unparse(n.targets[0]) == "original_length"]
    chk.expect(bool(ol) and unparse(ol[0].value) == "pipe.length", "R-C19-1", "original_length is the pipe's length before any change", loc(sp_fn), found=unparse(ol[0].value) if ol else None)
    env_top = local_env(sp_fn.body, br[0].lineno)
    L = env_top.get("original_length", L)
    for label, body in (("new pipe at the end", br[0].body), ("new pipe at the start", br[0].orelse)):
        mod = ast.Module(body=body, type_ignores=[])
        env_b = dict(env_top)
        env_b.update(local_env(body))
        ap = [c for c in calls(mod) if last_attr(c) == "add_pipe"]
        la = [n for n in walk(mod) if isinstance(n, ast.Assign) and unparse(n.targets[0]) == "pipe.length"]
        rewire = [n for n in walk(mod) if isinstance(n, ast.Assign) and unparse(n.targets[0]) in ("pipe.end_node", "pipe.start_node")]
        if len(ap) != 1 or len(la) != 1 or len(rewire) != 1:
            raise ExtractError("_split_or_break_pipe (%s): expected one add_pipe, one pipe.length store and one re-wiring, found %d/%d/%d" % (label, len(ap), len(la), len(rewire)))
        args = bind_args(ap[0], ap_names)
        new_len = sp.expand(S(args["length"], env_top))
        old_len = sp.expand(S(la[0].value, env_top))
        chk.expect(sp.simplify(new_len + old_len - L) == 0, "R-C19-1", "%s: new length + retained length = original length" % label, loc(sp_fn, ap[0]),
                   "split/break must keep the total pipe length", expected=str(L), found=str(new_len + old_len))
        keeps_start = unparse(rewire[0].targets[0]) == "pipe.end_node"
        want_old = L * s if keeps_start else L * (1 - s)
        chk.expect(sp.simplify(old_len - sp.expand(want_old)) == 0, "R-C19-1", "%s: the part that keeps the %s node is %s of the length" % (
            label, "start" if keeps_start else "end", "s" if keeps_start else "1 - s"), loc(sp_fn, la[0]),
                   "split_at_point is measured from the start node", expected=str(want_old), found=str(old_len))
        # new pipe's end points
        j_old = unparse(rewire[0].value)
        sn, en = unparse(args["start_node_name"]), unparse(args["end_node_name"])
        if keeps_start:
            okw = sn == "j1" and en in ("end_node.name", "end_node._name") and j_old == "wn2.get_node(j0)"
        else:
            okw = en == "j1" and sn in ("start_node.name", "start_node._name") and j_old == "wn2.get_node(j0)"
        chk.expect(okw, "R-C19-3", "%s: the old pipe is re-wired to j0 through the end-node setter and the new pipe runs between j1 and the original far node" % label, loc(sp_fn, ap[0]),
                   found="old pipe %s = %s; new pipe %s -> %s" % (unparse(rewire[0].targets[0]), j_old, sn, en))
        # R-C19-2 copied attributes
        for pname in ("diameter", "roughness"):
            chk.expect(pname in args and unparse(args[pname]) == "pipe." + pname, "R-C19-2", "%s: add_pipe parameter %s receives pipe.%s" % (label, pname, pname), loc(sp_fn, ap[0]),
                       "arguments are resolved through add_pipe's signature %s" % ap_names, expected="pipe." + pname, found=unparse(args[pname]) if pname in args else "<default>")
        # quantities that add up along the pipe are partitioned, not duplicated: K_new + K_retained = K_original (like the lengths)
        ml_old = [n for n in walk(mod) if isinstance(n, ast.Assign) and unparse(n.targets[0]) == "pipe.minor_loss"]
        k_new = S(args["minor_loss"], {}) if "minor_loss" in args else sp.Integer(0)
        k_old = S(ml_old[0].value, {}) if ml_old else sp.Symbol("pipe.minor_loss")
        chk.expect(sp.simplify(k_new + k_old - sp.Symbol("pipe.minor_loss")) == 0, "R-C19-2b",
                   "%s: the minor-loss coefficients of the two pipes add up to the original pipe's" % label, loc(sp_fn, ap[0]),
                   "minor loss is K*v^2/2g per pipe: copying K to both halves doubles it, so SPLIT changes the heads downstream although the statement says it "
                   "leaves the hydraulics of the rest of the network unchanged", expected="K_new + K_retained = pipe.minor_loss", found="%s + %s" % (k_new, k_old))
        # status: the base status is a definition attribute; pipe.status is the result of the last simulation
        st_ = args.get("initial_status")
        chk.expect(st_ is not None and unparse(st_) in ("pipe.initial_status", "pipe._initial_status"), "R-C19-2", "%s: the new pipe's base status comes from the original pipe's initial_status" % label,
                   loc(sp_fn, ap[0]), "pipe.status is the effective status after the last run / reset: a pipe that was closed during a run hands a Closed base status to the new half",
                   expected="pipe.initial_status", found=unparse(st_) if st_ is not None else "<default>")
        # for a SPLIT the two halves are in series: a closed new half without the original's controls blocks the line for good
        chk.expect(False if (st_ is not None and flag_sensitive_status(sp_fn, st_) is False) else True, "R-C19-2c",
                   "%s: a SPLIT does not put a closed, control-less pipe in series with the original" % label, loc(sp_fn, ap[0]),
                   "the new half copies the base status and gets no controls: splitting an initially closed pipe that a control opens leaves the new half closed for ever",
                   expected="Open for flag == 'SPLIT' (the original half keeps status and controls)", found=unparse(st_) if st_ is not None else "<default>")
        cv = args.get("check_valve")
        chk.expect(cv is None or const(cv, 1) is False, "R-C19-2", "%s: the new pipe gets no check valve" % label, loc(sp_fn, ap[0]),
                   "documented: 'Check valves are not added to the new pipe'", expected="False (or omitted)", found=unparse(cv) if cv is not None else "omitted")
        chk.expect(unparse(args["name"]) == "new_pipe_name", "R-C19-2", "%s: the new pipe is created under new_pipe_name" % label, loc(sp_fn, ap[0]))
    chk.floor("R-C19-2", 10)
    chk.floor("R-C19-2b", 2)

    # elevation
    el = [n for n in walk(sp_fn) if isinstance(n, ast.Assign) and unparse(n.targets[0]) == "junction_elevation"]
    if len(el) != 3:
        raise ExtractError("_split_or_break_pipe: expected three junction_elevation definitions, found %d" % len(el))
    for a in el:
        g = parent(a)
        t = unparse(g.test) if isinstance(g, ast.If) and a in g.body else "else"
        if t == "isinstance(start_node, Reservoir)":
            chk.expect(unparse(a.value) == "end_node.elevation", "R-C19-1", "elevation next to a start reservoir is the end node's elevation", loc(sp_fn, a), found=unparse(a.value))
        elif t == "isinstance(end_node, Reservoir)":
            chk.expect(unparse(a.value) == "start_node.elevation", "R-C19-1", "elevation next to an end reservoir is the start node's elevation", loc(sp_fn, a), found=unparse(a.value))
        else:
            blk = g.orelse if isinstance(g, ast.If) else sp_fn.body
            env = local_env(blk, a.lineno)
            v = sp.expand(S(a.value, env))
            e0, e1 = sp.Symbol("start_node.elevation"), sp.Symbol("end_node.elevation")
            chk.expect(sp.simplify(v - sp.expand(e0 + (e1 - e0) * s)) == 0, "R-C19-1", "junction elevation = e_start + (e_end - e_start) * s", loc(sp_fn, a), found=str(v))
    # coordinates without vertices
    jc = [n for n in walk(sp_fn) if isinstance(n, ast.Assign) and unparse(n.targets[0]) == "junction_coordinates"]
    dflt = [a for a in jc if not isinstance(a.value, ast.Tuple)]
    jc = [a for a in jc if isinstance(a.value, ast.Tuple)]
    for a in dflt:
        chk.expect(unparse(a.value) in ("pipe.start_node.coordinates", "start_node.coordinates"), "R-C19-1", "the default junction position (split at the very start) is the start node", loc(sp_fn, a),
                   found=unparse(a.value))
    if len(jc) != 2:
        raise ExtractError("expected two interpolating junction_coordinates definitions, found %d" % len(jc))
    for a in jc:
        blk = None
        q = a
        while q is not None and blk is None:
            p_ = parent(q)
            for fld in ("body", "orelse"):
                lst = getattr(p_, fld, None)
                if isinstance(lst, list) and q in lst:
                    blk = lst
            q = p_
        env = local_env(blk, a.lineno)
        xs, ys = [sp.expand(S(e, env)) for e in a.value.elts]
        if "split_at" in {n.id for n in ast.walk(a.value) if isinstance(n, ast.Name)} and "split_at_point" not in unparse(a.value):
            t = env.get("split_at")
            x0, x1 = sp.Symbol("segment['start_pos'][0]"), sp.Symbol("segment['end_pos'][0]")
            y0, y1 = sp.Symbol("segment['start_pos'][1]"), sp.Symbol("segment['end_pos'][1]")
            want_t = (sp.Symbol("split_length") - sp.Symbol("segment['subtotal']")) / sp.Symbol("segment['length']")
            chk.expect(t is not None and sp.simplify(t - want_t) == 0, "R-C19-1", "with vertices: position on the crossing segment = (split_length - subtotal) / segment length", loc(sp_fn, a), found=str(t))
            chk.expect(sp.simplify(xs - sp.expand(x0 + (x1 - x0) * want_t)) == 0 and sp.simplify(ys - sp.expand(y0 + (y1 - y0) * want_t)) == 0, "R-C19-1",
                       "with vertices: junction coordinates interpolate the crossing segment", loc(sp_fn, a), found="(%s, %s)" % (xs, ys))
            guard = parent(a)
            chk.expect(isinstance(guard, ast.If) and unparse(guard.test).replace(" ", "") == "segment['subtotal']+segment['length']>=split_length>segment['subtotal']", "R-C19-1",
                       "with vertices: the crossing segment is the one with subtotal < split_length <= subtotal + length", loc(sp_fn, a), found=unparse(guard.test) if isinstance(guard, ast.If) else None)
        else:
            x0, x1 = sp.Symbol("pipe.start_node.coordinates[0]"), sp.Symbol("pipe.end_node.coordinates[0]")
            y0, y1 = sp.Symbol("pipe.start_node.coordinates[1]"), sp.Symbol("pipe.end_node.coordinates[1]")
            chk.expect(sp.simplify(xs - sp.expand(x0 + (x1 - x0) * s)) == 0 and sp.simplify(ys - sp.expand(y0 + (y1 - y0) * s)) == 0, "R-C19-1",
                       "without vertices: junction coordinates = start + (end - start) * s", loc(sp_fn, a), found="(%s, %s)" % (xs, ys))
    sl = [n for n in walk(sp_fn) if isinstance(n, ast.Assign) and unparse(n.targets[0]) == "split_length"]
    chk.expect(bool(sl) and unparse(sl[0].value) in ("length * split_at_point", "split_at_point * length"), "R-C19-1", "with vertices: split_length = polyline length * s", loc(sp_fn), found=unparse(sl[0].value) if sl else None)
    # vertex partition: every vertex of the original pipe goes to exactly one half: the loop that distributes segment start points appends on
    # every path, and the only skipped segment is the first one BY POSITION (its start is the start node, not a vertex)
    vloops = [n for n in walk(sp_fn) if isinstance(n, ast.For) and any(last_attr(c) == "append" and unparse(c.func.value) in ("first_vertices", "last_vertices") for c in calls(n))]
    if len(vloops) != 1:
        raise ExtractError("vertex distribution loop not found")
    vl = vloops[0]
    positional = unparse(vl.iter) in ("segments[1:]", "segments[1:len(segments)]")
    gv = CFG(sp_fn) if False else None
    from ..cfg import CFG as _CFG
    gg = _CFG(sp_fn)
    head = gg.loop_heads[vl]
    apps = gg.nodes_where(lambda node, d: any(last_attr(c) == "append" and unparse(c.func.value) in ("first_vertices", "last_vertices") for c in calls(node)) and vl.lineno < node.lineno <= max(x.lineno for x in ast.walk(vl) if hasattr(x, "lineno")))
    skip_path = None
    for f0 in gg.succ_on(head, True):
        skip_path = skip_path or gg.can_reach_avoiding(f0, {head}, apps)
    if positional:
        chk.expect(skip_path is None, "R-C19-1", "every vertex after the first segment is handed to one of the two pipes", loc(sp_fn, vl), found=gg.path_text(skip_path) if skip_path else None)
    else:
        # iterating all segments: the skipping guard must test the position, not the coordinates
        guards_ = [n for n in walk(vl) if isinstance(n, ast.If) and any(isinstance(x, ast.Pass) for x in n.body)]
        by_value = [g_ for g_ in guards_ if "coordinates" in unparse(g_.test) or "start_pos" in unparse(g_.test)]
        chk.expect(not by_value and skip_path is None, "R-C19-1", "every vertex after the first segment is handed to one of the two pipes", loc(sp_fn, vl),
                   "the first segment is skipped by comparing coordinates: a genuine vertex lying on the start node (GIS exports repeat the end point) is dropped from both halves",
                   expected="skip by position (segments[1:])", found=[unparse(g_.test) for g_ in by_value] or (gg.path_text(skip_path) if skip_path else None))
    # the new junction(s) get the computed elevation and coordinates
    aj = [c for c in calls(sp_fn) if last_attr(c) == "add_junction"]
    okj = len(aj) == 1 and {k.arg: unparse(k.value) for k in aj[0].keywords}.get("elevation") == "junction_elevation" and \
        {k.arg: unparse(k.value) for k in aj[0].keywords}.get("coordinates") == "junction_coordinates"
    chk.expect(okj, "R-C19-1", "the new junction(s) are created with the interpolated elevation and coordinates", loc(sp_fn, aj[0]) if aj else loc(sp_fn))
    # definite assignment: on every path to add_junction the elevation and the coordinates have been computed
    from ..cfg import CFG
    g = CFG(sp_fn)
    usej = g.calling("add_junction")
    for var in ("junction_elevation", "junction_coordinates"):
        defs = g.assigning(var)
        okd, w = g.must_pass(g.entry, usej, defs)
        chk.expect(bool(usej) and bool(defs) and okd, "R-C19-1", "%s is assigned on every path that reaches add_junction" % var, loc(sp_fn),
                   "a path that skips every assignment raises UnboundLocalError for an admissible split_at_point", found=("path: " + g.path_text(w)[:300]) if w else None)
    # range check before any mutation
    muts = mutations(list(sp_fn.body))
    muts = [m for m in muts if not (isinstance(m[3], ast.Assign) and isinstance(m[3].targets[0], ast.Name))]
    first_mut = min(m[0] for m in muts) if muts else None
    rng = [n for n in walk(sp_fn) if isinstance(n, ast.If) and "split_at_point" in unparse(n.test) and any(isinstance(x, ast.Raise) for x in n.body)]
    okr = False
    if rng:
        t = unparse(rng[0].test).replace(" ", "")
        okr = t in ("split_at_point<0orsplit_at_point>1", "split_at_point>1orsplit_at_point<0", "not0<=split_at_point<=1") and rng[0].lineno < first_mut
    chk.expect(okr, "R-C19-1", "0 <= split_at_point <= 1 is enforced before any mutation", loc(sp_fn, rng[0]) if rng else loc(sp_fn), found=unparse(rng[0].test) if rng else None)
    chk.floor("R-C19-1", 4 + 3 + 4 + 3)

    # R-C19-3 junction names, clash checks
    fl = [n for n in sp_fn.body if isinstance(n, ast.If) and "flag" in unparse(n.test)]
    tab = {}
    for n in fl:
        cur = n
        while isinstance(cur, ast.If):
            key = const(cur.test.comparators[0]) if isinstance(cur.test, ast.Compare) else None
            tab[key] = {unparse(a.targets[0]): unparse(a.value) for a in cur.body if isinstance(a, ast.Assign)}
            cur = cur.orelse[0] if len(cur.orelse) == 1 and isinstance(cur.orelse[0], ast.If) else None
    chk.expect(tab.get("SPLIT", {}).get("j0") == tab.get("SPLIT", {}).get("j1") == "new_junction_names[0]", "R-C19-3", "SPLIT joins both pipes at one new junction", loc(sp_fn), found=tab.get("SPLIT"))
    chk.expect(tab.get("BREAK", {}).get("j0") == "new_junction_names[0]" and tab.get("BREAK", {}).get("j1") == "new_junction_names[1]", "R-C19-3",
               "BREAK ends the two pipes at two different new junctions", loc(sp_fn), found=tab.get("BREAK"))
    clashes = [n for n in walk(sp_fn) if isinstance(n, ast.If) and any(isinstance(x, ast.Raise) for x in n.body) and (" in node_list" in unparse(n.test) or " in link_list" in unparse(n.test))]
    chk.expect(len(clashes) == 2 and all(c.lineno < first_mut for c in clashes), "R-C19-3", "name clashes of the new junction(s) and the new pipe are refused before any mutation", loc(sp_fn),
               found=[unparse(c.test) for c in clashes])
    isp = [n for n in walk(sp_fn) if isinstance(n, ast.If) and unparse(n.test) == "not isinstance(pipe, Pipe)" and any(isinstance(x, ast.Raise) for x in n.body)]
    chk.expect(bool(isp) and isp[0].lineno < first_mut, "R-C19-3", "only pipes can be split (refused before mutation)", loc(sp_fn))
    for pub, flag in (("split_pipe", "SPLIT"), ("break_pipe", "BREAK")):
        pf = repo.func(LINK, pub)
        chk.fn(pf)
        cs = [c for c in calls(pf) if last_attr(c) == "_split_or_break_pipe"]
        names = params_of(sp_fn)
        b = bind_args(cs[0], names) if cs else {}
        chk.expect(bool(cs) and const(b.get("flag")) == flag and unparse(b.get("wn")) == "wn" and unparse(b.get("return_copy")) == "return_copy"
                   and unparse(b.get("split_at_point")) == "split_at_point" and unparse(b.get("add_pipe_at_end")) == "add_pipe_at_end", "R-C19-3",
                   "%s forwards its arguments to _split_or_break_pipe with flag %s" % (pub, flag), loc(pf), found={k: unparse(v) for k, v in b.items()})
        nj = b.get("new_junction_names")
        chk.expect(isinstance(nj, (ast.List, ast.Tuple)) and len(nj.elts) == (1 if flag == "SPLIT" else 2), "R-C19-3", "%s passes %d new junction name(s)" % (pub, 1 if flag == "SPLIT" else 2), loc(pf))
    chk.floor("R-C19-3", 2 + 3 + 1 + 4)

    # ---------------------------------------------------------------- R-C19-4 copy isolation
    skel_init = repo.func(SKEL, "_Skeletonize.__init__")
    rev = repo.func(LINK, "reverse_link")
    chk.fn(skel_init, rev)
    for fn, copyvar in ((sp_fn, "wn2"), (rev, "wn2"), (skel_init, "self.wn")):
        cp = [n for n in walk(fn) if isinstance(n, ast.If) and unparse(n.test) == "return_copy"]
        okc = False
        if cp:
            b = [a for a in cp[0].body if isinstance(a, ast.Assign) and unparse(a.targets[0]) == copyvar and unparse(a.value) == "copy.deepcopy(wn)"]
            e = [a for a in cp[0].orelse if isinstance(a, ast.Assign) and unparse(a.targets[0]) == copyvar and unparse(a.value) == "wn"]
            okc = len(b) == 1 and len(e) == 1
        chk.expect(okc, "R-C19-4", "%s works on copy.deepcopy(wn) when return_copy is true (else on wn itself)" % fn._qual, loc(fn), found=norm(cp[0]) if cp else None)
        # the parameter wn is used nowhere else
        uses = [n for n in walk(fn) if isinstance(n, ast.Name) and n.id == "wn" and isinstance(n.ctx, ast.Load)]
        other = [u for u in uses if not (cp and cp[0].lineno <= u.lineno <= max(x.lineno for x in ast.walk(cp[0]) if hasattr(x, "lineno")))]
        chk.expect(not other, "R-C19-4", "%s touches the caller's model only to copy it" % fn._qual, loc(fn, other[0]) if other else loc(fn),
                   "every other use of the parameter `wn` may mutate (or alias) the input model although return_copy=True promises to leave it untouched",
                   found=[norm(parent(u)) for u in other[:3]])
    # all other methods of _Skeletonize never see the original
    sk = repo.cls(SKEL, "_Skeletonize")
    for m in [n for n in sk.body if isinstance(n, ast.FunctionDef) and n.name != "__init__"]:
        bad = [n for n in walk(m) if isinstance(n, ast.Name) and n.id == "wn"]
        chk.expect(not bad, "R-C19-4", "_Skeletonize.%s works on self.wn only" % m.name, loc(SKEL, m))
    pubsk = repo.func(SKEL, "skeletonize")
    cs = [c for c in calls(pubsk) if last_attr(c) == "_Skeletonize"]
    b = bind_args(cs[0], params_of(skel_init)) if cs else {}
    chk.expect(bool(cs) and unparse(b.get("return_copy")) == "return_copy" and unparse(b.get("wn")) == "wn", "R-C19-4", "skeletonize forwards return_copy", loc(pubsk))
    chk.floor("R-C19-4", 6 + 5)

    # ---------------------------------------------------------------- R-C19-5 / R-C19-6 skeletonize removals
    n_rl = n_rn = 0
    for m in [n for n in sk.body if isinstance(n, ast.FunctionDef) and n.name in ("branch_trim", "series_pipe_merge", "parallel_pipe_merge")]:
        m._rel = SKEL
        m._qual = "_Skeletonize." + m.name
        chk.fn(m)
        for c in calls(m):
            if last_attr(c) == "remove_link" and unparse(c.func.value) == "self.wn":
                n_rl += 1
                arg = unparse(c.args[0])
                # the pipe object of this name
                pv = [a for a in walk(m) if isinstance(a, ast.Assign) and unparse(a.value) == "self.wn.get_link(%s)" % arg and a.lineno < c.lineno]
                pvar = unparse(pv[-1].targets[0]) if pv else None
                guards = [g for g in walk(m) if isinstance(g, ast.If) and g.lineno < c.lineno and any(isinstance(x, ast.Continue) for x in g.body)
                          and isinstance(g.test, ast.UnaryOp) and isinstance(g.test.op, ast.Not)]
                okg = False
                for g in guards:
                    conj = [unparse(x) for x in conjuncts(g.test.operand)]
                    if pvar and ("isinstance(%s, Pipe)" % pvar) in conj and ("%s.diameter <= pipe_threshold" % pvar) in conj and ("%s not in self.pipe_to_exclude" % arg) in conj \
                            and same_loop(g, c):
                        okg = True
                chk.expect(okg, "R-C19-5", "%s: remove_link(%s) is reached only for a Pipe with diameter <= threshold that is not excluded" % (m.name, arg), loc(m, c),
                           "skeletonize must keep pumps, valves, large pipes and every pipe named by a control or by the user", found="pipe variable %s" % pvar)
            if last_attr(c) == "remove_node" and unparse(c.func.value) == "self.wn":
                n_rn += 1
                arg = unparse(c.args[0])
                lp = enclosing_for(c)
                okn = lp is not None and unparse(lp.target) == arg and unparse(lp.iter) == "self.wn.junction_name_list"
                ex = [g for g in walk(lp) if isinstance(g, ast.If) and unparse(g.test) == "%s in self.junc_to_exclude" % arg and any(isinstance(x, ast.Continue) for x in g.body)
                      and g.lineno < c.lineno] if lp is not None else []
                chk.expect(okn and bool(ex), "R-C19-5", "%s: remove_node(%s) removes a junction of junction_name_list that is not excluded" % (m.name, arg), loc(m, c))
                # R-C19-6 demand and map moved to the same retained junction before the removal
                body = lp.body
                dl = [f for f in walk(lp) if isinstance(f, ast.For) and unparse(f.iter) == "junc.demand_timeseries_list" and f.lineno < c.lineno]
                jdef = [a for a in walk(lp) if isinstance(a, ast.Assign) and unparse(a.targets[0]) == "junc" and unparse(a.value) == "self.wn.get_node(%s)" % arg]
                recv = None
                if dl:
                    ap = [x for x in calls(dl[0]) if last_attr(x) == "append" and unparse(x.func.value).endswith(".demand_timeseries_list") and unparse(x.args[0]) == unparse(dl[0].target)]
                    recv = unparse(ap[0].func.value).rsplit(".", 1)[0] if ap else None
                mp = [x for x in calls(lp) if last_attr(x) == "extend" and unparse(x.func.value).startswith("self.skeleton_map[") and x.lineno < c.lineno
                      and unparse(x.args[0]) == "self.skeleton_map[%s]" % arg]
                mkey = unparse(mp[0].func.value)[len("self.skeleton_map["):-1] if mp else None
                clr = [a for a in walk(lp) if isinstance(a, ast.Assign) and unparse(a.targets[0]) == "self.skeleton_map[%s]" % arg and unparse(a.value) == "[]" and a.lineno < c.lineno]
                same = False
                if recv and mkey:
                    if mkey == recv + ".name":
                        same = True
                    else:
                        rd = [a for a in walk(lp) if isinstance(a, ast.Assign) and unparse(a.targets[0]) == recv and unparse(a.value) == "self.wn.get_node(%s)" % mkey]
                        same = bool(rd)
                chk.expect(bool(dl) and bool(jdef) and recv is not None, "R-C19-6", "%s: every demand entry of the removed junction is appended to a retained junction before remove_node" % m.name, loc(m, c),
                           "skeletonize conserves the total demand at every time", found="receiver %s" % recv)
                chk.expect(bool(mp) and bool(clr) and mp[0].lineno < clr[0].lineno, "R-C19-6", "%s: the skeleton map of the removed junction is handed to a retained junction and then emptied, before remove_node" % m.name, loc(m, c))
                chk.expect(same, "R-C19-6", "%s: demands and map entries go to the same retained junction" % m.name, loc(m, c), found="demands -> %s, map -> %s" % (recv, mkey))
                # the receiver is a Junction
                isj = [g for g in walk(lp) if isinstance(g, (ast.If,)) and recv and ("isinstance(%s, Junction)" % recv) in unparse(g.test) and g.lineno < c.lineno]
                sel = [a for a in walk(lp) if isinstance(a, ast.Assign) and unparse(a.targets[0]) == (recv or "")]
                okj = bool(isj) or (bool(sel) and all(any(("isinstance(%s, Junction)" % unparse(a.value)) in unparse(g.test) for g in ancestors_if(a)) for a in sel))
                chk.expect(okj, "R-C19-5", "%s: the junction that receives the demands is a Junction (never a tank or reservoir)" % m.name, loc(m, c), found=recv)
    if n_rl < 5 or n_rn < 2:
        chk.error("R-C19-5: expected at least 5 remove_link and 2 remove_node sites in _Skeletonize, found %d / %d" % (n_rl, n_rn))
    # exclusion lists and initial map (small dataflow: which names feed self.<list>)
    def feeds(attr):
        src = set()
        found = False
        for n in walk(skel_init):
            if isinstance(n, ast.Assign) and unparse(n.targets[0]) == "self." + attr:
                found = True
                src |= {x.id for x in ast.walk(n.value) if isinstance(x, ast.Name)}
            if isinstance(n, ast.Call) and isinstance(n.func, ast.Attribute) and n.func.attr in ("extend", "append", "update") and unparse(n.func.value) == "self." + attr:
                found = True
                for a in n.args:
                    src |= {x.id for x in ast.walk(a) if isinstance(x, ast.Name)}
            if isinstance(n, ast.AugAssign) and unparse(n.target) == "self." + attr:
                found = True
                src |= {x.id for x in ast.walk(n.value) if isinstance(x, ast.Name)}
        if not found:
            raise ExtractError("_Skeletonize.__init__: self.%s is never defined" % attr)
        return src
    ctl = [f for f in walk(skel_init) if isinstance(f, ast.For) and "controls()" in unparse(f.iter)]
    if not ctl:
        raise ExtractError("_Skeletonize.__init__: loop over the controls not found")
    collectors = {}      # element class -> local list name collecting req.name
    for g in walk(ctl[0]):
        if isinstance(g, ast.If) and isinstance(g.test, ast.Call) and unparse(g.test.func) == "isinstance" and len(g.test.args) == 2:
            for c in calls(ast.Module(body=g.body, type_ignores=[])):
                if last_attr(c) in ("append", "add") and isinstance(c.func.value, ast.Name) and c.args and unparse(c.args[0]).endswith(".name"):
                    collectors[unparse(g.test.args[1])] = c.func.value.id
    chk.expect("requires()" in unparse(ctl[0]) and set(collectors) >= {"Junction", "Pipe"}, "R-C19-5", "every junction and pipe required by a control is collected for exclusion", loc(skel_init),
               found=collectors)
    for attr, cls, user in (("junc_to_exclude", "Junction", "junctions_to_exclude"), ("pipe_to_exclude", "Pipe", "pipes_to_exclude")):
        f = feeds(attr)
        chk.expect(collectors.get(cls) in f and user in f, "R-C19-5", "self.%s = elements of class %s required by controls + the user's list" % (attr, cls), loc(skel_init),
                   "an element referenced by a control (or named by the user) must never be removed", expected=[collectors.get(cls), user], found=sorted(f))
    # anything else that makes NodeRegistry refuse the removal of a junction whose links are gone: non-link users of the node registry
    from .c14 import usage_sites
    node_users = set()
    for rel_ in ("wntr/network/elements.py", "wntr/network/model.py", "wntr/network/base.py"):
        for fn_ in [n for n in ast.walk(repo.tree(rel_)) if isinstance(n, ast.FunctionDef)]:
            for op, reg, tag, key, c in usage_sites(fn_):
                if op == "add_usage" and reg == "_node_reg" and tag and tag.startswith("'"):
                    node_users.add(tag.strip("'"))
    chk.sample({"rule": "R-C19-5", "non_link_users_of_nodes": sorted(node_users)})
    fj = feeds("junc_to_exclude")
    txt_feed = " ".join(unparse(n) for n in walk(skel_init) if isinstance(n, ast.Call) and isinstance(n.func, ast.Attribute) and n.func.attr in ("extend", "append")
                        and unparse(n.func.value) == "self.junc_to_exclude")
    for u in sorted(node_users):
        acc = {"Source": "sources()"}.get(u)
        chk.expect(acc is not None and acc in txt_feed, "R-C19-5", "junctions used by a %s are excluded from removal" % u, loc(skel_init),
                   "remove_node(force=True) only skips the control check: the registry still refuses a node with a usage record, after demands and pipes were already moved "
                   "(skeletonize of Net2 fails half way with RuntimeError)", expected="junc_to_exclude fed from self.wn.%s" % (acc or "?"), found=txt_feed[:200])
    mapinit = [f for f in walk(skel_init) if isinstance(f, ast.For) and unparse(f.iter) in ("self.wn.node_name_list", "self.wn.nodes()")]
    okm = False
    mvar = None
    if mapinit:
        tv = unparse(mapinit[0].target.elts[0] if isinstance(mapinit[0].target, ast.Tuple) else mapinit[0].target)
        for a in walk(mapinit[0]):
            if isinstance(a, ast.Assign) and isinstance(a.targets[0], ast.Subscript) and unparse(a.targets[0].slice) == tv and unparse(a.value) == "[%s]" % tv:
                okm = True
                mvar = unparse(a.targets[0].value)
    chk.expect(okm and any(isinstance(a, ast.Assign) and unparse(a.targets[0]) == "self.skeleton_map" and unparse(a.value) == mvar for a in walk(skel_init)) or
               (okm and mvar == "self.skeleton_map"), "R-C19-6", "the initial skeleton map is {n: [n]} for every node", loc(skel_init))
    chk.floor("R-C19-5", 5 + 2 + 2 + 2)
    chk.floor("R-C19-6", 2 * 3 + 1)

    # ---------------------------------------------------------------- R-C19-7 duration restored
    sv = [a for a in skel_init.body if isinstance(a, ast.Assign) and unparse(a.value) == "self.wn.options.time.duration"]
    st = [a for a in skel_init.body if isinstance(a, ast.Assign) and unparse(a.targets[0]) == "self.wn.options.time.duration"]
    okd = len(sv) == 1 and len(st) == 2 and const(st[0].value) == 0 and unparse(st[1].value) == unparse(sv[0].targets[0]) and sv[0].lineno < st[0].lineno < st[1].lineno
    run_ = [c for c in calls(skel_init) if last_attr(c) == "run_sim"]
    okd = okd and bool(run_) and st[0].lineno < run_[0].lineno < st[1].lineno
    chk.expect(okd, "R-C19-7", "_Skeletonize.__init__ saves the duration, sets 0 for the internal simulation and restores it afterwards (top-level statements)", loc(skel_init),
               found=[norm(a) for a in sv + st])


def conjuncts(e):
    """top-level conjuncts of a condition (nested `and` flattened; anything else is one atom)."""
    if isinstance(e, ast.BoolOp) and isinstance(e.op, ast.And):
        out = []
        for v in e.values:
            out += conjuncts(v)
        return out
    return [e]


def flag_sensitive_status(fn, status_arg):
    """True if the status argument of the new pipe depends on `flag` (e.g. Open for SPLIT); False if it is the same for SPLIT and BREAK."""
    names = {n.id for n in ast.walk(status_arg) if isinstance(n, ast.Name)}
    if "flag" in names:
        return True
    for a in walk(fn):
        if isinstance(a, ast.Assign) and isinstance(a.targets[0], ast.Name) and a.targets[0].id in names:
            g = parent(a)
            while g is not None and g is not fn:
                if isinstance(g, ast.If) and "flag" in unparse(g.test):
                    return True
                g = parent(g)
    return False


def enclosing_for(n):
    q = parent(n)
    while q is not None and not isinstance(q, ast.For):
        q = parent(q)
    # the outermost loop over junction names
    top = q
    while q is not None:
        q = parent(q)
        if isinstance(q, ast.For):
            top = q
    return top


def same_loop(a, b):
    return enclosing_for(a) is enclosing_for(b)


def ancestors_if(n):
    out = []
    q = parent(n)
    while q is not None:
        if isinstance(q, ast.If):
            out.append(q)
        q = parent(q)
    return out


WITNESSES = [
    dict(name="new-pipe-gets-check-valve", file=LINK, old="                     original_length * (1 - split_at_point), pipe.diameter,\n                     pipe.roughness, pipe.minor_loss, pipe.status, False)",
         new="                     original_length * (1 - split_at_point), pipe.diameter,\n                     pipe.roughness, pipe.minor_loss, pipe.status, pipe.check_valve)", rule="R-C19-2"),
    dict(name="lengths-swapped-at-start", file=LINK, old="        pipe.length = original_length * (1 - split_at_point)\n", new="        pipe.length = original_length * split_at_point\n", rule="R-C19-1"),
    dict(name="coordinates-undefined-at-zero", file=LINK, old="        junction_coordinates = pipe.start_node.coordinates\n", new="", rule="R-C19-1"),
    dict(name="new-pipe-gets-simulation-status", file=LINK, old="                     original_length * (1 - split_at_point), pipe.diameter,\n                     pipe.roughness, pipe.minor_loss, pipe.initial_status, False)",
         new="                     original_length * (1 - split_at_point), pipe.diameter,\n                     pipe.roughness, pipe.minor_loss, pipe.status, False)", rule="R-C19-2"),
    dict(name="first-segment-skipped-by-value", file=LINK, old="        for segment in segments[1:]:\n            if segment['subtotal'] < split_length:",
         new="        for segment in segments:\n            if segment['start_pos'] == pipe.start_node.coordinates:\n                pass\n            elif segment['subtotal'] < split_length:", rule="R-C19-1"),
    dict(name="source-junctions-not-excluded", file=SKEL, old="        self.junc_to_exclude.extend([source.node_name for name, source in self.wn.sources()])\n", new="", rule="R-C19-5"),
    dict(name="roughness-minor-loss-swapped", file=LINK, old="                     original_length * split_at_point, pipe.diameter,\n                     pipe.roughness, pipe.minor_loss,",
         new="                     original_length * split_at_point, pipe.diameter,\n                     pipe.minor_loss, pipe.roughness,", rule="R-C19-2"),
    dict(name="elevation-from-wrong-end", file=LINK, old="        junction_elevation = e0 + de * split_at_point", new="        junction_elevation = e0 + de * (1 - split_at_point)", rule="R-C19-1"),
    dict(name="split-reads-original-model", file=LINK, old="    pipe = wn2.get_link(pipe_name_to_split)", new="    pipe = wn.get_link(pipe_name_to_split)", rule="R-C19-4"),
    dict(name="break-uses-one-junction", file=LINK, old="        j1 = new_junction_names[1]", new="        j1 = new_junction_names[0]", rule="R-C19-3"),
    dict(name="trim-ignores-exclusion", file=SKEL, old="            if not ((isinstance(pipe, Pipe)) and \\\n                (pipe.diameter <= pipe_threshold) and \\\n                pipe_name not in self.pipe_to_exclude):",
         new="            if not ((isinstance(pipe, Pipe)) and \\\n                (pipe.diameter <= pipe_threshold)):", rule="R-C19-5"),
    dict(name="series-merge-threshold-or", file=SKEL, old="                ((pipe0.diameter <= pipe_threshold) and \\\n                (pipe1.diameter <= pipe_threshold)) and \\\n                pipe_name0 not in self.pipe_to_exclude and \\\n                pipe_name1 not in self.pipe_to_exclude):\n                continue\n            # Find closest",
         new="                ((pipe0.diameter <= pipe_threshold) or \\\n                (pipe1.diameter <= pipe_threshold)) and \\\n                pipe_name0 not in self.pipe_to_exclude and \\\n                pipe_name1 not in self.pipe_to_exclude):\n                continue\n            # Find closest", rule="R-C19-5"),
    dict(name="demand-moved-after-removal-dropped", file=SKEL, old="            for demand in junc.demand_timeseries_list:\n                neigh_junc.demand_timeseries_list.append(demand)\n", new="", rule="R-C19-6"),
    dict(name="map-to-other-junction", file=SKEL, old="            self.skeleton_map[closest_junc.name].extend(self.skeleton_map[junc_name])", new="            self.skeleton_map[neigh_junc_name0].extend(self.skeleton_map[junc_name])", rule="R-C19-6"),
    dict(name="duration-not-restored", file=SKEL, old="        self.wn.options.time.duration = duration\n", new="", rule="R-C19-7"),
]
