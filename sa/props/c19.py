"""C19 -- pipe splitting, breaking and skeletonization keep what they promise to keep.

Techniques (DESIGN 2b), per rule -- rules emitted: R-C19-1, -2, -2b, -2c, -3, -4, -5, -6, -7:
* T3 finite evaluation, bounded to the fixtures (R-C19-1, -2, -2b, -2c, -3 and the link.py part of -4): the functions of link.py are
  interpreted by this module's own `Interp` on a small mock model.  In 32 configurations (function x new pipe at end / start x node
  kinds x status) numbers are SV values, a sympy expression next to a sample value: BRANCHES ARE TAKEN BY THE SAMPLE (s = 0.3 or 0.7),
  the results are compared as sympy identities on that one path -- concolic, not a path enumeration.  All polyline geometry, the ends
  s = 0 / 1 and the out-of-range refusals are numeric fixtures (4 polylines x a grid of fractions for split, 5 fractions for break).
  R-C19-1 also has one T1 part: CFG must-pass for the definite assignment of the add_junction arguments.
* T2 symbolic path enumeration (class SX): _Skeletonize.__init__ for R-C19-4 (last store to self.wn compared as text, regex for a
  bare `wn`), the three merge methods for R-C19-5 (guards compared as canonical texts, no solver) and R-C19-6 (ordered events
  recognised by regex on their text).
* T1 AST pattern / text matches: the other _Skeletonize methods in R-C19-4 (no Name `wn`; return_copy forwarded).
* T3 (since session 3; init_rules): _Skeletonize.__init__ is run by the in-house interpreter (sa/concrete.py) on a mock model with two controls, a source,
  user exclusion lists and a stand-in simulator that records the duration it is run with (both simulators): the exclusion lists of R-C19-5, the initial map
  and stored head losses of R-C19-6 and the duration discipline of R-C19-7 are read off the constructed object.  Bounded to that fixture.
"""
import ast
import collections
import copy
import operator

import sympy as sp

from ..src import walk, calls, call_name, last_attr, dotted, norm, loc, const, AnchorError, ExtractError, parent, unparse
from ..peval import Unknown
from ..symx import SymExec, Opaque, rat

LINK = "wntr/morph/link.py"
SKEL = "wntr/morph/skel.py"
MODEL = "wntr/network/model.py"


# ======================================================================================================================
# A small interpreter for the Python subset the morph functions are written in.  It walks the (normalised) AST of /repo's
# functions over MOCK model objects; numbers may be SV values (a sympy expression together with a sample value: branches are
# decided by the sample, results are compared as identities).  Nothing of the repository is imported or executed: the only
# native callables ever applied are the whitelisted builtins below, methods of plain containers and the mock's own methods.
# ======================================================================================================================
class PyErr(Exception):
    """an exception raised BY THE ANALYSED CODE (explicit raise or a run-time error of an operation)."""

    def __init__(self, kind, msg="", lineno=0):
        Exception.__init__(self, "%s: %s" % (kind, msg))
        self.kind, self.msg, self.lineno = kind, msg, lineno


class _Return(Exception):
    def __init__(self, v):
        self.v = v


class _Break(Exception):
    pass


class _Continue(Exception):
    pass


class SV(object):
    """number with a symbolic twin: e (sympy expression) and v (float sample).  Tests use v, identities use e."""
    __slots__ = ("e", "v")

    def __init__(self, e, v):
        self.e, self.v = e, float(v)

    @staticmethod
    def lift(x):
        if isinstance(x, SV):
            return x
        if isinstance(x, bool):
            return SV(sp.Integer(int(x)), int(x))
        if isinstance(x, (int, float)):
            return SV(rat(x), x)
        return None

    def _bin(self, o, f, swap=False):
        o = SV.lift(o)
        if o is None:
            return NotImplemented
        a, b = (o, self) if swap else (self, o)
        return SV(f(a.e, b.e), f(a.v, b.v))

    def __add__(self, o): return self._bin(o, operator.add)
    def __radd__(self, o): return self._bin(o, operator.add, True)
    def __sub__(self, o): return self._bin(o, operator.sub)
    def __rsub__(self, o): return self._bin(o, operator.sub, True)
    def __mul__(self, o): return self._bin(o, operator.mul)
    def __rmul__(self, o): return self._bin(o, operator.mul, True)
    def __truediv__(self, o): return self._bin(o, operator.truediv)
    def __rtruediv__(self, o): return self._bin(o, operator.truediv, True)
    def __pow__(self, o): return self._bin(o, operator.pow)
    def __rpow__(self, o): return self._bin(o, operator.pow, True)
    def __neg__(self): return SV(-self.e, -self.v)
    def __pos__(self): return self
    def __abs__(self): return SV(sp.Abs(self.e), abs(self.v))
    def __float__(self): return self.v
    def __bool__(self): return bool(self.v)
    def __hash__(self): return hash(self.v)

    def _cmp(self, o, f):
        o = SV.lift(o)
        if o is None:
            return NotImplemented
        return f(self.v, o.v)

    def __lt__(self, o): return self._cmp(o, operator.lt)
    def __le__(self, o): return self._cmp(o, operator.le)
    def __gt__(self, o): return self._cmp(o, operator.gt)
    def __ge__(self, o): return self._cmp(o, operator.ge)
    def __eq__(self, o): return self._cmp(o, operator.eq)
    def __ne__(self, o):
        r = self._cmp(o, operator.ne)
        return r
    def __repr__(self): return "SV(%s ~ %g)" % (self.e, self.v)
    def __str__(self): return str(self.v)
    def __format__(self, spec): return format(self.v, spec)


class Ext(object):
    """a name imported from outside the analysed module (module, class, function), known by its dotted name only."""

    def __init__(self, dotted):
        self.dotted = dotted

    @property
    def last(self):
        return self.dotted.split(".")[-1]

    def __repr__(self):
        return "<ext %s>" % self.dotted

    def __eq__(self, o):
        return isinstance(o, Ext) and o.dotted == self.dotted

    def __hash__(self):
        return hash(self.dotted)


class Sink(object):
    """logger-like object: every attribute is a Sink, every call returns None."""

    def __getattr__(self, a):
        return self

    def __call__(self, *a, **k):
        return None


class ExcInst(object):
    def __init__(self, kind, args):
        self.kind, self.args = kind, tuple(args)

    def __str__(self):
        return str(self.args[0]) if len(self.args) == 1 else str(self.args)


class ExcClass(object):
    def __init__(self, kind):
        self.kind = kind

    def __call__(self, *args):
        return ExcInst(self.kind, args)


EXC_NAMES = ("Exception", "ValueError", "RuntimeError", "KeyError", "TypeError", "IndexError", "AttributeError", "AssertionError", "NotImplementedError",
             "ZeroDivisionError", "UnboundLocalError", "NameError", "StopIteration", "ArithmeticError", "LookupError", "OSError", "IOError", "DeprecationWarning",
             "UserWarning", "Warning")
EXC_PARENTS = {"KeyError": "LookupError", "IndexError": "LookupError", "ZeroDivisionError": "ArithmeticError", "UnboundLocalError": "NameError",
               "NotImplementedError": "RuntimeError", "IOError": "OSError"}
NATIVE_ERRORS = (TypeError, KeyError, IndexError, ZeroDivisionError, ValueError, AttributeError, StopIteration, OverflowError)


class Frame(object):
    def __init__(self, env, locals_, parent=None):
        self.env, self.locals, self.parent = env, locals_, parent


class FuncVal(object):
    """a function of the analysed module (def or lambda) closed over its defining frame; calling it interprets its body."""

    def __init__(self, node, interp, closure=None):
        self.node, self.interp, self.closure = node, interp, closure
        self.name = getattr(node, "name", "<lambda>")

    def __call__(self, *args, **kwargs):
        return self.interp.call_function(self, list(args), dict(kwargs))


def _stored_in(fn):
    """names a function binds (parameters, assignment / loop / with / except / import targets, nested defs): its locals."""
    out = set()
    a = fn.args
    for x in a.posonlyargs + a.args + a.kwonlyargs + [y for y in (a.vararg, a.kwarg) if y is not None]:
        out.add(x.arg)
    body = fn.body if isinstance(fn.body, list) else [fn.body]
    todo = list(body)
    while todo:
        n = todo.pop()
        if isinstance(n, (ast.FunctionDef, ast.AsyncFunctionDef, ast.ClassDef)):
            out.add(n.name)
            continue
        if isinstance(n, (ast.Lambda, ast.ListComp, ast.SetComp, ast.DictComp, ast.GeneratorExp)):
            continue
        if isinstance(n, ast.Name) and isinstance(n.ctx, (ast.Store, ast.Del)):
            out.add(n.id)
        elif isinstance(n, ast.ExceptHandler) and n.name:
            out.add(n.name)
        elif isinstance(n, (ast.Import, ast.ImportFrom)):
            for al in n.names:
                out.add((al.asname or al.name).split(".")[0])
        todo.extend(ast.iter_child_nodes(n))
    return out


class Interp(object):
    """interprets functions of ONE module of the analysed tree.  `world` supplies the mocks: world.external(dotted, args, kwargs),
    world.isinstance(value, classname), world.getattr / world.setattr for mock objects."""
    MAX_STEPS = 400000

    def __init__(self, repo, rel, world):
        self.repo, self.rel, self.world = repo, rel, world
        self.tree = repo.tree(rel)
        self.steps = 0
        self.modenv = {}
        self.modpending = {}
        self._cur_exc = None
        for n in self.tree.body:
            if isinstance(n, ast.Import):
                for al in n.names:
                    if al.asname:
                        self.modenv[al.asname] = Ext(al.name)
                    else:
                        self.modenv[al.name.split(".")[0]] = Ext(al.name.split(".")[0])
            elif isinstance(n, ast.ImportFrom):
                for al in n.names:
                    self.modenv[al.asname or al.name] = Ext(((n.module or "") + "." + al.name).lstrip("."))
            elif isinstance(n, ast.FunctionDef):
                self.modenv[n.name] = FuncVal(n, self)
            elif isinstance(n, ast.Assign) and len(n.targets) == 1 and isinstance(n.targets[0], ast.Name):
                self.modpending[n.targets[0].id] = n.value
        self.modframe = Frame(self.modenv, set(), None)
        self.builtins = {
            "len": len, "range": range, "zip": zip, "sum": sum, "abs": abs, "min": min, "max": max, "int": int, "str": str, "bool": bool, "list": list,
            "tuple": tuple, "dict": dict, "set": set, "sorted": sorted, "reversed": reversed, "enumerate": enumerate, "any": any, "all": all, "round": round,
            "repr": repr, "map": lambda f, *its: list(map(f, *its)), "filter": lambda f, it: list(filter(f, it)), "print": lambda *a, **k: None,
            "float": lambda x=0.0: x if isinstance(x, SV) else float(x), "True": True, "False": False, "None": None, "__name__": rel[:-3].replace("/", "."),
            "isinstance": self._isinstance, "divmod": divmod, "pow": pow, "iter": iter, "next": next, "object": object,
        }
        for k in EXC_NAMES:
            self.builtins[k] = ExcClass(k)

    # ------------------------------------------------------------------------------------------------ helpers
    def unsupported(self, what, n=None):
        raise Unknown("interpreter: %s%s" % (what, " (%s line %s)" % (self.rel, n.lineno) if n is not None and hasattr(n, "lineno") else ""))

    def tick(self, n=None):
        self.steps += 1
        if self.steps > self.MAX_STEPS:
            self.unsupported("step limit reached", n)

    def native(self, f, n, *args, **kwargs):
        try:
            return f(*args, **kwargs)
        except NATIVE_ERRORS as e:
            raise PyErr(type(e).__name__, str(e), getattr(n, "lineno", 0))

    def _isinstance(self, v, c):
        if isinstance(c, (tuple, list)):
            return any(self._isinstance(v, x) for x in c)
        if isinstance(c, type):
            if isinstance(v, SV):
                return c in (float, object) or (c is int and False)
            return isinstance(v, c)
        if isinstance(c, Ext):
            return self.world.isinstance(v, c.last)
        if isinstance(c, ExcClass):
            return isinstance(v, ExcInst) and self.exc_matches(v.kind, c.kind)
        self.unsupported("isinstance against %r" % (c,))

    def exc_matches(self, kind, want):
        if want in ("Exception", "BaseException"):
            return True
        k = kind
        while k is not None:
            if k == want:
                return True
            k = EXC_PARENTS.get(k)
        return False

    def lookup(self, name, fr, n=None):
        f = fr
        while f is not None:
            if name in f.env:
                return f.env[name]
            if name in f.locals and f is not self.modframe:
                raise PyErr("UnboundLocalError", "local variable %r referenced before assignment" % name, getattr(n, "lineno", 0))
            f = f.parent
        if name in self.modenv:
            return self.modenv[name]
        if name in self.modpending:
            expr = self.modpending.pop(name)
            self.modenv[name] = self.ev(expr, self.modframe)
            return self.modenv[name]
        if name in self.builtins:
            return self.builtins[name]
        raise PyErr("NameError", "name %r is not defined" % name, getattr(n, "lineno", 0))

    # -------------------------------------------------------------------------------------------- expressions
    def ev(self, n, fr):
        self.tick(n)
        m = getattr(self, "e_" + type(n).__name__, None)
        if m is None:
            self.unsupported("expression %s" % type(n).__name__, n)
        return m(n, fr)

    def e_Constant(self, n, fr):
        return n.value

    def e_Name(self, n, fr):
        return self.lookup(n.id, fr, n)

    def e_Attribute(self, n, fr):
        base = self.ev(n.value, fr)
        return self.getattr(base, n.attr, n)

    def getattr(self, base, attr, n=None):
        if isinstance(base, Ext):
            if base.last == "LinkStatus":
                return EnumTok("LinkStatus." + attr)
            return Ext(base.dotted + "." + attr)
        if isinstance(base, Sink):
            return base
        if isinstance(base, MObj):
            return self.world.getattr(base, attr, n)
        if isinstance(base, ExcInst):
            if attr == "args":
                return base.args
            raise PyErr("AttributeError", attr, getattr(n, "lineno", 0))
        if isinstance(base, (list, tuple, dict, str, set, frozenset)) and not attr.startswith("__"):
            return self.native(getattr, n, base, attr)
        if isinstance(base, SV) and attr in ("real",):
            return base
        raise PyErr("AttributeError", "%s object has no attribute %r" % (type(base).__name__, attr), getattr(n, "lineno", 0))

    def e_Subscript(self, n, fr):
        base = self.ev(n.value, fr)
        key = self.ev(n.slice, fr)
        if isinstance(base, (list, tuple, dict, str)):
            if isinstance(key, SV):
                key = key.v if not float(key.v).is_integer() else int(key.v)
            return self.native(operator.getitem, n, base, key)
        if isinstance(base, MObj):
            return self.world.getitem(base, key, n)
        self.unsupported("subscript of %s" % type(base).__name__, n)

    def e_Slice(self, n, fr):
        return slice(*[self.ev(x, fr) if x is not None else None for x in (n.lower, n.upper, n.step)])

    def _elts(self, elts, fr):
        out = []
        for e in elts:
            if isinstance(e, ast.Starred):
                out.extend(self.iterate(self.ev(e.value, fr), e))
            else:
                out.append(self.ev(e, fr))
        return out

    def e_List(self, n, fr):
        return self._elts(n.elts, fr)

    def e_Tuple(self, n, fr):
        return tuple(self._elts(n.elts, fr))

    def e_Set(self, n, fr):
        return set(self._elts(n.elts, fr))

    def e_Dict(self, n, fr):
        out = {}
        for k, v in zip(n.keys, n.values):
            if k is None:
                out.update(self.ev(v, fr))
            else:
                out[self.ev(k, fr)] = self.ev(v, fr)
        return out

    def e_JoinedStr(self, n, fr):
        return "".join(self.ev(v, fr) for v in n.values)

    def e_FormattedValue(self, n, fr):
        v = self.ev(n.value, fr)
        if n.conversion == ord("r"):
            v = repr(v)
        elif n.conversion == ord("s"):
            v = str(v)
        spec = self.ev(n.format_spec, fr) if n.format_spec is not None else ""
        return self.native(format, n, v, spec)

    def truth(self, v):
        if isinstance(v, MObj):
            return self.world.truth(v)
        return bool(v)

    def e_UnaryOp(self, n, fr):
        v = self.ev(n.operand, fr)
        if isinstance(n.op, ast.Not):
            return not self.truth(v)
        if isinstance(n.op, ast.USub):
            return self.native(operator.neg, n, v)
        if isinstance(n.op, ast.UAdd):
            return self.native(operator.pos, n, v)
        self.unsupported("unary operator", n)

    BINOPS = {ast.Add: operator.add, ast.Sub: operator.sub, ast.Mult: operator.mul, ast.Div: operator.truediv, ast.Pow: operator.pow, ast.Mod: operator.mod,
              ast.FloorDiv: operator.floordiv}

    def binop(self, op, a, b, n):
        f = self.BINOPS.get(type(op))
        if f is None:
            self.unsupported("binary operator %s" % type(op).__name__, n)
        if isinstance(a, (MObj, Ext, Sink, FuncVal)) or isinstance(b, (MObj, Ext, Sink, FuncVal)):
            raise PyErr("TypeError", "unsupported operand", getattr(n, "lineno", 0))
        if isinstance(op, ast.Pow) and not isinstance(a, SV) and not isinstance(b, SV) and isinstance(a, (int, float)) and a < 0 and isinstance(b, float) and not b.is_integer():
            raise PyErr("ValueError", "negative number to a fractional power", getattr(n, "lineno", 0))
        return self.native(f, n, a, b)

    def e_BinOp(self, n, fr):
        return self.binop(n.op, self.ev(n.left, fr), self.ev(n.right, fr), n)

    def e_BoolOp(self, n, fr):
        isand = isinstance(n.op, ast.And)
        v = None
        for x in n.values:
            v = self.ev(x, fr)
            t = self.truth(v)
            if isand and not t:
                return v
            if not isand and t:
                return v
        return v

    def e_IfExp(self, n, fr):
        return self.ev(n.body, fr) if self.truth(self.ev(n.test, fr)) else self.ev(n.orelse, fr)

    def compare(self, op, a, b, n):
        if isinstance(op, ast.Is):
            return a is b or (type(a) in (bool, int, str, type(None)) and type(a) is type(b) and a == b)
        if isinstance(op, ast.IsNot):
            return not self.compare(ast.Is(), a, b, n)
        if isinstance(op, ast.In):
            if isinstance(b, MObj):
                return self.world.contains(b, a, n)
            return self.native(lambda: any(self.equal(a, x) for x in b) if not isinstance(b, (dict, set, frozenset, str)) else a in b, n)
        if isinstance(op, ast.NotIn):
            return not self.compare(ast.In(), a, b, n)
        if isinstance(op, ast.Eq):
            return self.equal(a, b)
        if isinstance(op, ast.NotEq):
            return not self.equal(a, b)
        f = {ast.Lt: operator.lt, ast.LtE: operator.le, ast.Gt: operator.gt, ast.GtE: operator.ge}[type(op)]
        if isinstance(a, (MObj, Ext, type(None))) or isinstance(b, (MObj, Ext, type(None))):
            raise PyErr("TypeError", "ordering comparison of %s and %s" % (type(a).__name__, type(b).__name__), getattr(n, "lineno", 0))
        return self.native(f, n, a, b)

    def equal(self, a, b):
        if isinstance(a, MObj) or isinstance(b, MObj):
            return a is b
        try:
            return bool(a == b)
        except NATIVE_ERRORS:
            return False

    def e_Compare(self, n, fr):
        left = self.ev(n.left, fr)
        for op, rn in zip(n.ops, n.comparators):
            right = self.ev(rn, fr)
            if not self.compare(op, left, right, n):
                return False
            left = right
        return True

    def e_Lambda(self, n, fr):
        return FuncVal(n, self, fr)

    def _comp(self, gens, fr, emit):
        def rec(i, f):
            if i == len(gens):
                emit(f)
                return
            g = gens[i]
            for x in self.iterate(self.ev(g.iter, f), g.iter):
                self.tick(g.iter)
                self.assign(g.target, x, f, g.iter)
                if all(self.truth(self.ev(c, f)) for c in g.ifs):
                    rec(i + 1, f)
        targets = set()
        for g in gens:
            targets |= {x.id for x in ast.walk(g.target) if isinstance(x, ast.Name)}
        rec(0, Frame({}, targets, fr))

    def e_ListComp(self, n, fr):
        out = []
        self._comp(n.generators, fr, lambda f: out.append(self.ev(n.elt, f)))
        return out

    e_GeneratorExp = e_ListComp

    def e_SetComp(self, n, fr):
        return set(self.e_ListComp(n, fr))

    def e_DictComp(self, n, fr):
        out = {}

        def emit(f):
            k = self.ev(n.key, f)
            out[k] = self.ev(n.value, f)
        self._comp(n.generators, fr, emit)
        return out

    def iterate(self, v, n=None):
        if isinstance(v, MObj):
            return self.world.iterate(v, n)
        if isinstance(v, (list, tuple, dict, str, set, frozenset, range, zip, enumerate, reversed)) or hasattr(v, "__next__"):
            return list(v)
        if isinstance(v, type({}.keys())) or isinstance(v, type({}.values())) or isinstance(v, type({}.items())):
            return list(v)
        raise PyErr("TypeError", "%s object is not iterable" % type(v).__name__, getattr(n, "lineno", 0))

    def e_Call(self, n, fr):
        f = self.ev(n.func, fr)
        args = []
        for a in n.args:
            if isinstance(a, ast.Starred):
                args.extend(self.iterate(self.ev(a.value, fr), a))
            else:
                args.append(self.ev(a, fr))
        kwargs = {}
        for k in n.keywords:
            if k.arg is None:
                kwargs.update(self.ev(k.value, fr))
            else:
                kwargs[k.arg] = self.ev(k.value, fr)
        return self.apply(f, args, kwargs, n)

    def apply(self, f, args, kwargs, n=None):
        if isinstance(f, FuncVal):
            return self.call_function(f, args, kwargs, n)
        if isinstance(f, Ext):
            return self.world.external(f.dotted, args, kwargs, self, n)
        if isinstance(f, Sink):
            return None
        if callable(f):
            r = self.native(f, n, *args, **kwargs)
            if isinstance(r, (zip, range, enumerate, reversed, map, filter)) or hasattr(r, "__next__"):
                r = list(r) if not isinstance(r, range) else r
            return r
        raise PyErr("TypeError", "%s object is not callable" % type(f).__name__, getattr(n, "lineno", 0))

    def call_function(self, fv, args, kwargs, n=None):
        node = fv.node
        a = node.args
        env = {}
        params = [x.arg for x in a.posonlyargs + a.args]
        if len(args) > len(params) and a.vararg is None:
            raise PyErr("TypeError", "%s() takes %d positional arguments but %d were given" % (fv.name, len(params), len(args)), getattr(n, "lineno", 0))
        for p, v in zip(params, args):
            env[p] = v
        if a.vararg is not None:
            env[a.vararg.arg] = tuple(args[len(params):])
        kwonly = [x.arg for x in a.kwonlyargs]
        extra = {}
        for k, v in kwargs.items():
            if k in env:
                raise PyErr("TypeError", "%s() got multiple values for argument %r" % (fv.name, k), getattr(n, "lineno", 0))
            if k in params or k in kwonly:
                env[k] = v
            elif a.kwarg is not None:
                extra[k] = v
            else:
                raise PyErr("TypeError", "%s() got an unexpected keyword argument %r" % (fv.name, k), getattr(n, "lineno", 0))
        if a.kwarg is not None:
            env[a.kwarg.arg] = extra
        defframe = fv.closure or self.modframe
        for p, d in zip(params[len(params) - len(a.defaults):], a.defaults):
            if p not in env:
                env[p] = self.ev(d, defframe)
        for p, d in zip(kwonly, a.kw_defaults):
            if p not in env and d is not None:
                env[p] = self.ev(d, defframe)
        missing = [p for p in params + kwonly if p not in env]
        if missing:
            raise PyErr("TypeError", "%s() missing arguments %s" % (fv.name, missing), getattr(n, "lineno", 0))
        fr = Frame(env, _stored_in(node), fv.closure or self.modframe)
        if isinstance(node, ast.Lambda):
            return self.ev(node.body, fr)
        try:
            self.block(node.body, fr)
        except _Return as r:
            return r.v
        return None

    # --------------------------------------------------------------------------------------------- statements
    def block(self, stmts, fr):
        for s in stmts:
            self.stmt(s, fr)

    def stmt(self, s, fr):
        self.tick(s)
        m = getattr(self, "s_" + type(s).__name__, None)
        if m is None:
            self.unsupported("statement %s" % type(s).__name__, s)
        m(s, fr)

    def s_Expr(self, s, fr):
        if not isinstance(s.value, ast.Constant):
            self.ev(s.value, fr)

    def s_Pass(self, s, fr):
        pass

    def s_Assign(self, s, fr):
        v = self.ev(s.value, fr)
        for t in s.targets:
            self.assign(t, v, fr, s)

    def s_AnnAssign(self, s, fr):
        if s.value is not None:
            self.assign(s.target, self.ev(s.value, fr), fr, s)

    def s_AugAssign(self, s, fr):
        t = s.target
        if isinstance(t, ast.Name):
            cur = self.lookup(t.id, fr, s)
            if isinstance(cur, list) and isinstance(s.op, ast.Add):
                cur.extend(self.iterate(self.ev(s.value, fr), s))      # in-place, like list.__iadd__
                return
            self.assign(t, self.binop(s.op, cur, self.ev(s.value, fr), s), fr, s)
            return
        load = copy.copy(t)
        load.ctx = ast.Load()
        cur = self.ev(load, fr)
        if isinstance(cur, list) and isinstance(s.op, ast.Add):
            cur.extend(self.iterate(self.ev(s.value, fr), s))
            return
        self.assign(t, self.binop(s.op, cur, self.ev(s.value, fr), s), fr, s)

    def assign(self, t, v, fr, s=None):
        if isinstance(t, ast.Name):
            fr.env[t.id] = v
            return
        if isinstance(t, (ast.Tuple, ast.List)):
            vals = self.iterate(v, s)
            star = [i for i, e in enumerate(t.elts) if isinstance(e, ast.Starred)]
            if star:
                i = star[0]
                rest = len(t.elts) - i - 1
                if len(vals) < len(t.elts) - 1:
                    raise PyErr("ValueError", "not enough values to unpack", getattr(s, "lineno", 0))
                parts = vals[:i] + [vals[i:len(vals) - rest]] + vals[len(vals) - rest:]
                for e, x in zip(t.elts, parts):
                    self.assign(e.value if isinstance(e, ast.Starred) else e, x, fr, s)
                return
            if len(vals) != len(t.elts):
                raise PyErr("ValueError", "cannot unpack %d values into %d targets" % (len(vals), len(t.elts)), getattr(s, "lineno", 0))
            for e, x in zip(t.elts, vals):
                self.assign(e, x, fr, s)
            return
        if isinstance(t, ast.Attribute):
            base = self.ev(t.value, fr)
            if isinstance(base, MObj):
                self.world.setattr(base, t.attr, v, s)
                return
            if isinstance(base, Sink):
                return
            raise PyErr("AttributeError", "cannot set %s on %s" % (t.attr, type(base).__name__), getattr(s, "lineno", 0))
        if isinstance(t, ast.Subscript):
            base = self.ev(t.value, fr)
            key = self.ev(t.slice, fr)
            if isinstance(base, (list, dict)):
                self.native(operator.setitem, s, base, key, v)
                return
            if isinstance(base, MObj):
                self.world.setitem(base, key, v, s)
                return
            raise PyErr("TypeError", "%s does not support item assignment" % type(base).__name__, getattr(s, "lineno", 0))
        self.unsupported("assignment target %s" % type(t).__name__, s)

    def s_If(self, s, fr):
        self.block(s.body if self.truth(self.ev(s.test, fr)) else s.orelse, fr)

    def s_For(self, s, fr):
        broke = False
        for x in self.iterate(self.ev(s.iter, fr), s):
            self.tick(s)
            self.assign(s.target, x, fr, s)
            try:
                self.block(s.body, fr)
            except _Break:
                broke = True
                break
            except _Continue:
                continue
        if not broke:
            self.block(s.orelse, fr)

    def s_While(self, s, fr):
        broke = False
        while self.truth(self.ev(s.test, fr)):
            self.tick(s)
            try:
                self.block(s.body, fr)
            except _Break:
                broke = True
                break
            except _Continue:
                continue
        if not broke:
            self.block(s.orelse, fr)

    def s_Break(self, s, fr):
        raise _Break()

    def s_Continue(self, s, fr):
        raise _Continue()

    def s_Return(self, s, fr):
        raise _Return(self.ev(s.value, fr) if s.value is not None else None)

    def s_Raise(self, s, fr):
        if s.exc is None:
            if self._cur_exc is not None:
                raise self._cur_exc
            raise PyErr("RuntimeError", "No active exception to reraise", s.lineno)
        v = self.ev(s.exc, fr)
        if isinstance(v, ExcClass):
            v = v()
        if not isinstance(v, ExcInst):
            raise PyErr("TypeError", "exceptions must derive from BaseException", s.lineno)
        e = PyErr(v.kind, str(v), s.lineno)
        e.inst = v
        e.explicit = True
        raise e

    def s_Assert(self, s, fr):
        if not self.truth(self.ev(s.test, fr)):
            e = PyErr("AssertionError", str(self.ev(s.msg, fr)) if s.msg is not None else "", s.lineno)
            e.explicit = True
            raise e

    def s_Delete(self, s, fr):
        for t in s.targets:
            if isinstance(t, ast.Name):
                self.lookup(t.id, fr, s)
                fr.env.pop(t.id, None)
            elif isinstance(t, ast.Subscript):
                base = self.ev(t.value, fr)
                key = self.ev(t.slice, fr)
                if isinstance(base, (list, dict)):
                    self.native(operator.delitem, s, base, key)
                else:
                    self.unsupported("del of a subscript of %s" % type(base).__name__, s)
            else:
                self.unsupported("del target", s)

    def s_Try(self, s, fr):
        try:
            try:
                self.block(s.body, fr)
            except PyErr as e:
                for h in s.handlers:
                    if h.type is None:
                        ok = True
                    else:
                        c = self.ev(h.type, fr)
                        cs = c if isinstance(c, (tuple, list)) else [c]
                        ok = any(isinstance(x, ExcClass) and self.exc_matches(e.kind, x.kind) for x in cs)
                    if ok:
                        if h.name:
                            fr.env[h.name] = getattr(e, "inst", ExcInst(e.kind, (e.msg,)))
                        prev, self._cur_exc = self._cur_exc, e
                        try:
                            self.block(h.body, fr)
                        finally:
                            self._cur_exc = prev
                        break
                else:
                    raise
            else:
                self.block(s.orelse, fr)
        finally:
            if s.finalbody:
                self.block(s.finalbody, fr)

    def s_FunctionDef(self, s, fr):
        if s.decorator_list:
            self.unsupported("decorated nested function", s)
        fr.env[s.name] = FuncVal(s, self, fr)

    def s_Import(self, s, fr):
        for al in s.names:
            if al.asname:
                fr.env[al.asname] = Ext(al.name)
            else:
                fr.env[al.name.split(".")[0]] = Ext(al.name.split(".")[0])

    def s_ImportFrom(self, s, fr):
        for al in s.names:
            fr.env[al.asname or al.name] = Ext(((s.module or "") + "." + al.name).lstrip("."))


# ======================================================================================================================
# Mock water network for wntr/morph/link.py: the facts about WaterNetworkModel the rules rely on (lookup by name, add_junction /
# add_pipe bound through THEIR signatures in wntr/network/model.py, deepcopy shares nothing) and a log of every mutation.
# ======================================================================================================================
class MObj(object):
    def __init__(self, cls, attrs=None, owner=None, label=None):
        self.cls, self.attrs, self.owner, self.label = cls, dict(attrs or {}), owner, label

    def __repr__(self):
        return "<%s %s>" % (self.cls, self.label or self.attrs.get("name", "?"))


class EnumTok(object):
    def __init__(self, name):
        self.name = {"linkstatus.opened": "LinkStatus.Open"}.get(name.lower(), name)

    def __eq__(self, o):
        return isinstance(o, EnumTok) and o.name.lower() == self.name.lower()

    def __hash__(self):
        return hash(self.name.lower())

    def __repr__(self):
        return self.name


class OwnedList(list):
    """list stored in a model element: in-place changes are mutations of that element."""
    world = None
    holder = None

    def _log(self):
        if self.world is not None:
            self.world.log("listmut", self.holder, "vertices", None)

    def append(self, x): self._log(); list.append(self, x)
    def extend(self, x): self._log(); list.extend(self, x)
    def insert(self, i, x): self._log(); list.insert(self, i, x)
    def pop(self, *a): self._log(); return list.pop(self, *a)
    def remove(self, x): self._log(); list.remove(self, x)
    def clear(self): self._log(); list.clear(self)
    def sort(self, *a, **k): self._log(); list.sort(self, *a, **k)
    def reverse(self): self._log(); list.reverse(self)
    def __setitem__(self, i, x): self._log(); list.__setitem__(self, i, x)
    def __delitem__(self, i): self._log(); list.__delitem__(self, i)
    def __iadd__(self, x): self._log(); return list.__iadd__(self, x)


class Registry(MObj):
    """wn.nodes / wn.links: callable (-> (name, object) pairs), mapping by name."""

    def __init__(self, model, which):
        MObj.__init__(self, "Registry", owner=model, label=which)
        self.model, self.which = model, which

    def table(self):
        return self.model.attrs["_" + self.which]

    def __call__(self, *types):
        return [(k, v) for k, v in self.table().items()]


CLASS_PARENTS = {"Junction": ("Node",), "Tank": ("Node",), "Reservoir": ("Node",), "Pipe": ("Link",), "Pump": ("Link",), "HeadPump": ("Pump", "Link"),
                 "PowerPump": ("Pump", "Link"), "Valve": ("Link",), "PRValve": ("Valve", "Link"), "TCValve": ("Valve", "Link"), "WaterNetworkModel": ()}
NODE_ATTRS = ("name", "elevation", "coordinates", "node_type", "tag", "initial_quality", "base_head", "base_demand", "demand_pattern")
LINK_ATTRS = ("name", "length", "diameter", "roughness", "minor_loss", "initial_status", "status", "check_valve", "vertices", "start_node", "end_node",
              "link_type", "tag", "initial_setting", "bulk_coeff", "wall_coeff")
LINK_STATUS_NAMES = {"open": "LinkStatus.Open", "opened": "LinkStatus.Open", "closed": "LinkStatus.Closed", "cv": "LinkStatus.CV", "active": "LinkStatus.Active"}


def signature(fn):
    """[(param, default AST or None)] without self."""
    a = fn.args
    ps = [x.arg for x in a.args]
    ds = [None] * (len(ps) - len(a.defaults)) + list(a.defaults)
    return [(p, d) for p, d in zip(ps, ds) if p != "self"]


class LinkWorld(object):
    def __init__(self, repo):
        self.sig = {"add_pipe": signature(repo.func(MODEL, "WaterNetworkModel.add_pipe")), "add_junction": signature(repo.func(MODEL, "WaterNetworkModel.add_junction"))}
        self.events = []          # (kind, object, attribute, value)
        self.copies = {}          # id(original model) -> [copies]
        self.models = []

    # ---------------------------------------------------------------------------------------------- building
    def log(self, kind, obj, attr, value):
        self.events.append((kind, obj, attr, value))

    def mutations(self):
        return [e for e in self.events if e[0] != "deepcopy"]

    def model(self):
        m = MObj("WaterNetworkModel", {"_nodes": {}, "_links": {}}, label="wn#%d" % len(self.models))
        m.owner = m
        self.models.append(m)
        return m

    def node(self, m, cls, name, elevation, coordinates):
        a = {"name": name, "coordinates": coordinates, "node_type": cls, "tag": None, "initial_quality": None}
        if cls != "Reservoir":
            a["elevation"] = elevation
        else:
            a["base_head"] = elevation
        o = MObj(cls, a, m, name)
        m.attrs["_nodes"][name] = o
        return o

    def link(self, m, cls, name, start, end, **attrs):
        a = {"name": name, "start_node": m.attrs["_nodes"][start], "end_node": m.attrs["_nodes"][end], "link_type": cls, "tag": None,
             "initial_status": EnumTok("LinkStatus.Open"), "status": EnumTok("LinkStatus.Open"), "initial_setting": None}
        a.update(attrs)
        o = MObj(cls, a, m, name)
        vl = OwnedList(a.get("vertices", []))
        vl.world, vl.holder = self, o
        a["vertices"] = o.attrs["vertices"] = vl
        m.attrs["_links"][name] = o
        return o

    def deepcopy(self, m):
        c = self.model()
        c.label = "copy of " + m.label
        mp = {}
        for k, o in m.attrs["_nodes"].items():
            mp[id(o)] = c.attrs["_nodes"][k] = MObj(o.cls, dict(o.attrs), c, o.label)
        for k, o in m.attrs["_links"].items():
            a = dict(o.attrs)
            a["start_node"], a["end_node"] = mp[id(a["start_node"])], mp[id(a["end_node"])]
            n = MObj(o.cls, a, c, o.label)
            vl = OwnedList(list(a["vertices"]))
            vl.world, vl.holder = self, n
            n.attrs["vertices"] = vl
            c.attrs["_links"][k] = n
        self.copies.setdefault(id(m), []).append(c)
        self.log("deepcopy", m, None, c)
        return c

    # ------------------------------------------------------------------------------------- interpreter hooks
    def isinstance(self, v, clsname):
        if isinstance(v, EnumTok):
            return clsname == "LinkStatus"
        if not isinstance(v, MObj):
            return False
        return v.cls == clsname or clsname in CLASS_PARENTS.get(v.cls, ())

    def truth(self, v):
        return True

    def external(self, dotted, args, kwargs, interp, n):
        last = dotted.split(".")[-1]
        if dotted == "copy.deepcopy" and len(args) >= 1:
            if isinstance(args[0], MObj):
                if args[0].cls != "WaterNetworkModel":
                    interp.unsupported("deepcopy of a %s" % args[0].cls, n)
                return self.deepcopy(args[0])
            return interp.native(copy.deepcopy, n, args[0])
        if dotted == "logging.getLogger":
            return Sink()
        if dotted.startswith(("logging.", "warnings.")):
            return None
        if dotted == "collections.namedtuple":
            return interp.native(collections.namedtuple, n, *args, **kwargs)
        if dotted in ("math.sqrt", "numpy.sqrt") and len(args) == 1:
            return interp.binop(ast.Pow(), args[0], 0.5, n)
        if dotted in ("math.hypot", "numpy.hypot") and len(args) == 2:
            return interp.binop(ast.Pow(), interp.binop(ast.Add(), interp.binop(ast.Pow(), args[0], 2, n), interp.binop(ast.Pow(), args[1], 2, n), n), 0.5, n)
        if dotted in ("math.fabs", "numpy.abs", "numpy.absolute") and len(args) == 1:
            return interp.native(abs, n, args[0])
        if dotted == "math.isnan" and len(args) == 1:
            return float(args[0]) != float(args[0])
        if dotted == "math.fsum" and len(args) == 1:
            return interp.native(sum, n, interp.iterate(args[0], n))
        if dotted == "itertools.accumulate" and len(args) == 1:
            out, acc = [], None
            for x in interp.iterate(args[0], n):
                acc = x if acc is None else interp.binop(ast.Add(), acc, x, n)
                out.append(acc)
            return out
        if dotted in ("itertools.chain",):
            out = []
            for a in args:
                out.extend(interp.iterate(a, n))
            return out
        if last in CLASS_PARENTS or last == "LinkStatus":
            interp.unsupported("construction of a %s" % last, n)
        interp.unsupported("call of %s is not modelled" % dotted, n)

    def getattr(self, o, attr, n):
        ln = getattr(n, "lineno", 0)
        if isinstance(o, Registry):
            if attr in ("keys", "values", "items"):
                t = o.table()
                return {"keys": lambda: list(t.keys()), "values": lambda: list(t.values()), "items": lambda: list(t.items())}[attr]
            raise Unknown("interpreter: registry attribute %s is not modelled" % attr)
        if o.cls == "WaterNetworkModel":
            return self.model_attr(o, attr, n)
        a = attr[1:] if attr.startswith("_") and not attr.startswith("__") and attr[1:] in o.attrs else attr     # private twin of a public field
        if a in o.attrs:
            return o.attrs[a]
        if a in ("start_node_name", "end_node_name") and a[:-5] in o.attrs:
            return o.attrs[a[:-5]].attrs["name"]
        if a == "cv" and "check_valve" in o.attrs:
            return o.attrs["check_valve"]
        known = NODE_ATTRS if "Node" in CLASS_PARENTS.get(o.cls, ()) else LINK_ATTRS
        if a in known:
            raise PyErr("AttributeError", "%s object has no attribute %r" % (o.cls, attr), ln)
        raise Unknown("interpreter: attribute %s of a %s is not modelled (%s line %s)" % (attr, o.cls, LINK, ln))

    def setattr(self, o, attr, v, n):
        if o.cls in ("WaterNetworkModel", "Registry"):
            raise Unknown("interpreter: store to %s.%s is not modelled" % (o.cls, attr))
        self.log("store", o, attr, v)
        a = attr[1:] if attr.startswith("_") and attr[1:] in o.attrs else attr
        if a == "vertices" and isinstance(v, list) and not isinstance(v, OwnedList):
            v2 = OwnedList(v)
            v2.world, v2.holder = self, o
            v = v2
        o.attrs[a] = v

    def getitem(self, o, key, n):
        if isinstance(o, Registry):
            if key in o.table():
                return o.table()[key]
            raise PyErr("KeyError", repr(key), getattr(n, "lineno", 0))
        raise Unknown("interpreter: subscript of a %s is not modelled" % o.cls)

    def setitem(self, o, key, v, n):
        raise Unknown("interpreter: item store into a %s is not modelled" % o.cls)

    def contains(self, o, x, n):
        if isinstance(o, Registry):
            return x in o.table()
        raise Unknown("interpreter: membership test on a %s is not modelled" % o.cls)

    def iterate(self, o, n):
        if isinstance(o, Registry):
            return list(o.table().keys())
        raise PyErr("TypeError", "%s object is not iterable" % o.cls, getattr(n, "lineno", 0))

    # ------------------------------------------------------------------------------------------- model facade
    def bind(self, which, args, kwargs, interp):
        sig = self.sig[which]
        out = {}
        if len(args) > len(sig):
            raise PyErr("TypeError", "%s() takes at most %d arguments" % (which, len(sig)))
        for (p, d), v in zip(sig, args):
            out[p] = v
        for k, v in kwargs.items():
            if k in out or k not in [p for p, d in sig]:
                raise PyErr("TypeError", "%s() got an unexpected or repeated argument %r" % (which, k))
            out[k] = v
        given = set(out)
        for p, d in sig:
            if p not in out:
                if d is None:
                    raise PyErr("TypeError", "%s() missing argument %r" % (which, p))
                out[p] = const(d, None) if not isinstance(d, ast.Constant) else d.value
        return out, given

    def model_attr(self, m, attr, n):
        nodes, links = m.attrs["_nodes"], m.attrs["_links"]
        ln = getattr(n, "lineno", 0)

        def by_cls(tab, cls):
            return [(k, o) for k, o in tab.items() if self.isinstance(o, cls)]

        def get(tab, what):
            def f(name):
                if name not in tab:
                    raise PyErr("KeyError", "%s %r" % (what, name), ln)
                return tab[name]
            return f
        if attr == "get_link":
            return get(links, "link")
        if attr == "get_node":
            return get(nodes, "node")
        if attr in ("nodes", "links"):
            return Registry(m, attr)
        listing = {"node_name_list": (nodes, "Node"), "link_name_list": (links, "Link"), "junction_name_list": (nodes, "Junction"), "tank_name_list": (nodes, "Tank"),
                   "reservoir_name_list": (nodes, "Reservoir"), "pipe_name_list": (links, "Pipe"), "pump_name_list": (links, "Pump"), "valve_name_list": (links, "Valve")}
        if attr in listing:
            return [k for k, o in by_cls(*listing[attr])]
        gens = {"junctions": (nodes, "Junction"), "tanks": (nodes, "Tank"), "reservoirs": (nodes, "Reservoir"), "pipes": (links, "Pipe"), "pumps": (links, "Pump"),
                "valves": (links, "Valve")}
        if attr in gens:
            return lambda: by_cls(*gens[attr])
        if attr in ("num_nodes", "num_links", "num_junctions", "num_pipes"):
            return len(by_cls(*{"num_nodes": (nodes, "Node"), "num_links": (links, "Link"), "num_junctions": (nodes, "Junction"), "num_pipes": (links, "Pipe")}[attr]))
        if attr == "add_junction":
            def add_junction(*args, **kwargs):
                b, given = self.bind("add_junction", args, kwargs, None)
                if b["name"] in nodes:
                    raise PyErr("ValueError", "node name %r already used" % (b["name"],), ln)
                c = b.get("coordinates")
                o = MObj("Junction", {"name": b["name"], "elevation": b.get("elevation"), "coordinates": tuple(c) if isinstance(c, (list, tuple)) else c,
                                      "base_demand": b.get("base_demand"), "demand_pattern": b.get("demand_pattern"), "node_type": "Junction", "tag": None,
                                      "initial_quality": None}, m, b["name"])
                self.log("add_junction", o, None, (b, given))
                nodes[b["name"]] = o
            return add_junction
        if attr == "add_pipe":
            def add_pipe(*args, **kwargs):
                b, given = self.bind("add_pipe", args, kwargs, None)
                if b["name"] in links:
                    raise PyErr("ValueError", "link name %r already used" % (b["name"],), ln)
                for k in ("start_node_name", "end_node_name"):
                    if not isinstance(b[k], str) or b[k] not in nodes:
                        raise PyErr("KeyError", "add_pipe: %s %r is not a node of the model" % (k, b[k]), ln)
                st = b.get("initial_status")
                if isinstance(st, str):
                    st = EnumTok(LINK_STATUS_NAMES.get(st.lower(), "LinkStatus." + st))
                o = self.link(m, "Pipe", b["name"], b["start_node_name"], b["end_node_name"], length=b["length"], diameter=b["diameter"], roughness=b["roughness"],
                              minor_loss=b["minor_loss"], initial_status=st, status=st, check_valve=b["check_valve"], bulk_coeff=None, wall_coeff=None)
                self.log("add_pipe", o, None, (b, given))
            return add_pipe
        if attr in ("remove_link", "remove_node"):
            tab = links if attr == "remove_link" else nodes

            def remove(name, *a, **k):
                if name not in tab:
                    raise PyErr("KeyError", repr(name), ln)
                self.log(attr, tab[name], None, None)
                del tab[name]
            return remove
        if attr == "name":
            return "mock"
        raise Unknown("interpreter: WaterNetworkModel.%s is not modelled (%s line %s)" % (attr, LINK, ln))


# ======================================================================================================================
# R-C19-1 .. R-C19-4 for split_pipe / break_pipe / reverse_link: scenarios
# ======================================================================================================================
class Agg(object):
    """one rule instance per (rule, construct): discharged iff it held in EVERY scenario that evaluated it."""

    def __init__(self, chk):
        self.chk, self.order, self.rec = chk, [], {}

    def expect(self, cond, rule, construct, where, detail=None, expected=None, found=None, scen=None):
        key = (rule, construct)
        if key not in self.rec:
            self.order.append(key)
            self.rec[key] = {"n": 0, "loc": where, "detail": detail, "fail": None}
        r = self.rec[key]
        r["n"] += 1
        if not cond and r["fail"] is None:
            r["fail"] = (expected, found, scen)
        return bool(cond)

    def flush(self):
        for key in self.order:
            r = self.rec[key]
            if r["fail"] is None:
                self.chk.ok(key[0], key[1], r["loc"], (r["detail"] + "; " if r["detail"] else "") + "held in %d evaluated scenario(s)" % r["n"])
            else:
                e, f, sc = r["fail"]
                self.chk.bad(key[0], key[1], r["loc"], r["detail"], expected=e, found=("%s  [scenario: %s]" % (f, sc)) if sc else f)
        self.order, self.rec = [], {}


def num(x):
    if isinstance(x, bool):
        return None
    if isinstance(x, SV):
        return x.v
    if isinstance(x, (int, float)):
        return float(x)
    return None


def same_num(a, b, tol=1e-9):
    a, b = num(a), num(b)
    return a is not None and b is not None and abs(a - b) <= tol * (1.0 + abs(b))


def same_val(a, b, symbolic):
    """equal at the sample point and, when the scenario is symbolic, identically equal as expressions."""
    if not same_num(a, b):
        return False
    if not symbolic:
        return True
    a, b = SV.lift(a), SV.lift(b)
    d = sp.expand(a.e - b.e)
    return d == 0 or sp.simplify(d) == 0


def same_pt(p, q, symbolic=False):
    return isinstance(p, (tuple, list)) and len(p) == 2 and same_val(p[0], q[0], symbolic) and same_val(p[1], q[1], symbolic)


def show(x):
    if isinstance(x, SV):
        return str(x.e)
    if isinstance(x, (tuple, list)):
        return "(" + ", ".join(show(y) for y in x) + ")"
    return repr(x)


POLYLINES = [
    # (start, vertices, end): segment lengths 3, 4, 5
    ((0.0, 0.0), [(3.0, 0.0), (3.0, 4.0)], (6.0, 8.0)),
    # a vertex ON the start node (GIS exports repeat the end point), a vertex visited twice: lengths 0, 6, 8, 10, 10, 10
    ((0.0, 0.0), [(0.0, 0.0), (6.0, 0.0), (6.0, 8.0), (0.0, 0.0), (0.0, 10.0)], (10.0, 10.0)),
    # a repeated vertex in the middle (zero-length segment) and a vertex on the end node: lengths 5, 0, 5, 0
    ((0.0, 0.0), [(4.0, 3.0), (4.0, 3.0), (8.0, 6.0)], (8.0, 6.0)),
    # one vertex: lengths 13, 5
    ((1.0, 2.0), [(6.0, 14.0)], (9.0, 10.0)),
]


def polyline_ref(start, verts, end, s):
    """(point at the fraction s of the arc length, arc length of every vertex, target arc length, total)"""
    pts = [start] + list(verts) + [end]
    lens = [((a[0] - b[0]) ** 2 + (a[1] - b[1]) ** 2) ** 0.5 for a, b in zip(pts[:-1], pts[1:])]
    cum = [0.0]
    for l in lens:
        cum.append(cum[-1] + l)
    total = cum[-1]
    target = total * s
    pt = pts[0]
    for k, l in enumerate(lens):
        if cum[k] < target <= cum[k] + l and l > 0:
            t = (target - cum[k]) / l
            pt = (pts[k][0] + (pts[k + 1][0] - pts[k][0]) * t, pts[k][1] + (pts[k + 1][1] - pts[k][1]) * t)
            break
    else:
        if target > 0:
            pt = pts[-1]
    return pt, cum[1:-1], target, total


class Scenario(object):
    def __init__(self, **kw):
        self.fn = "split_pipe"
        self.at_end = True
        self.s = 0.5
        self.rc = True
        self.kinds = ("Junction", "Junction")
        self.poly = None            # index into POLYLINES or None (no vertices)
        self.symbolic = False
        self.status = ("Closed", "Open")       # (initial_status, status) of the pipe
        self.target = "P"
        self.new_pipe = "PN"
        self.jnames = None
        self.defaults = False
        self.__dict__.update(kw)
        if self.jnames is None:
            self.jnames = ["JN"] if self.fn == "split_pipe" else ["JO", "JW"]

    def text(self):
        return "%s(%s, new pipe %s, junction(s) %s, add_pipe_at_end=%s, split_at_point=%s, return_copy=%s) on a %s-%s pipe %s" % (
            self.fn, self.target, self.new_pipe, "/".join(self.jnames), "default" if self.defaults else self.at_end,
            "default" if self.defaults else (num(self.s) if num(self.s) is not None else self.s), "default" if self.defaults else self.rc,
            self.kinds[0], self.kinds[1], ("with vertices %s" % (POLYLINES[self.poly][1],)) if self.poly is not None else "without vertices")


class Run(object):
    pass


def run_scenario(repo, sc):
    w = LinkWorld(repo)
    m = w.model()
    sym = sc.symbolic
    mk = (lambda name, v: SV(sp.Symbol(name, real=True), v)) if sym else (lambda name, v: v)
    if sc.poly is not None:
        a_xy, verts, b_xy = POLYLINES[sc.poly]
    else:
        a_xy, verts, b_xy = (mk("xa", 2.0), mk("ya", 3.0)), [], (mk("xb", 14.0), mk("yb", -6.0))
    r = Run()
    r.world, r.orig, r.sc = w, m, sc
    r.e = (mk("ea", 10.0), mk("eb", 25.0))
    w.node(m, sc.kinds[0], "A", r.e[0], a_xy)
    w.node(m, sc.kinds[1], "B", r.e[1], b_xy)
    w.node(m, "Junction", "X", 7.0, (50.0, 50.0))
    r.L, r.D, r.C, r.K = mk("L", 1000.0), mk("D", 0.35), mk("C", 110.0), mk("K", 20.0)
    r.init, r.status = EnumTok("LinkStatus." + sc.status[0]), EnumTok("LinkStatus." + sc.status[1])
    w.link(m, "Pipe", "P", "A", "B", length=r.L, diameter=r.D, roughness=r.C, minor_loss=r.K, initial_status=r.init, status=r.status, check_valve=True,
           vertices=list(verts), bulk_coeff=None, wall_coeff=None)
    w.link(m, "Pipe", "Q", "B", "X", length=55.0, diameter=0.2, roughness=90.0, minor_loss=0.0, check_valve=False, vertices=[(20.0, 20.0)], bulk_coeff=None, wall_coeff=None)
    w.link(m, "Valve", "V", "X", "A", diameter=0.3, minor_loss=0.0, vertices=[], valve_type="PRV")
    r.a_xy, r.verts, r.b_xy = a_xy, list(verts), b_xy
    it = Interp(repo, LINK, w)
    fn = it.lookup(sc.fn, it.modframe)
    args = [m, sc.target, sc.new_pipe] + list(sc.jnames)
    kwargs = {} if sc.defaults else {"add_pipe_at_end": sc.at_end, "split_at_point": sc.s, "return_copy": sc.rc}
    r.raised, r.ret = None, None
    try:
        r.ret = it.apply(fn, args, kwargs)
    except PyErr as e:
        r.raised = e
    return r


def check_refusal(A, r, rule, construct, where, detail=None):
    """the call must be refused by a deliberate raise before anything of any model is changed."""
    sc = r.sc
    muts = r.world.mutations()
    deliberate = r.raised is not None and getattr(r.raised, "explicit", False)
    A.expect(deliberate and not muts, rule, construct, where, detail, expected="an exception raised before the first mutation",
             found=("no exception" if r.raised is None else "%s%s" % (r.raised, "" if deliberate else " (not a deliberate refusal)")) +
             ("; the model was already changed: %s" % ", ".join("%s %r" % (e[0], e[1]) for e in muts[:3]) if muts else ""), scen=sc.text())


def check_copy(A, r, qual, where):
    """R-C19-4: with return_copy the caller's model is not changed (nor aliased into the result); without, it is the model that is changed and returned."""
    sc, w = r.sc, r.world
    copies = w.copies.get(id(r.orig), [])
    rc = True if sc.defaults else sc.rc
    if rc:
        okw = isinstance(r.ret, MObj) and r.ret is not r.orig and any(r.ret is c for c in copies)
    else:
        okw = r.ret is r.orig
    A.expect(okw, "R-C19-4", "%s works on copy.deepcopy(wn) when return_copy is true (else on wn itself)" % qual, where,
             expected="the returned model is %s" % ("a deep copy of the argument" if rc else "the argument itself"), found=repr(r.ret), scen=sc.text())
    touched = []
    for kind, o, attr, v in w.mutations():
        if rc and o is not None and o.owner is r.orig:
            touched.append("%s of %r" % (kind if attr is None else "%s .%s" % (kind, attr), o))
        vals = v if isinstance(v, (list, tuple)) else [v]
        for x in vals:
            if isinstance(x, MObj) and o is not None and x.owner is not None and x.owner is not o.owner:
                touched.append("%r of %s stored into %r of %s" % (x, x.owner.label, o, o.owner.label))
    A.expect(not touched, "R-C19-4", "%s touches the caller's model only to copy it" % qual, where,
             "every change of (or reference into) the input model breaks the promise of return_copy=True to leave it untouched",
             expected="no mutation of the argument model, no object shared between the two models", found="; ".join(touched[:3]), scen=sc.text())


def check_split(A, r, sp_loc):
    """compare one admissible run of split_pipe / break_pipe with what the documentation promises."""
    sc, w = r.sc, r.world
    at_end = True if sc.defaults else sc.at_end
    s = 0.5 if sc.defaults else sc.s
    label = "new pipe at the end" if at_end else "new pipe at the start"
    sym = sc.symbolic
    T = sc.text()
    if r.raised is not None:
        A.expect(False, "R-C19-1", "split_pipe / break_pipe complete for every admissible input", sp_loc,
                 "an exception for a pipe, free names and 0 <= split_at_point <= 1 (e.g. UnboundLocalError at the ends of the range) is a defect",
                 expected="no exception", found="%s at line %s" % (r.raised, r.raised.lineno), scen=T)
        return
    A.expect(True, "R-C19-1", "split_pipe / break_pipe complete for every admissible input", sp_loc)
    check_copy(A, r, sc.fn, sp_loc)
    work = r.ret
    if not (isinstance(work, MObj) and work.cls == "WaterNetworkModel"):
        return
    nodes, links = work.attrs["_nodes"], work.attrs["_links"]
    P = links.get("P")
    added_j = [e for e in w.events if e[0] == "add_junction" and e[1].owner is work]
    added_p = [e for e in w.events if e[0] == "add_pipe" and e[1].owner is work]
    is_split = sc.fn == "split_pipe"
    # ------------------------------------------------------------ junction(s)
    A.expect([e[1].attrs["name"] for e in added_j] == list(sc.jnames) or sorted(e[1].attrs["name"] for e in added_j) == sorted(sc.jnames), "R-C19-3",
             "%s passes %d new junction name(s)" % (sc.fn, 1 if is_split else 2), sp_loc, expected=sc.jnames, found=[e[1].attrs["name"] for e in added_j], scen=T)
    # reference elevation / position
    e0, e1 = r.e
    if sc.kinds[0] == "Reservoir":
        want_e, econ = e1, "elevation next to a start reservoir is the end node's elevation"
    elif sc.kinds[1] == "Reservoir":
        want_e, econ = e0, "elevation next to an end reservoir is the start node's elevation"
    else:
        want_e, econ = e0 + (e1 - e0) * s, "junction elevation = e_start + (e_end - e_start) * s"
    first_ref = last_ref = None
    if sc.poly is None:
        want_xy = (r.a_xy[0] + (r.b_xy[0] - r.a_xy[0]) * s, r.a_xy[1] + (r.b_xy[1] - r.a_xy[1]) * s)
        ccon = "without vertices: junction coordinates = start + (end - start) * s"
        cum, target = [], None
    else:
        want_xy, cum, target, total = polyline_ref(r.a_xy, r.verts, r.b_xy, num(s))
        tie = any(abs(c - target) <= 1e-9 * (1 + total) for c in cum)
        if num(s) == 0:
            ccon = "the default junction position (split at the very start) is the start node"
        elif num(s) == 1:
            ccon = "with vertices: a split at the very end puts the junction on the end node"
        elif tie:
            ccon = "with vertices: a split exactly at a vertex puts the junction on that vertex"
        else:
            ccon = "with vertices: junction coordinates interpolate the crossing segment"
    for e in added_j:
        j = e[1]
        A.expect(same_val(j.attrs.get("elevation"), want_e, sym), "R-C19-1", econ, sp_loc, expected=show(want_e), found=show(j.attrs.get("elevation")), scen=T)
        A.expect(same_pt(j.attrs.get("coordinates"), want_xy, sym), "R-C19-1", ccon, sp_loc,
                 "the junction lies at the fraction s of the (polyline) length from the start node: subtotal < s * length <= subtotal + segment length picks the segment, "
                 "(s * length - subtotal) / segment length the position on it", expected=show(want_xy), found=show(j.attrs.get("coordinates")), scen=T)
    A.expect(len(added_j) >= 1 and all(same_val(e[1].attrs.get("elevation"), added_j[0][1].attrs.get("elevation"), sym)
                                      and same_pt(e[1].attrs.get("coordinates"), added_j[0][1].attrs.get("coordinates") or (None, None), sym) for e in added_j),
             "R-C19-1", "the new junction(s) are created with the interpolated elevation and coordinates", sp_loc, found=[show(e[1].attrs.get("coordinates")) for e in added_j], scen=T)
    # ------------------------------------------------------------ the new pipe
    okp = len(added_p) == 1 and added_p[0][1].attrs["name"] == sc.new_pipe and links.get(sc.new_pipe) is added_p[0][1]
    A.expect(okp, "R-C19-2", "%s: the new pipe is created under new_pipe_name" % label, sp_loc, expected="one add_pipe(%r, ...)" % sc.new_pipe,
             found=[e[1].attrs["name"] for e in added_p], scen=T)
    if not okp or P is None:
        return
    N = added_p[0][1]
    b, given = added_p[0][3]
    j0, j1 = sc.jnames[0], sc.jnames[-1]
    A0, B0 = nodes.get("A"), nodes.get("B")
    stores = [e for e in w.events if e[0] == "store" and e[1] is P]
    rew = [e[2] for e in stores if e[2].lstrip("_") in ("start_node", "end_node", "start_node_name", "end_node_name")]
    if at_end:
        okw = rew == ["end_node"] and P.attrs["end_node"] is nodes.get(j0) and P.attrs["start_node"] is A0 and N.attrs["start_node"] is nodes.get(j1) and N.attrs["end_node"] is B0
    else:
        okw = rew == ["start_node"] and P.attrs["start_node"] is nodes.get(j0) and P.attrs["end_node"] is B0 and N.attrs["end_node"] is nodes.get(j1) and N.attrs["start_node"] is A0
    A.expect(okw, "R-C19-3", "%s: the old pipe is re-wired to j0 through the end-node setter and the new pipe runs between j1 and the original far node" % label, sp_loc,
             "the start_node / end_node setters maintain the node registry's usage records; the private fields do not",
             expected="old pipe %s -> %s, new pipe %s -> %s" % (("A", j0, j1, "B") if at_end else (j0, "B", "A", j1)),
             found="stores on the old pipe %s; old pipe %r -> %r, new pipe %r -> %r" % (rew, P.attrs["start_node"], P.attrs["end_node"], N.attrs["start_node"], N.attrs["end_node"]), scen=T)
    meet_old = P.attrs["end_node"] if at_end else P.attrs["start_node"]
    meet_new = N.attrs["start_node"] if at_end else N.attrs["end_node"]
    if is_split:
        A.expect(meet_old is meet_new and meet_old is nodes.get(sc.jnames[0]), "R-C19-3", "SPLIT joins both pipes at one new junction", sp_loc, found="%r / %r" % (meet_old, meet_new), scen=T)
    else:
        A.expect(meet_old is nodes.get("JO") and meet_new is nodes.get("JW") and meet_old is not meet_new, "R-C19-3", "BREAK ends the two pipes at two different new junctions", sp_loc,
                 expected="old pipe at new_junction_name_old_pipe, new pipe at new_junction_name_new_pipe", found="%r / %r" % (meet_old, meet_new), scen=T)
    # lengths
    L = r.L
    ln, lo = N.attrs.get("length"), P.attrs.get("length")
    tot = (SV.lift(ln) + SV.lift(lo)) if num(ln) is not None and num(lo) is not None else None
    A.expect(tot is not None and same_val(tot, L, sym), "R-C19-1", "%s: new length + retained length = original length" % label, sp_loc,
             "split/break must keep the total pipe length", expected=show(L), found="%s + %s" % (show(ln), show(lo)), scen=T)
    keeps_start = P.attrs["start_node"] is A0
    want_old = L * s if at_end else L * (1 - s)
    A.expect(same_val(lo, want_old, sym) and keeps_start == at_end, "R-C19-1", "%s: the part that keeps the %s node is %s of the length" % (
        label, "start" if at_end else "end", "s" if at_end else "1 - s"), sp_loc, "split_at_point is measured from the start node", expected=show(want_old), found=show(lo), scen=T)
    # copied attributes, resolved through add_pipe's signature
    for pname, ref in (("diameter", r.D), ("roughness", r.C)):
        A.expect(same_val(N.attrs.get(pname), ref, sym), "R-C19-2", "%s: add_pipe parameter %s receives pipe.%s" % (label, pname, pname), sp_loc,
                 "arguments are resolved through add_pipe's signature %s" % [p for p, d in w.sig["add_pipe"]], expected="pipe." + pname,
                 found=show(N.attrs.get(pname)) + ("" if pname in given else " <default>"), scen=T)
    kn, ko = N.attrs.get("minor_loss"), P.attrs.get("minor_loss")
    A.expect(num(kn) is not None and num(ko) is not None and same_val(SV.lift(kn) + SV.lift(ko), r.K, sym), "R-C19-2b",
             "%s: the minor-loss coefficients of the two pipes add up to the original pipe's" % label, sp_loc,
             "minor loss is K*v^2/2g per pipe: copying K to both halves doubles it, so SPLIT changes the heads downstream although the statement says it "
             "leaves the hydraulics of the rest of the network unchanged", expected="K_new + K_retained = pipe.minor_loss", found="%s + %s" % (show(kn), show(ko)), scen=T)
    st_ = N.attrs.get("initial_status")
    opened = EnumTok("LinkStatus.Open")
    oks = st_ == r.init or (is_split and st_ == opened and "initial_status" in given)
    A.expect(oks, "R-C19-2", "%s: the new pipe's base status comes from the original pipe's initial_status" % label, sp_loc,
             "pipe.status is the effective status after the last run / reset: a pipe that was closed during a run hands a Closed base status to the new half",
             expected="pipe.initial_status", found="%r%s (pipe.initial_status = %r, pipe.status = %r)" % (st_, "" if "initial_status" in given else " <default>", r.init, r.status), scen=T)
    if is_split and r.init == EnumTok("LinkStatus.Closed"):
        A.expect(st_ != r.init, "R-C19-2c", "%s: a SPLIT does not put a closed, control-less pipe in series with the original" % label, sp_loc,
                 "the new half copies the base status and gets no controls: splitting an initially closed pipe that a control opens leaves the new half closed for ever",
                 expected="Open for flag == 'SPLIT' (the original half keeps status and controls)", found="pipe.initial_status" if st_ == r.init else repr(st_), scen=T)
    cv = N.attrs.get("check_valve")
    A.expect(cv is False or (num(cv) == 0 and not isinstance(cv, bool)) or cv is None, "R-C19-2", "%s: the new pipe gets no check valve" % label, sp_loc,
             "documented: 'Check valves are not added to the new pipe'", expected="False (or omitted)", found=show(cv) + " for a pipe with check_valve=True", scen=T)
    # vertices: every vertex goes to exactly one half, in order, separated by the junction
    fv = list(P.attrs.get("vertices") or []) if at_end else list(N.attrs.get("vertices") or [])
    lv = list(N.attrs.get("vertices") or []) if at_end else list(P.attrs.get("vertices") or [])
    allv = fv + lv
    okv = len(allv) == len(r.verts) and all(same_pt(p, q) for p, q in zip(allv, r.verts))
    why = "first half %s, second half %s" % (fv, lv)
    if okv and sc.poly is not None:
        tol = 1e-9 * (1 + (cum[-1] if cum else 1.0))
        for i, c in enumerate(cum):
            if i < len(fv) and c > target + tol:
                okv, why = False, why + ": vertex %d lies behind the junction but stays on the first half" % i
            if i >= len(fv) and c < target - tol:
                okv, why = False, why + ": vertex %d lies before the junction but goes to the second half" % i
    A.expect(okv, "R-C19-1", "every vertex after the first segment is handed to one of the two pipes", sp_loc,
             "the vertices of the original pipe are partitioned, in order, at the junction; only the start node itself (by POSITION in the polyline, not by "
             "coordinates: GIS exports repeat the end point as a vertex) is no vertex", expected="%s split at arc length %s" % (r.verts, target), found=why, scen=T)
    # nothing else
    allowed = {id(P), id(N)} | {id(e[1]) for e in added_j}
    other = ["%s%s of %r" % (e[0], (" ." + e[2]) if e[2] else "", e[1]) for e in w.mutations() if e[1] is not None and e[1].owner is work and id(e[1]) not in allowed]
    other += ["store .%s of the old pipe" % e[2] for e in stores if e[2].lstrip("_") not in ("start_node", "end_node", "length", "vertices", "minor_loss")]
    A.expect(not other and set(nodes) == {"A", "B", "X"} | set(sc.jnames) and set(links) == {"P", "Q", "V", sc.new_pipe}, "R-C19-3",
             "split / break change nothing but the old pipe, the new pipe and the new junction(s)", sp_loc, found="; ".join(other[:3]) or "nodes %s links %s" % (sorted(nodes), sorted(links)), scen=T)


def link_rules(repo, chk):
    sp_fn = repo.func(LINK, "_split_or_break_pipe")
    rev = repo.func(LINK, "reverse_link")
    pubs = {q: repo.func(LINK, q) for q in ("split_pipe", "break_pipe")}
    chk.fn(sp_fn, rev, *pubs.values())
    sp_loc = loc(sp_fn)
    A = Agg(chk)
    scen = []
    fns = ("split_pipe", "break_pipe")
    # symbolic runs: identities in s, L, elevations, coordinates, D, C, K
    i = 0
    for fn in fns:
        for at_end in (True, False):
            for kinds in (("Junction", "Junction"), ("Reservoir", "Junction"), ("Junction", "Reservoir"), ("Tank", "Junction")):
                for status in (("Closed", "Open"), ("Open", "Closed")):
                    i += 1
                    sv = SV(sp.Symbol("s", real=True), 0.3 if i % 3 else 0.7)
                    scen.append(Scenario(fn=fn, at_end=at_end, kinds=kinds, status=status, symbolic=True, s=sv, rc=bool(i % 2)))
    # numeric runs along polylines (and the ends of the range without vertices)
    for fn in fns:
        for at_end in (True, False):
            for s in (0.0, 1.0):
                scen.append(Scenario(fn=fn, at_end=at_end, s=s, rc=False))
            for pi, (a, vs, b) in enumerate(POLYLINES):
                pt, cum, target, total = polyline_ref(a, vs, b, 1.0)
                fr = sorted(set([k / 24.0 for k in range(25)] + [c / total for c in cum]))
                if fn == "break_pipe":
                    fr = [0.0, 0.25, 0.5, 0.8, 1.0]
                for s in fr:
                    scen.append(Scenario(fn=fn, at_end=at_end, s=s, poly=pi, rc=(len(scen) % 2 == 0)))
    for sc in scen:
        check_split(A, run_scenario(repo, sc), sp_loc)
    # documented defaults of the public functions
    for fn in fns:
        r = run_scenario(repo, Scenario(fn=fn, defaults=True, poly=0))
        check_split(A, r, loc(pubs[fn]))
    # refusals
    for fn in fns:
        for rc in (False, True):
            for poly in (None, 0):
                for s in (-1e-9, -0.25, -3.0, 1.0 + 1e-9, 1.25, 7.0):
                    check_refusal(A, run_scenario(repo, Scenario(fn=fn, s=s, rc=rc, poly=poly)), "R-C19-1", "0 <= split_at_point <= 1 is enforced before any mutation", sp_loc)
            jn = [["X"]] if fn == "split_pipe" else [["X", "JW"], ["JO", "X"], ["JO", "B"]]
            for names in jn:
                check_refusal(A, run_scenario(repo, Scenario(fn=fn, rc=rc, jnames=names)), "R-C19-3", "a new junction name that is already used by a node is refused before any mutation", sp_loc)
            for nm in ("Q", "P", "V"):
                check_refusal(A, run_scenario(repo, Scenario(fn=fn, rc=rc, new_pipe=nm)), "R-C19-3", "a new pipe name that is already used by a link is refused before any mutation", sp_loc)
            check_refusal(A, run_scenario(repo, Scenario(fn=fn, rc=rc, target="V")), "R-C19-3", "only pipes can be split (refused before mutation)", sp_loc)
    # reverse_link: copy isolation
    for rc in (True, False):
        w = LinkWorld(repo)
        m = w.model()
        w.node(m, "Junction", "A", 1.0, (0.0, 0.0))
        w.node(m, "Tank", "B", 2.0, (5.0, 5.0))
        w.link(m, "Pipe", "P", "A", "B", length=10.0, diameter=0.3, roughness=100.0, minor_loss=0.0, check_valve=False, vertices=[(1.0, 1.0), (2.0, 4.0)], bulk_coeff=None, wall_coeff=None)
        w.link(m, "Pump", "U", "B", "A", vertices=[(3.0, 3.0)])
        for target in ("P", "U"):
            r = Run()
            r.world, r.orig, r.sc = w, m, Scenario(fn="reverse_link", rc=rc, target=target)
            r.sc.text = (lambda t=target, c=rc: "reverse_link(wn, %r, return_copy=%s)" % (t, c))
            it = Interp(repo, LINK, w)
            r.raised = None
            try:
                r.ret = it.apply(it.lookup("reverse_link", it.modframe), [m, target], {"return_copy": rc})
            except PyErr as e:
                r.raised, r.ret = e, None
            A.expect(r.raised is None, "R-C19-4", "reverse_link completes for a pipe and a pump", loc(rev), found=str(r.raised), scen=r.sc.text())
            if r.raised is None:
                check_copy(A, r, "reverse_link", loc(rev))
                w.events[:] = []
    A.flush()
    # definite assignment: on every path to add_junction every local it reads has been assigned (a split at the very start / end takes the paths on which no
    # segment is selected)
    from ..cfg import CFG
    g = CFG(sp_fn)
    usej = g.calling("add_junction")
    locals_ = _stored_in(sp_fn) - {a.arg for a in sp_fn.args.args}
    read = []
    for i in usej:
        for c in walk(g.node_ast(i)):
            if isinstance(c, ast.Call) and last_attr(c) == "add_junction":
                for x in list(c.args) + [k.value for k in c.keywords]:
                    for nm in ast.walk(x):
                        if isinstance(nm, ast.Name) and nm.id in locals_ and nm.id not in read:
                            read.append(nm.id)
    loop_targets = {x.id for f in walk(sp_fn) if isinstance(f, ast.For) for x in ast.walk(f.target) if isinstance(x, ast.Name)}
    n_def = 0
    for var in read:
        if var in loop_targets:
            continue
        defs = g.assigning(var)
        okd, wpath = g.must_pass(g.entry, usej, defs)
        n_def += 1
        chk.expect(bool(defs) and okd, "R-C19-1", "the value passed to add_junction (%d) is assigned on every path that reaches the call" % n_def, sp_loc,
                   "a path that skips every assignment raises UnboundLocalError for an admissible split_at_point", found=("%s; path: %s" % (var, g.path_text(wpath)[:300])) if wpath else var)
    if not usej:
        raise ExtractError("_split_or_break_pipe: no add_junction call")


# ======================================================================================================================
# R-C19-4 .. R-C19-6 for skeletonize: path enumeration (sa/symx.py); R-C19-7 and the constructor parts of R-C19-5 / -6 are decided further
# below by an interpreted run of _Skeletonize.__init__ (init_rules).  In the path enumeration every value is the canonical text of what it was computed
# from (locals, temporaries and inlined helpers disappear), every path carries the outcomes of the tests it passed and the
# calls / stores it performed in execution order.
# ======================================================================================================================
class SX(SymExec):
    """SymExec whose single-generator dict comprehension is read like the loop that fills the dict: one abstract iteration."""

    def e_DictComp(self, n, st):
        if len(n.generators) == 1 and not n.generators[0].ifs and not n.generators[0].is_async:
            g = n.generators[0]
            it = self.ev(g.iter, st)
            st.events.append(("loop", unparse(g.target), self.text(it), getattr(n, "lineno", 0)))
            sub = st.fork()
            self.bind_loop_target(g.target, sub)
            k = self.ev(n.key, sub)
            v = self.ev(n.value, sub)
            st.events.extend(sub.events[len(st.events):])
            return {k if isinstance(k, (str, int)) else self.text(k): v}
        return Opaque(unparse(n))


def canon(txt):
    try:
        return ast.unparse(ast.parse(txt, mode="eval").body)
    except SyntaxError:
        return txt


def _formula(node):
    """path-condition AST -> ('and' | 'or', [..]) / ('not', f) / ('atom', text); `a != b`, `a is not b`, `a not in b` are the negated positive atoms."""
    if isinstance(node, ast.BoolOp):
        return ("and" if isinstance(node.op, ast.And) else "or", [_formula(v) for v in node.values])
    if isinstance(node, ast.UnaryOp) and isinstance(node.op, ast.Not):
        return ("not", _formula(node.operand))
    if isinstance(node, ast.Compare) and len(node.ops) == 1 and isinstance(node.ops[0], (ast.NotEq, ast.IsNot, ast.NotIn)):
        pos = {ast.NotEq: ast.Eq, ast.IsNot: ast.Is, ast.NotIn: ast.In}[type(node.ops[0])]()
        return ("not", ("atom", ast.unparse(ast.Compare(left=node.left, ops=[pos], comparators=node.comparators))))
    if isinstance(node, ast.Constant) and isinstance(node.value, bool):
        return ("and", []) if node.value else ("or", [])
    return ("atom", ast.unparse(node))


def _atoms(f, out):
    if f[0] == "atom":
        out.add(f[1])
    elif f[0] == "not":
        _atoms(f[1], out)
    else:
        for x in f[1]:
            _atoms(x, out)
    return out


def _value(f, env):
    if f[0] == "atom":
        return env[f[1]]
    if f[0] == "not":
        return not _value(f[1], env)
    if f[0] == "and":
        return all(_value(x, env) for x in f[1])
    return any(_value(x, env) for x in f[1])


def entailed(conds, query):
    """do the tests passed on a path (text -> outcome) force the truth value of `query` (a condition text)?  -> True / False / None.
    Propositional reasoning over the atoms of the tests: `A or B` passed and `A` failed gives B, cached test results and merged or
    split guards read alike.  Decided by enumerating the assignments of the atoms connected to the query (an infeasible
    combination of outcomes entails everything: no execution takes that path)."""
    import itertools as _it
    try:
        q = _formula(ast.parse(query, mode="eval").body)
    except SyntaxError:
        return None
    facts = []
    for k, v in conds.items():
        try:
            f = _formula(ast.parse(k, mode="eval").body)
        except SyntaxError:
            continue
        facts.append(f if v else ("not", f))
    need = _atoms(q, set())
    used, grew = [], True
    while grew:
        grew = False
        for f in facts:
            if f in used:
                continue
            a = _atoms(f, set())
            if a & need:
                used.append(f)
                need |= a
                grew = True
    names = sorted(need)
    if len(names) > 16:
        from ._shared import forced
        return forced(query, conds)
    seen = set()
    for bits in _it.product((False, True), repeat=len(names)):
        env = dict(zip(names, bits))
        if all(_value(f, env) for f in used):
            seen.add(_value(q, env))
            if len(seen) == 2:
                return None
    if not seen:
        return True if not used else "infeasible"
    return seen.pop()


def holds(conds, *alternatives):
    """True iff the path conditions force one of the (condition text, truth value) alternatives."""
    for atom, val in alternatives:
        r = entailed(conds, canon(atom))
        if r == "infeasible" or r is val:
            return True
    return False


def le_holds(conds, a, b):
    return holds(conds, ("%s <= %s" % (a, b), True), ("%s >= %s" % (b, a), True), ("%s > %s" % (a, b), False), ("%s < %s" % (b, a), False))


def not_in_holds(conds, x, coll):
    return holds(conds, ("%s not in %s" % (x, coll), True), ("%s in %s" % (x, coll), False))


def ev_text(ex, e):
    return e[1] if e[0] != "store" else "%s = %s" % (e[1], ex.text(e[2]))


def junction_loop(events, upto, J):
    """is J the target of a loop over the junction names of self.wn that is open at event index `upto`?"""
    e = events[upto]
    loops = e[4] if len(e) > 4 else ()
    its = ("self.wn.junction_name_list", "list(self.wn.junction_name_list)", "tuple(self.wn.junction_name_list)", "sorted(self.wn.junction_name_list)")
    if not loops or loops[0] not in its:
        return False
    return any(x[0] == "loop" and x[1] == J and x[2] == loops[0] for x in events[:upto])


def skel_rules(repo, chk):
    import re
    sk = repo.cls(SKEL, "_Skeletonize")
    skel_init = repo.func(SKEL, "_Skeletonize.__init__")
    chk.fn(skel_init)
    A = Agg(chk)

    # ---------------------------------------------------------------- R-C19-4 copy isolation of _Skeletonize
    bare = re.compile(r"(?<![\w.])wn\b")
    for rc in (True, False):
        ex = SX()
        outs = [o for o in ex.run(skel_init, env={"return_copy": rc}) if o.raised is None]
        if not outs:
            raise ExtractError("_Skeletonize.__init__: no path for return_copy=%s" % rc)
        for o in outs:
            st_ = [e for e in o.events if e[0] == "store" and e[1] == "self.wn"]
            val = ex.text(st_[-1][2]) if st_ else None
            want = ("copy.deepcopy(wn)", "deepcopy(wn)") if rc else ("wn",)
            A.expect(val in want, "R-C19-4", "_Skeletonize.__init__ works on copy.deepcopy(wn) when return_copy is true (else on wn itself)", loc(skel_init),
                     expected=want[0], found=val, scen="return_copy=%s, path %s" % (rc, o.label()))
            if rc:
                other = []
                for e in o.events:
                    if e[0] not in ("call", "store"):
                        continue
                    t = ev_text(ex, e)
                    if bare.search(t.replace("copy.deepcopy(wn)", "COPY").replace("deepcopy(wn)", "COPY")):
                        other.append(t[:120])
                A.expect(not other, "R-C19-4", "_Skeletonize.__init__ touches the caller's model only to copy it", loc(skel_init),
                         "every other use of the parameter `wn` may mutate (or alias) the input model although return_copy=True promises to leave it untouched",
                         found=other[:3], scen="return_copy=True, path %s" % o.label())
    A.flush()
    for m in [n for n in sk.body if isinstance(n, ast.FunctionDef) and n.name != "__init__"]:
        bad = [n for n in walk(m) if isinstance(n, ast.Name) and n.id == "wn"]
        chk.expect(not bad, "R-C19-4", "_Skeletonize.%s works on self.wn only" % m.name, loc(SKEL, m))
    pubsk = repo.func(SKEL, "skeletonize")
    cs = [c for c in calls(pubsk) if last_attr(c) == "_Skeletonize"]
    b = bind_args(cs[0], params_of(skel_init)) if cs else {}
    chk.expect(bool(cs) and unparse(b.get("return_copy")) == "return_copy" and unparse(b.get("wn")) == "wn", "R-C19-4", "skeletonize forwards return_copy", loc(pubsk))

    # ---------------------------------------------------------------- R-C19-5 / R-C19-6 removals
    n_rl = n_rn = 0
    for m in [n for n in sk.body if isinstance(n, ast.FunctionDef) and n.name in ("branch_trim", "series_pipe_merge", "parallel_pipe_merge")]:
        m._rel = SKEL
        m._qual = "_Skeletonize." + m.name
        chk.fn(m)
        thr = params_of(m)[0] if params_of(m) else "pipe_threshold"
        ex = SX()
        outs = ex.run(m)
        # short names of the removal sites: the source text of the argument, in document order
        src_rl = [unparse(c.args[0]) for c in calls(m) if last_attr(c) == "remove_link" and unparse(c.func.value) == "self.wn" and c.args]
        src_rn = [unparse(c.args[0]) for c in calls(m) if last_attr(c) == "remove_node" and unparse(c.func.value) == "self.wn" and c.args]
        seen_rl, seen_rn = [], []
        for o in outs:
            conds = dict(o.conds)
            evs = o.events
            for i, e in enumerate(evs):
                if e[0] != "call" or not isinstance(e[2], tuple):
                    continue
                name, args, kwargs = e[2]
                if name == "self.wn.remove_link" and args:
                    T = ex.text(args[0])
                    if T not in seen_rl:
                        seen_rl.append(T)
                    k = seen_rl.index(T)
                    short = src_rl[k] if len(src_rl) > k else T[:60]
                    P = "self.wn.get_link(%s)" % T
                    P2 = "self.wn.links[%s]" % T
                    okg = False
                    for p in (P, P2):
                        if holds(conds, ("isinstance(%s, Pipe)" % p, True)) and le_holds(conds, p + ".diameter", thr) and not_in_holds(conds, T, "self.pipe_to_exclude"):
                            okg = True
                    A.expect(okg, "R-C19-5", "%s: remove_link(%s) is reached only for a Pipe with diameter <= threshold that is not excluded" % (m.name, short), loc(m),
                             "skeletonize must keep pumps, valves, large pipes and every pipe named by a control or by the user",
                             expected="isinstance(p, Pipe), p.diameter <= %s, name not in self.pipe_to_exclude for p = %s" % (thr, P[:90]),
                             found="path conditions: " + "; ".join(("" if v else "NOT ") + k_[:140] for k_, v in o.conds if "Pipe" in k_ or "exclude" in k_ or "diameter" in k_)[:500],
                             scen=None)
                if name == "self.wn.remove_node" and args:
                    J = ex.text(args[0])
                    if J not in seen_rn:
                        seen_rn.append(J)
                    short = src_rn[seen_rn.index(J)] if len(src_rn) > seen_rn.index(J) else J[:60]
                    okn = junction_loop(evs, i, J) and not_in_holds(conds, J, "self.junc_to_exclude")
                    A.expect(okn, "R-C19-5", "%s: remove_node(%s) removes a junction of junction_name_list that is not excluded" % (m.name, short), loc(m),
                             found="loops %s; conditions %s" % (e[4] if len(e) > 4 else (), [k_ for k_ in conds if "exclude" in k_][:3]))
                    # R-C19-6: what happened to the junction's demands and map entries BEFORE this call on this path
                    jobjs = ("self.wn.get_node(%s)" % J, "self.wn.nodes[%s]" % J)
                    jlists = tuple(x + ".demand_timeseries_list" for x in jobjs)
                    recv = None
                    for q, x in enumerate(evs[:i]):
                        if x[0] != "call":
                            continue
                        mt = re.match(r"^(.*)\.demand_timeseries_list\.(append|extend)\((.*)\)$", x[1], re.S)
                        if not mt or mt.group(1) in jobjs:
                            continue
                        if mt.group(2) == "extend" and mt.group(3) in jlists:
                            recv = mt.group(1)
                        elif mt.group(2) == "append" and len(x) > 4 and x[4] and x[4][-1] in jlists:
                            tg = [y[1] for y in evs[:q] if y[0] == "loop" and y[2] == x[4][-1]]
                            if tg and mt.group(3) == tg[-1]:
                                recv = mt.group(1)
                    A.expect(recv is not None, "R-C19-6", "%s: every demand entry of the removed junction is appended to a retained junction before remove_node" % m.name, loc(m),
                             "skeletonize conserves the total demand at every time", found="receiver %s" % recv, scen=o.label()[:300])
                    src_map = "self.skeleton_map[%s]" % J
                    mkey = None
                    moved_at = cleared_at = None
                    for q, x in enumerate(evs[:i]):
                        if x[0] == "call":
                            mt = re.match(r"^self\.skeleton_map\[(.*)\]\.extend\((.*)\)$", x[1], re.S)
                            if mt and mt.group(2) == src_map and mt.group(1) != J:
                                mkey, moved_at = mt.group(1), q
                            if x[1] == src_map + ".clear()" and moved_at is not None:
                                cleared_at = q
                        if x[0] == "store" and x[1] == src_map and x[2] == [] and moved_at is not None:
                            cleared_at = q
                    A.expect(moved_at is not None and cleared_at is not None and moved_at < cleared_at, "R-C19-6",
                             "%s: the skeleton map of the removed junction is handed to a retained junction and then emptied, before remove_node" % m.name, loc(m),
                             found="moved to %s, emptied: %s" % (mkey, cleared_at is not None), scen=o.label()[:300])
                    same = bool(recv and mkey) and (mkey == recv + ".name" or mkey == recv + "._name" or recv in ("self.wn.get_node(%s)" % mkey, "self.wn.nodes[%s]" % mkey))
                    A.expect(same, "R-C19-6", "%s: demands and map entries go to the same retained junction" % m.name, loc(m), found="demands -> %s, map -> %s" % (recv, mkey), scen=o.label()[:300])
                    A.expect(recv is not None and holds(conds, ("isinstance(%s, Junction)" % recv, True)), "R-C19-5",
                             "%s: the junction that receives the demands is a Junction (never a tank or reservoir)" % m.name, loc(m), found=recv, scen=o.label()[:300])
        if len(seen_rl) != len(src_rl) or len(seen_rn) != len(src_rn):
            raise ExtractError("_Skeletonize.%s: %d/%d remove_link and %d/%d remove_node sites lie on an enumerated path" % (m.name, len(seen_rl), len(src_rl), len(seen_rn), len(src_rn)))
        n_rl += len(seen_rl)
        n_rn += len(seen_rn)
        A.flush()
    if n_rl < 5 or n_rn < 2:
        chk.error("R-C19-5: expected at least 5 remove_link and 2 remove_node sites in _Skeletonize, found %d / %d" % (n_rl, n_rn))


def init_rules(repo, chk):
    """R-C19-5 / -6 / -7 for _Skeletonize.__init__ (T3, bounded to one fixture model, both simulators): the constructor is run by the in-house interpreter on a mock
    model with two controls (requiring two junctions, a pipe and a tank), a water-quality source, user exclusion lists and a stand-in simulator that records the
    duration it is run with.  Afterwards: the junction / pipe exclusion lists are exactly the junctions / pipes required by a control + the user's + (junctions only)
    the nodes a source sits on; the skeleton map is {n: [n]} for every node; the stored head loss of each link is |h_start - h_end| of the single-period run; the
    internal run saw duration 0 and the model's duration is what it was."""
    skel_init = repo.func(SKEL, "_Skeletonize.__init__")
    chk.fn(skel_init)
    # which non-link users of the node registry exist (they make remove_node refuse): the fixture must contain one of each
    from .c14 import usage_sites
    node_users = set()
    for rel_ in ("wntr/network/elements.py", "wntr/network/model.py", "wntr/network/base.py"):
        for fn_ in [n for n in ast.walk(repo.tree(rel_)) if isinstance(n, ast.FunctionDef)]:
            for op, reg, tag, key, c in usage_sites(fn_):
                if op == "add_usage" and reg == "_node_reg" and tag and tag.startswith("'"):
                    node_users.add(tag.strip("'"))
    chk.sample({"rule": "R-C19-5", "non_link_users_of_nodes": sorted(node_users)})
    if node_users - {"Source"}:
        raise ExtractError("_Skeletonize.__init__: the node registry has users %s the fixture of R-C19-5 does not contain" % sorted(node_users - {"Source"}))
    from ..concrete import World, stdlib_overrides, Namespace, ProgramError, Instance, ClassRef
    ELEM_ = "wntr/network/elements.py"

    class Rec(object):
        _sa_mock = True
        _sa_foreign = True

        def __init__(self, label, **kw):
            self._label = label
            self.__dict__.update(kw)

        def __repr__(self):
            return "<%s>" % self._label
    for use_epanet in (False, True):
        ov, _st = stdlib_overrides()
        ov["six"] = Namespace("six", with_metaclass=lambda meta, *bases: (bases[0] if bases else object), string_types=(str,), integer_types=(int,))
        seen_durations = []
        heads = {"J1": 50.0, "J2": 47.5, "J3": 61.25, "J9": 40.0, "T1": 70.0, "R1": 80.0}

        class Loc(object):
            _sa_mock = True

            def __getitem__(self, key):
                if not (isinstance(key, tuple) and len(key) == 2 and key[0] == 0):
                    raise KeyError(key)
                return heads[key[1]]
        options = Rec("options", time=Rec("time options", duration=86400))
        links = [("P1", Rec("P1", start_node_name="J1", end_node_name="J2")), ("P9", Rec("P9", start_node_name="R1", end_node_name="J9")), ("P3", Rec("P3", start_node_name="J3", end_node_name="T1"))]

        def make_sim(kind):
            def ctor(wn_):
                def run_sim(*a, **k):
                    seen_durations.append((kind, wn_.options.time.duration))
                    return Rec("results", node={"head": Rec("head table", loc=Loc())})
                return Rec("%s simulator" % kind, run_sim=run_sim)
            return ctor
        for key in ("wntr.sim.core.WNTRSimulator", "wntr.morph.skel.WNTRSimulator"):
            ov[key] = make_sim("WNTR")
        for key in ("wntr.sim.EpanetSimulator", "wntr.morph.skel.EpanetSimulator", "wntr.sim.epanet.EpanetSimulator"):
            ov[key] = make_sim("EPANET")
        ov["networkx"] = Namespace("networkx")
        world = World(repo, ov, fuel=5000000)
        I = world.interp
        J, P, T = (world.function(ELEM_, n_) for n_ in ("Junction", "Pipe", "Tank"))
        if not all(isinstance(c_, ClassRef) for c_ in (J, P, T)):
            raise AnchorError("Junction / Pipe / Tank are not classes of %s" % ELEM_)

        def elem(cls_, name):
            o = Instance(cls_)
            o._attrs["_name"] = name
            if cls_ is P:
                o._attrs["_link_name"] = name
            return o
        j1, j2, p1, p2, t1 = elem(J, "J1"), elem(J, "J2"), elem(P, "P1"), elem(P, "P2"), elem(T, "T1")

        def control(name, cond_reads, action_targets):
            """the protocol of a control: requires() = what its condition reads plus what its actions change; actions() / condition answer for their own part only
            (an element a control only READS must be protected as well as one it acts on)"""
            acts = [Rec("%s.action%d" % (name, k_), requires=(lambda t_=t_: [t_]), target=(lambda t_=t_: (t_, "status"))) for k_, t_ in enumerate(action_targets)]
            cond = Rec(name + ".condition", requires=lambda: list(cond_reads))
            return Rec(name, requires=lambda: list(cond_reads) + list(action_targets), actions=lambda: list(acts), condition=cond, _condition=cond,
                       _then_actions=acts, _else_actions=[])
        controls = [("c1", control("c1", [j1, p1, t1], [p2])), ("c2", control("c2", [j2], [j1]))]
        sources = [("S1", Rec("S1", node_name="J3"))]
        G = Rec("graph")
        G.to_undirected = lambda: G
        wn = Rec("model", to_graph=lambda: G, node_name_list=["J1", "J2", "J3", "J9", "T1", "R1"], controls=lambda: list(controls), sources=lambda: list(sources),
                 links=lambda: list(links), options=options, junction_name_list=["J1", "J2", "J3", "J9"], tank_name_list=["T1"], reservoir_name_list=["R1"],
                 link_name_list=[l_[0] for l_ in links], pipe_name_list=[l_[0] for l_ in links], pipes=lambda: list(links))
        cls_sk = world.function(SKEL, "_Skeletonize")
        me = Instance(cls_sk)
        try:
            I.call(I.getattr_(me, "__init__"), [wn, use_epanet, False, ["P9"], ["J9"]], {})
        except ProgramError as e:
            if isinstance(e.exc, (AttributeError, NameError)):
                raise ExtractError("_Skeletonize.__init__ needs something the mock model does not provide: %s (line %s)" % (e, e.lineno))
            chk.bad("R-C19-5", "_Skeletonize.__init__ completes on a model with controls and a source", loc(skel_init), found="%s (line %s)" % (e, e.lineno))
            continue
        tag = "EpanetSimulator" if use_epanet else "WNTRSimulator"
        je, pe = me._attrs.get("junc_to_exclude"), me._attrs.get("pipe_to_exclude")
        chk.expect(isinstance(je, list) and sorted(set(je)) == ["J1", "J2", "J3", "J9"], "R-C19-5", "junctions required by a control, named by the user or carrying a source are excluded from removal [%s]" % tag, loc(skel_init),
                   "an element referenced by a control (or named by the user) must never be removed; remove_node(force=True) only skips the control check: the registry still refuses a node "
                   "a source uses, after demands and pipes were already moved", expected=["J1", "J2", "J3", "J9"], found=je)
        chk.expect(isinstance(pe, list) and sorted(set(pe)) == ["P1", "P2", "P9"], "R-C19-5", "pipes required by a control (read by its condition or changed by its actions) or named by the user are excluded from removal [%s]" % tag, loc(skel_init), expected=["P1", "P2", "P9"], found=pe)
        sm = me._attrs.get("skeleton_map")
        chk.expect(sm == {n_: [n_] for n_ in wn.node_name_list}, "R-C19-6", "the initial skeleton map is {n: [n]} for every node [%s]" % tag, loc(skel_init), found=sm)
        hl = me._attrs.get("headloss")
        want_hl = {nm: abs(heads[l_.start_node_name] - heads[l_.end_node_name]) for nm, l_ in links}
        chk.expect(hl == want_hl, "R-C19-6", "the stored head loss of every link is |h_start - h_end| of the single-period run [%s]" % tag, loc(skel_init), expected=want_hl, found=hl)
        chk.expect(seen_durations == [("EPANET" if use_epanet else "WNTR", 0)] and options.time.duration == 86400, "R-C19-7",
                   "_Skeletonize.__init__ runs the chosen simulator once with duration 0 and restores the model's duration afterwards [%s]" % tag, loc(skel_init),
                   expected="one run with duration 0, duration 86400 afterwards", found="runs %s, duration afterwards %r" % (seen_durations, options.time.duration))


def re_first(tgt):
    """first element of a tuple loop target text '(a, b)' / 'a, b'"""
    t = tgt.strip()
    if t.startswith("(") and t.endswith(")"):
        t = t[1:-1]
    return t.split(",")[0].strip() if "," in t else None


def params_of(fn):
    return [a.arg for a in fn.args.args if a.arg != "self"]


def bind_args(call, names):
    out = {}
    for i, a in enumerate(call.args):
        if i < len(names):
            out[names[i]] = a
    for k in call.keywords:
        if k.arg:
            out[k.arg] = k.value
    return out


EXPLANATION = (
    "wntr/morph/link.py (split_pipe, break_pipe, reverse_link): T3, finite evaluation -- the parsed functions are INTERPRETED by the module's own evaluator on a mock "
    "model. In 32 configurations numbers carry a sympy expression next to a sample value; branches follow the sample (s = 0.3 / 0.7), results are compared as "
    "identities on that path (no path enumeration); polyline geometry, s = 0 / 1 and refusals are numeric fixtures. Bounded to these scenarios. R-C19-1: new + kept "
    "length = L, the start part gets L*s, junction elevation / coordinates interpolate at s, vertices partitioned in order, s outside [0,1] refused before mutation "
    "(+ T1 CFG must-pass: add_junction arguments assigned on every path). R-C19-2: the new pipe gets the old diameter, roughness, base status and a false check valve. "
    "R-C19-2b: minor losses add up. R-C19-2c (closed-pipe SPLIT fixtures only): the new half is not created Closed. R-C19-3: the old pipe is re-wired by one end-node "
    "store, SPLIT meets at one junction, BREAK at two, clashes and non-pipes refused before mutation. R-C19-4: with return_copy every mutation goes to the deep copy "
    "(link.py by T3; _Skeletonize.__init__ by T2 with text comparison; other methods by AST pattern). skel.py::_Skeletonize, T2 symbolic path enumeration, guards / "
    "events compared as canonical text: R-C19-5 remove_link only under isinstance Pipe, diameter <= threshold, not excluded; remove_node only for a non-excluded "
    "junction; exclusion lists fed from controls / sources (AST + substring match). R-C19-6 demands and skeleton-map entries move to one retained junction before "
    "remove_node; initial map {n: [n]}. R-C19-7 (T1 shape match on the top-level statements of __init__, not a path rule): duration saved, set to 0, run_sim, "
    "restored, in this order. Decides these clauses, not hydraulic equivalence.")
RULE_TEXT = "one instance = one promised fact (formula, argument, refusal, mutation or removal site), discharged iff it holds in every evaluated scenario / on every enumerated path; distinct = distinct constructs"
ASSUMPTIONS = [
    "copy.deepcopy of a WaterNetworkModel shares nothing mutable with the original (pickling hooks are checked under C10)",
    "demand entries are moved as objects (pattern registry usage records of the retained junction are not re-registered; inventoried, outside the statement)",
    "WaterNetworkModel.get_link / get_node / nodes() / links() / add_junction / add_pipe behave as documented (lookup by name, creation under the given name); add_pipe and add_junction "
    "arguments are bound through their signatures in wntr/network/model.py",
    "R-C19-1 .. -3 decide their clauses on the evaluated scenarios only: the symbolic identities hold on the path the sample value takes, polyline geometry and the ends s = 0 / 1 are numeric",
    "R-C19-2 accepts any check_valve value that evaluates to False, 0 or None (it does not require a constant); R-C19-2c and R-C19-7 have no instance floor",
]


def run(repo, chk):
    link_rules(repo, chk)
    chk.floor("R-C19-1", 18)
    chk.floor("R-C19-2", 10)
    chk.floor("R-C19-2b", 2)
    chk.floor("R-C19-3", 10)
    skel_rules(repo, chk)
    chk.floor("R-C19-4", 7 + 2 + 5 + 1)
    init_rules(repo, chk)
    chk.floor("R-C19-5", 5 + 2 + 2 + 2 + 2)
    chk.floor("R-C19-6", 2 * 3 + 1)


WITNESSES = [
    dict(name="new-pipe-gets-check-valve", file=LINK, old="                     original_length * (1 - split_at_point), pipe.diameter,\n                     pipe.roughness, pipe.minor_loss, pipe.initial_status, False)",
         new="                     original_length * (1 - split_at_point), pipe.diameter,\n                     pipe.roughness, pipe.minor_loss, pipe.initial_status, pipe.check_valve)", rule="R-C19-2"),
    dict(name="lengths-swapped-at-start", file=LINK, old="        pipe.length = original_length * (1 - split_at_point)\n", new="        pipe.length = original_length * split_at_point\n", rule="R-C19-1"),
    dict(name="coordinates-undefined-at-zero", file=LINK, old="        junction_coordinates = pipe.start_node.coordinates\n", new="", rule="R-C19-1"),
    dict(name="new-pipe-gets-simulation-status", file=LINK, old="                     original_length * (1 - split_at_point), pipe.diameter,\n                     pipe.roughness, pipe.minor_loss, pipe.initial_status, False)",
         new="                     original_length * (1 - split_at_point), pipe.diameter,\n                     pipe.roughness, pipe.minor_loss, pipe.status, False)", rule="R-C19-2"),
    dict(name="first-segment-skipped-by-value", file=LINK, old="        for segment in segments[1:]:\n            if segment['subtotal'] < split_length:",
         new="        for segment in segments:\n            if segment['start_pos'] == pipe.start_node.coordinates:\n                pass\n            elif segment['subtotal'] < split_length:", rule="R-C19-1"),
    dict(name="source-junctions-not-excluded", file=SKEL, old="        self.junc_to_exclude.extend([source.node_name for name, source in self.wn.sources()])\n", new="", rule="R-C19-5"),
    dict(name="roughness-minor-loss-swapped", file=LINK, old="                     original_length * split_at_point, pipe.diameter,\n                     pipe.roughness, pipe.minor_loss,",
         new="                     original_length * split_at_point, pipe.diameter,\n                     pipe.minor_loss, pipe.roughness,", rule="R-C19-2"),
    dict(name="elevation-from-wrong-end", file=LINK, old="        junction_elevation = e0 + de * split_at_point", new="        junction_elevation = e0 + de * (1 - split_at_point)", rule="R-C19-1"),
    dict(name="split-reads-original-model", file=LINK, old="    pipe = wn2.get_link(pipe_name_to_split)", new="    pipe = wn.get_link(pipe_name_to_split)", rule="R-C19-4"),
    dict(name="break-uses-one-junction", file=LINK, old="        j1 = new_junction_names[1]", new="        j1 = new_junction_names[0]", rule="R-C19-3"),
    dict(name="trim-ignores-exclusion", file=SKEL, old="            if not ((isinstance(pipe, Pipe)) and \\\n                (pipe.diameter <= pipe_threshold) and \\\n                pipe_name not in self.pipe_to_exclude):",
         new="            if not ((isinstance(pipe, Pipe)) and \\\n                (pipe.diameter <= pipe_threshold)):", rule="R-C19-5"),
    dict(name="series-merge-threshold-or", file=SKEL, old="                ((pipe0.diameter <= pipe_threshold) and \\\n                (pipe1.diameter <= pipe_threshold)) and \\\n                pipe_name0 not in self.pipe_to_exclude and \\\n                pipe_name1 not in self.pipe_to_exclude):\n                continue\n            # Find closest",
         new="                ((pipe0.diameter <= pipe_threshold) or \\\n                (pipe1.diameter <= pipe_threshold)) and \\\n                pipe_name0 not in self.pipe_to_exclude and \\\n                pipe_name1 not in self.pipe_to_exclude):\n                continue\n            # Find closest", rule="R-C19-5"),
    dict(name="demand-moved-after-removal-dropped", file=SKEL, old="            for demand in junc.demand_timeseries_list:\n                neigh_junc.demand_timeseries_list.append(demand)\n", new="", rule="R-C19-6"),
    dict(name="map-to-other-junction", file=SKEL, old="            self.skeleton_map[closest_junc.name].extend(self.skeleton_map[junc_name])", new="            self.skeleton_map[neigh_junc_name0].extend(self.skeleton_map[junc_name])", rule="R-C19-6"),
    dict(name="duration-not-restored", file=SKEL, old="        self.wn.options.time.duration = duration\n", new="", rule="R-C19-7"),
    dict(name="crossing-guard-open-at-the-wrong-end", file=LINK, old="            if segment['subtotal'] + segment['length'] >= split_length > segment['subtotal']:",
         new="            if segment['subtotal'] + segment['length'] > split_length >= segment['subtotal']:", rule="R-C19-1"),
    dict(name="split-length-from-pipe-length", file=LINK, old="        split_length = length * split_at_point", new="        split_length = pipe.length * split_at_point", rule="R-C19-1"),
    dict(name="vertex-order-reversed", file=LINK, old="        pipe.vertices = first_vertices\n", new="        pipe.vertices = first_vertices[::-1]\n", rule="R-C19-1"),
    dict(name="range-check-after-junction", file=LINK, old="    if split_at_point < 0 or split_at_point > 1:\n        raise ValueError('split_at_point must be between 0 and 1')\n", new="",
         also=[("    original_length = pipe.length\n", "    original_length = pipe.length\n    if split_at_point < 0 or split_at_point > 1:\n        raise ValueError('split_at_point must be between 0 and 1')\n")],
         rule="R-C19-1"),
    dict(name="rewire-through-private-field", file=LINK, old="        pipe.end_node = wn2.get_node(j0)", new="        pipe._end_node = wn2.get_node(j0)", rule="R-C19-3"),
    dict(name="returns-the-argument", file=LINK, old="                    pipe will not have a check valve.')\n\n    return wn2", new="                    pipe will not have a check valve.')\n\n    return wn", rule="R-C19-4"),
    dict(name="node-of-the-original-wired-into-the-copy", file=LINK, old="        pipe.end_node = wn2.get_node(j0)", new="        pipe.end_node = wn2.get_node(j0)\n        pipe.start_node = wn.get_node(start_node.name)",
         rule="R-C19-4"),
    dict(name="skeleton-never-copies", file=SKEL, old="            self.wn = copy.deepcopy(wn)\n", new="            self.wn = wn\n", rule="R-C19-4"),
    dict(name="trim-ignores-junction-exclusion", file=SKEL, old="            if junc_name in self.junc_to_exclude:\n                continue\n            neighbors = list(nx.neighbors(self.G,junc_name))\n            if len(neighbors) > 1:",
         new="            neighbors = list(nx.neighbors(self.G,junc_name))\n            if len(neighbors) > 1:", rule="R-C19-5"),
    dict(name="receiver-may-be-a-tank", file=SKEL, old="            if not (isinstance(neigh_junc, Junction)):\n                continue\n", new="", rule="R-C19-5"),
    dict(name="map-not-emptied", file=SKEL, old="            self.skeleton_map[neigh_junc_name].extend(self.skeleton_map[junc_name])\n            self.skeleton_map[junc_name] = []\n",
         new="            self.skeleton_map[neigh_junc_name].extend(self.skeleton_map[junc_name])\n", rule="R-C19-6"),
    dict(name="node-removed-before-demands-move", file=SKEL, old="            self.wn.remove_link(pipe_name, force=True)\n            self.wn.remove_node(junc_name, force=True)\n",
         new="            self.wn.remove_link(pipe_name, force=True)\n",
         also=[("            junc = self.wn.get_node(junc_name)\n            for demand in junc.demand_timeseries_list:\n                neigh_junc.demand_timeseries_list.append(demand)\n",
                "            junc = self.wn.get_node(junc_name)\n            self.wn.remove_node(junc_name, force=True)\n            for demand in junc.demand_timeseries_list:\n"
                "                neigh_junc.demand_timeseries_list.append(demand)\n")], rule="R-C19-6"),
    dict(name="initial-map-skips-tanks", file=SKEL, old="        for node_name in self.wn.node_name_list:\n            skel_map[node_name] = [node_name]",
         new="        for node_name in self.wn.junction_name_list:\n            skel_map[node_name] = [node_name]", rule="R-C19-6"),
    # ---- behaviour-preserving rewrites of the current source: every one of them must leave all rules quiet
    dict(name="silent-elevation-helper-with-early-returns", file=LINK, silent=True,
         old="    if isinstance(start_node, Reservoir):\n        junction_elevation = end_node.elevation\n    elif isinstance(end_node, Reservoir):\n        junction_elevation = start_node.elevation\n"
             "    else:\n        e0 = start_node.elevation\n        de = end_node.elevation - e0\n        junction_elevation = e0 + de * split_at_point\n",
         new="    junction_elevation = _interpolate_elevation(start_node, end_node,\n                                                split_at_point)\n",
         also=[("def _split_or_break_pipe(wn,", "def _interpolate_elevation(start_node, end_node, split_at_point):\n    if isinstance(start_node, Reservoir):\n        return end_node.elevation\n"
                "    if isinstance(end_node, Reservoir):\n        return start_node.elevation\n    e0 = start_node.elevation\n    de = end_node.elevation - e0\n    return e0 + de * split_at_point\n\n\n"
                "def _split_or_break_pipe(wn,")]),
    dict(name="silent-placement-branches-deduplicated", file=LINK, silent=True,
         old="    if add_pipe_at_end:\n        pipe.end_node = wn2.get_node(j0)\n        # add new pipe and change original length\n        wn2.add_pipe(new_pipe_name, j1, end_node.name,\n"
             "                     original_length * (1 - split_at_point), pipe.diameter,\n                     pipe.roughness, pipe.minor_loss, pipe.initial_status, False)\n"
             "        pipe.length = original_length * split_at_point\n        pipe.vertices = first_vertices\n        new_pipe = wn2.get_link(new_pipe_name)\n        new_pipe.vertices = last_vertices\n"
             "    else:  # add pipe at start\n        pipe.start_node = wn2.get_node(j0)\n        # add new pipe and change original length\n        wn2.add_pipe(new_pipe_name, start_node.name, j1,\n"
             "                     original_length * split_at_point, pipe.diameter,\n                     pipe.roughness, pipe.minor_loss, pipe.initial_status, False)\n"
             "        pipe.length = original_length * (1 - split_at_point)\n        pipe.vertices = last_vertices\n        new_pipe = wn2.get_link(new_pipe_name)\n        new_pipe.vertices = first_vertices\n",
         new="    first_length = original_length * split_at_point\n    last_length = original_length * (1 - split_at_point)\n    if add_pipe_at_end:\n        pipe.end_node = wn2.get_node(j0)\n"
             "        ends = (j1, end_node.name)\n        new_length, new_vertices = last_length, last_vertices\n        kept_length, kept_vertices = first_length, first_vertices\n"
             "    else:\n        pipe.start_node = wn2.get_node(j0)\n        ends = (start_node.name, j1)\n        new_length, new_vertices = first_length, first_vertices\n"
             "        kept_length, kept_vertices = last_length, last_vertices\n    wn2.add_pipe(new_pipe_name, *ends, length=new_length, diameter=pipe.diameter,\n"
             "                 roughness=pipe.roughness, minor_loss=pipe.minor_loss,\n                 initial_status=pipe.initial_status, check_valve=False)\n    pipe.length = kept_length\n"
             "    pipe.vertices = kept_vertices\n    wn2.get_link(new_pipe_name).vertices = new_vertices\n"),
    dict(name="silent-segments-as-namedtuples-and-comprehensions", file=LINK, silent=True,
         old="        for i in range(len(pipe_vertices) - 1):\n            start_pos = pipe_vertices[i]\n            end_pos = pipe_vertices[i + 1]\n",
         new="        for start_pos, end_pos in zip(pipe_vertices[:-1], pipe_vertices[1:]):\n",
         also=[("import copy\n", "import copy\nimport collections\n"),
               ("def _split_or_break_pipe(wn,", "_Segment = collections.namedtuple('_Segment', ['start_pos', 'end_pos', 'length', 'subtotal'])\n\n\ndef _split_or_break_pipe(wn,"),
               ("            segments.append({'start_pos': start_pos,\n                             'end_pos': end_pos,\n                             'length': segment_length,\n"
                "                             'subtotal': subtotal})", "            segments.append(_Segment(start_pos, end_pos, segment_length, subtotal))"),
               ("        length = last_segment['subtotal'] + last_segment['length']", "        length = last_segment.subtotal + last_segment.length"),
               ("        for segment in segments[1:]:\n            if segment['subtotal'] < split_length:\n                first_vertices.append(segment['start_pos'])\n            else:\n"
                "                last_vertices.append(segment['start_pos'])\n",
                "        first_vertices = [seg.start_pos for seg in segments[1:] if seg.subtotal < split_length]\n"
                "        last_vertices = [seg.start_pos for seg in segments[1:] if not seg.subtotal < split_length]\n"),
               ("            if segment['subtotal'] + segment['length'] >= split_length > segment['subtotal']:\n                split_at = ((split_length - segment['subtotal'])\n"
                "                            / segment['length'])\n                x0 = segment['start_pos'][0]\n                dx = segment['end_pos'][0] - x0\n"
                "                y0 = segment['start_pos'][1]\n                dy = segment['end_pos'][1] - y0\n",
                "            if segment.subtotal < split_length <= segment.subtotal + segment.length:\n                split_at = (split_length - segment.subtotal) / segment.length\n"
                "                (x0, y0), (x1, y1) = segment.start_pos, segment.end_pos\n                dx, dy = x1 - x0, y1 - y0\n")]),
    dict(name="silent-range-check-chained-comparison", file=LINK, silent=True, old="    if split_at_point < 0 or split_at_point > 1:", new="    if not 0 <= split_at_point <= 1:"),
    dict(name="silent-copy-as-conditional-expression", file=LINK, silent=True,
         old="    if return_copy:  # Get a copy of the WaterNetworkModel\n        wn2 = copy.deepcopy(wn)\n    else:\n        wn2 = wn\n\n    pipe = wn2.get_link(pipe_name_to_split)",
         new="    wn2 = wn if return_copy == False else copy.deepcopy(wn)\n    pipe = wn2.get_link(pipe_name_to_split)"),
    dict(name="silent-flag-dispatch-table", file=LINK, silent=True,
         old="    if flag == 'BREAK':\n        j0 = new_junction_names[0]\n        j1 = new_junction_names[1]\n    elif flag == 'SPLIT':\n        j0 = new_junction_names[0]\n        j1 = new_junction_names[0]\n",
         new="    j0 = new_junction_names[0]\n    j1 = new_junction_names[{'BREAK': 1, 'SPLIT': 0}[flag]]\n"),
    dict(name="silent-absorb-junction-method-extracted", file=SKEL, silent=True,
         old="            self.skeleton_map[neigh_junc_name].extend(self.skeleton_map[junc_name])\n            self.skeleton_map[junc_name] = []\n",
         new="            self._absorb_junction(junc_name, neigh_junc)\n",
         also=[("            junc = self.wn.get_node(junc_name)\n            for demand in junc.demand_timeseries_list:\n                neigh_junc.demand_timeseries_list.append(demand)\n"
                "            junc.demand_timeseries_list.clear()\n", ""),
               ("    def _select_dominant_pipe(self, pipe0, pipe1):", "    def _absorb_junction(self, junc_name, retained_junc):\n"
                "        self.skeleton_map[retained_junc.name].extend(self.skeleton_map[junc_name])\n        self.skeleton_map[junc_name] = []\n        junc = self.wn.get_node(junc_name)\n"
                "        for demand in junc.demand_timeseries_list:\n            retained_junc.demand_timeseries_list.append(demand)\n        junc.demand_timeseries_list.clear()\n\n"
                "    def _select_dominant_pipe(self, pipe0, pipe1):")]),
    dict(name="silent-map-as-dict-comprehension-fstring-log", file=SKEL, silent=True,
         old="        skel_map = {}\n        for node_name in self.wn.node_name_list:\n            skel_map[node_name] = [node_name]\n        self.skeleton_map = skel_map\n",
         new="        self.skeleton_map = {node_name: [node_name]\n                             for node_name in self.wn.node_name_list}\n",
         also=[("            logger.info('Branch trim: '+ str(junc_name) + str(neighbors))", "            logger.info(f'Branch trim: {junc_name}{neighbors}')"),
               ("            iteration = iteration + 1", "            iteration += 1")]),
    dict(name="silent-trim-guard-de-morgan", file=SKEL, silent=True,
         old="            if not ((isinstance(pipe, Pipe)) and \\\n                (pipe.diameter <= pipe_threshold) and \\\n                pipe_name not in self.pipe_to_exclude):",
         new="            if not isinstance(pipe, Pipe) or pipe.diameter > pipe_threshold or \\\n                pipe_name in self.pipe_to_exclude:"),
    dict(name="silent-skeleton-copy-as-conditional-expression", file=SKEL, silent=True,
         old="        if return_copy:\n            # Get a copy of the WaterNetworkModel\n            self.wn = copy.deepcopy(wn)\n        else:\n            self.wn = wn\n",
         new="        self.wn = copy.deepcopy(wn) if return_copy else wn\n"),
    dict(name="silent-demand-move-by-extend", file=SKEL, silent=True,
         old="            for demand in junc.demand_timeseries_list:\n                closest_junc.demand_timeseries_list.append(demand)\n",
         new="            closest_junc.demand_timeseries_list.extend(junc.demand_timeseries_list)\n"),
    dict(name="silent-cached-isinstance-and-implied-last-branch", file=SKEL, silent=True,
         old="            if not ((isinstance(neigh_junc0, Junction)) or \\\n               (isinstance(neigh_junc1, Junction))):\n                continue\n",
         new="            is_junc0 = isinstance(neigh_junc0, Junction)\n            is_junc1 = isinstance(neigh_junc1, Junction)\n            if not (is_junc0 or is_junc1):\n                continue\n",
         also=[("            if (isinstance(neigh_junc0, Junction)) and \\\n               (isinstance(neigh_junc1, Junction)):\n", "            if is_junc0 and is_junc1:\n"),
               ("            elif (isinstance(neigh_junc0, Junction)):\n                closest_junc = neigh_junc0\n            elif (isinstance(neigh_junc1, Junction)):\n"
                "                closest_junc = neigh_junc1\n            else:\n                continue\n",
                "            elif is_junc0:\n                closest_junc = neigh_junc0\n            else:\n                closest_junc = neigh_junc1\n"),
               ("            if len(neighbors) > 1:\n                continue\n            if len(neighbors) == 0:\n                continue\n",
                "            if len(neighbors) != 1:\n                continue\n")]),
    dict(name="series-receiver-unguarded-last-branch", file=SKEL,
         old="            elif (isinstance(neigh_junc1, Junction)):\n                closest_junc = neigh_junc1\n            else:\n                continue\n",
         new="            else:\n                closest_junc = neigh_junc1\n",
         also=[("            if not ((isinstance(neigh_junc0, Junction)) or \\\n               (isinstance(neigh_junc1, Junction))):\n                continue\n", "")], rule="R-C19-5"),
]
