"""C07 -- pressure-dependent demand follows the documented pressure-demand curve."""
import ast

import sympy as sp

from ..src import walk, calls, call_name, dotted, const, loc, unparse, norm, AnchorError, ExtractError
from ..symx import SymExec, Opaque, CondExpr, Constraint, Ineq, State, is_zero, rat
from .. import builders as B
from ..builders import canon, canon_symbol as cs

CON, PAR = B.CONSTRAINT, B.PARAM
ELEM = "wntr/network/elements.py"

EXPLANATION = (
    "Formula extraction of pdd_constraint (five-branch conditional residual), cubic_spline, pdd_poly_coeffs_param, pmin_param and pnom_param: "
    "the guards are p<=Pmin, p<=Pmin+delta, p<=Pnom-delta, p<=Pnom with p = head - elevation; the analytic branches are s(p-Pmin), "
    "((p-Pmin)/(Pnom-Pmin))^E and s(p-Pnom)+1 with E the junction's exponent if set else the global one; cubic_spline satisfies its four "
    "interpolation identities symbolically; the value/derivative data handed to cubic_spline equal the neighbouring analytic branches at all "
    "four breakpoints AS FORMULAS IN E (continuity for any exponent); per-junction overrides use 'node value if not None else global' and "
    "trigger re-computation. Decides the curve registered with the solver, not the solved demand.")
RULE_TEXT = "one instance = one branch formula, guard, spline identity, breakpoint datum or override rule"
ASSUMPTIONS = ["Pnom > Pmin, 0 < E <= 1", "monotonicity of the two smoothing cubics between their end data is not decided", "R-C07-5 evaluates the band-width expression on a grid of pressure ranges (1e-4 .. 1e3 m, incl. the option defaults), not for every real range"]


SPLINE_PARAMS = ["x1", "x2", "f1", "f2", "df1", "df2"]        # refreshed from the signature of cubic_spline in run()


def spline_hook(record):
    def hook(name, node, args, kwargs, st, ex, recv):
        if name == "cubic_spline":
            i = len(record)
            bound = list(args)
            for p_ in SPLINE_PARAMS[len(bound):]:            # keyword arguments, bound by the helper's own parameter names
                if p_ not in kwargs:
                    raise ExtractError("cubic_spline called without a value for %s" % p_)
                bound.append(kwargs[p_])
            record.append(bound)
            return tuple(Opaque("spline%d.%s" % (i, k)) for k in "abcd")
        return NotImplemented
    return hook


def option_defaults(repo):
    """defaults of HydraulicOptions.__init__ for the PDD pressures (plain constants), or {}"""
    try:
        fn = repo.func("wntr/network/options.py", "HydraulicOptions.__init__")
    except AnchorError:
        return {}
    out = {}
    a = fn.args
    names = [x.arg for x in a.args]
    for nm, dv in zip(names[len(names) - len(a.defaults):], a.defaults):
        if nm in ("required_pressure", "minimum_pressure") and isinstance(const(dv), (int, float)):
            out[nm] = float(const(dv))
    return out


def run(repo, chk):
    SPLINE_PARAMS[:] = [a.arg for a in repo.func(B.SPLINE, "cubic_spline").args.args]
    if len(SPLINE_PARAMS) != 6:
        raise AnchorError("cubic_spline no longer takes (x1, x2, f1, f2, df1, df2): %s" % SPLINE_PARAMS)
    delta, slope = cs("pdd_smoothing_delta"), cs("pdd_slope")
    h, elev, pmin, pnom = cs("h"), cs("elev"), cs("pmin"), cs("pnom")
    d, D = cs("demand"), cs("expected_demand")
    E = cs("pressure_exponent")
    P = h - elev

    # ---------------------------------------------------------------- R-C07-1 branch structure
    with chk.part("R-C07-1 branch structure"):
        fn, paths, ex = B.run_builder(repo, CON, "pdd_constraint.build")
        chk.fn(fn)
        g = {}
        seen_exp = set()
        widths = set()
        baked = set()
        for p in paths:
            iso = [v for t, v in p.conds if t.endswith("._is_isolated")]
            st = p.stores("m.pdd[")
            if iso and iso[0]:
                chk.expect(not st, "R-C07-1", "isolated junction gets no PDD row", loc(fn))
                continue
            none = [v for t, v in p.conds if t.endswith(".pressure_exponent is None")]
            if not st or not isinstance(st[-1][1], Constraint) or not isinstance(st[-1][1].expr, CondExpr):
                chk.bad("R-C07-1", "pdd_constraint stores a conditional constraint per connected junction", loc(fn), found=[s[0] for s in st])
                continue
            ce = st[-1][1].expr
            brs = list(ce.branches) + [(None, ce.final)]
            tag = "exponent from %s" % ("global option" if none and none[0] else "junction")
            if len(brs) != 5:
                chk.bad("R-C07-1", "pdd_constraint has five branches [%s]" % tag, loc(fn), found=len(brs))
                continue
            # which exponent symbol is used?
            raw3 = ex.S(brs[2][1])
            src = [s.name for s in raw3.free_symbols if s.name.endswith("pressure_exponent")]
            want_src = "wn.options.hydraulic.pressure_exponent" if none and none[0] else "wn.get_node(node_name).pressure_exponent"
            chk.expect(src == [want_src], "R-C07-1", "exponent is the junction's pressure_exponent if set, else the global option [%s]" % tag, loc(fn),
                       expected=want_src, found=src)
            seen_exp.add(bool(none and none[0]))
            refs = [slope * (P - pmin), None, ((P - pmin) / (pnom - pmin)) ** E, None, slope * (P - pnom) + 1]
            a1, b1, c1, d1 = (cs("pdd_poly1_coeffs_" + k) for k in "abcd")
            a2, b2, c2, d2 = (cs("pdd_poly2_coeffs_" + k) for k in "abcd")
            refs[1] = a1 * P ** 3 + b1 * P ** 2 + c1 * P + d1
            refs[3] = a2 * P ** 3 + b2 * P ** 2 + c2 * P + d2
            bodies = []
            for gd, _e in brs[:4]:
                if not (isinstance(gd, Ineq) and gd.lb is None and gd.ub is not None):
                    bodies = None
                    break
                bodies.append(canon(gd.body)[0] - canon(ex.S(gd.ub))[0])
            if bodies is None:
                chk.bad("R-C07-1", "the four guards are upper-bounded inequalities [%s]" % tag, loc(fn), found=[str(b[0]) for b in brs[:4]])
                continue
            # band width as the constraint sees it: whatever separates guard 1 from p-Pmin and guard 2 from p-Pnom (a constant or a per-junction Param)
            w_lo = sp.simplify((P - pmin) - bodies[1])
            w_hi = sp.simplify(bodies[2] - (P - pnom))
            free = {s_.name for s_ in (w_lo.free_symbols | w_hi.free_symbols)}
            chk.expect(is_zero(w_lo - w_hi) and not ({"h", "elev", "demand"} & free), "R-C07-1",
                       "both smoothing bands of the constraint have one width that does not depend on the unknowns [%s]" % tag, loc(fn),
                       found="lower band %s, upper band %s" % (w_lo, w_hi))
            widths.add(w_lo)
            gref = [P - pmin, P - pmin - w_lo, P - pnom + w_lo, P - pnom]
            for i, (gd, e) in enumerate(brs):
                R, _ = canon(ex.S(e))
                chk.expect(is_zero(R - (d - D * refs[i])), "R-C07-1", "branch %d residual is  d - D*g%d(p) [%s]" % (i, i + 1, tag), loc(fn),
                           "documented pressure-demand curve", expected=str(d - D * refs[i]), found=str(R))
                if gd is not None:
                    chk.expect(is_zero(bodies[i] - gref[i]), "R-C07-1", "branch %d guard is p <= %s [%s]" % (i, ["Pmin", "Pmin + band", "Pnom - band", "Pnom"][i], tag), loc(fn),
                               expected="%s <= 0" % gref[i], found=str(gd))
            # values of the junction baked into the row as plain numbers (not Params): the row must be rebuilt when they change
            for gd, e in brs:
                for s_ in ex.S(e).free_symbols:
                    if s_.name.startswith("wn.get_node(node_name)."):
                        baked.add(s_.name.split(".")[-1])
            for t, v in p.conds:
                if t.startswith("wn.get_node(node_name).") and t.endswith(" is None"):
                    baked.add(t[len("wn.get_node(node_name)."):-len(" is None")])
            g = {1: refs[0], 3: refs[2], 5: refs[4]}
        B.check_updaters(chk, "R-C07-1", fn, "pdd_constraint", paths, {"_is_isolated"} | baked, loc(fn))
        if len(widths) != 1:
            raise ExtractError("pdd_constraint: band width not unique across paths: %s" % sorted(map(str, widths)))
        W = widths.pop()
        chk.expect(seen_exp == {True, False}, "R-C07-1", "both exponent sources (junction / global) are handled", loc(fn), found=sorted(seen_exp))
        # monotone analytic branches
        pp = sp.Symbol("p", positive=True)
        gap = sp.Symbol("gap", positive=True)           # Pnom - Pmin > 0
        e01 = sp.Symbol("pressure_exponent", positive=True)
        chk.expect(sp.diff(slope * (pp), pp).is_positive, "R-C07-1", "branch 1 and 5 slopes are positive (pdd_slope > 0)", loc(fn))
        d3 = sp.diff((pp / gap) ** e01, pp)
        chk.expect(sp.simplify(d3).is_nonnegative or sp.simplify(d3).is_positive, "R-C07-1", "power-law branch is non-decreasing for p > Pmin, Pnom > Pmin, E > 0", loc(fn), found=str(d3))
        consts = B.constants(repo)
        sl = consts.get("pdd_slope")
        dl = consts.get("pdd_smoothing_delta")
        chk.expect(sl is not None and sl[0] > 0 and sl[0] < sp.Rational(1, 1000), "R-C07-1", "pdd_slope is a small positive constant", loc(B.CONSTANTS), found=str(sl))
        chk.expect(dl is not None and dl[0] > 0, "R-C07-1", "pdd_smoothing_delta is positive", loc(B.CONSTANTS), found=str(dl))
        chk.floor("R-C07-1", 2 * (1 + 5 + 4) + 4)

    # ---------------------------------------------------------------- R-C07-2 spline soundness
    with chk.part("R-C07-2 spline soundness"):
        sfn = repo.func(B.SPLINE, "cubic_spline")
        chk.fn(sfn)
        exs = SymExec()
        outs = exs.run(sfn)
        if len(outs) != 1 or not isinstance(outs[0].ret, tuple) or len(outs[0].ret) != 4:
            raise ExtractError("cubic_spline: expected one path returning 4 coefficients")
        a, b, c, dd = (exs.S(v) for v in outs[0].ret)
        x = sp.Symbol("x")
        poly = a * x ** 3 + b * x ** 2 + c * x + dd
        sy = lambda n: exs.sym(n)
        for nm, lhs, rhs in (("p(x1)=f1", poly.subs(x, sy("x1")), sy("f1")), ("p(x2)=f2", poly.subs(x, sy("x2")), sy("f2")),
                             ("p'(x1)=df1", sp.diff(poly, x).subs(x, sy("x1")), sy("df1")), ("p'(x2)=df2", sp.diff(poly, x).subs(x, sy("x2")), sy("df2"))):
            chk.expect(sp.simplify(lhs - rhs) == 0, "R-C07-2", "cubic_spline interpolation identity %s" % nm, loc(sfn), found=str(sp.simplify(lhs - rhs)))
        chk.floor("R-C07-2", 4)

    # ---------------------------------------------------------------- R-C07-3 breakpoint agreement (as formulas in E)
    with chk.part("R-C07-3 breakpoint agreement (as formulas in E)"):
        rec = []
        pfn, ppaths, pex = B.run_builder(repo, PAR, "pdd_poly_coeffs_param.build", call_hook=spline_hook(rec))
        chk.fn(pfn)
        # analyse each path separately: re-run per path is not needed, the hook records calls per evaluation order; use the path where
        # both node values are set and the one where both are None -- the recorded data must agree on every path after canonicalisation.
        npaths = 0
        wexprs = []
        for pth in ppaths:
            if pth.st.raised:
                continue
            rec2 = []
            # re-run with a hook bound to this path's decisions
            decisions = dict(pth.conds)

            def th(txt, node, st, decisions=decisions):
                r = B.std_test_hook(txt, node, st)
                if r is not None:
                    return r
                return decisions.get(txt)
            _, pp2, ex2 = B.run_builder(repo, PAR, "pdd_poly_coeffs_param.build", test_hook=th, call_hook=spline_hook(rec2))
            pp2 = [q_ for q_ in pp2 if not q_.st.raised]
            if len(pp2) != 1 or len(rec2) != 2:
                raise ExtractError("pdd_poly_coeffs_param: expected one path with two cubic_spline calls, got %d paths / %d calls" % (len(pp2), len(rec2)))
            npaths += 1
            p2 = pp2[0]
            eglob = decisions.get("wn.get_node(node_name).pressure_exponent is None")
            tag = "Pmin %s, Pnom %s, E %s" % ("global" if decisions.get("wn.get_node(node_name).minimum_pressure is None") else "junction",
                                                "global" if decisions.get("wn.get_node(node_name).required_pressure is None") else "junction",
                                                "literal" if eglob is None else ("global" if eglob else "junction"))
            rawE = set()
            for r in rec2:
                for v in r:
                    try:
                        rawE |= {s_.name for s_ in ex2.S(v).free_symbols if s_.name.endswith("pressure_exponent")}
                    except ExtractError:
                        pass
            if eglob is not None:
                wantE = {"wn.options.hydraulic.pressure_exponent"} if eglob else {"wn.get_node(node_name).pressure_exponent"}
                chk.expect(rawE == wantE, "R-C07-4", "pdd_poly_coeffs_param takes the exponent from the junction if set, else from the global option [%s]" % tag, loc(pfn),
                           "the spline data and the constraint must use the same exponent", expected=sorted(wantE), found=sorted(rawE))
            # exponent used for the neighbours: the same junction-or-global rule; accept a param builder that reads the exponent (either source) or E
            sub = {cs("minimum_pressure"): pmin, cs("required_pressure"): pnom}

            def C(v):
                e_, _ = canon(ex2.S(v))
                return e_.xreplace(sub)
            (x1a, x2a, f1a, f2a, df1a, df2a), (x1b, x2b, f1b, f2b, df1b, df2b) = [[C(v) for v in r] for r in rec2]
            # the band width the spline data are built with; if the constraint reads its band from a per-junction Param, that Param must be
            # filled here with the same expression (plumbing), else the guards and the fitted interval disagree
            wb = sp.simplify(x2a - x1a)
            wexprs.append((tag, wb))
            if W == delta:
                w_con = delta
            else:
                pname = [s_.name for s_ in W.free_symbols]
                stored = None
                for e in p2.st.events:
                    if e[0] == "call" and e[1].startswith("aml.Param("):
                        pass
                sts = [x_ for x_ in p2.stores("m.") if x_[0].endswith("[node_name]") and canon(ex2.sym(x_[0]))[0] == W]
                pars = [e for e in p2.st.events if e[0] == "call" and e[1].startswith("aml.Param(")]
                allst = [x_ for x_ in p2.stores("m.") if x_[0].endswith("[node_name]")]
                for (t_, v_, ln_), pe in zip(allst, pars):
                    if canon(ex2.sym(t_))[0] == W:
                        stored = C(pe[2][1][0])
                if stored is None:
                    chk.bad("R-C07-3", "the per-junction band width %s read by the constraint is filled by pdd_poly_coeffs_param [%s]" % (W, tag), loc(pfn),
                            found=[x_[0] for x_ in allst][:12])
                    continue
                chk.expect(is_zero(stored - wb), "R-C07-3", "the band width stored for the constraint equals the one the splines are fitted on [%s]" % tag, loc(pfn),
                           expected=str(wb), found=str(stored))
                w_con = wb
            g1 = lambda q: slope * (q - pmin)
            g3 = lambda q: ((q - pmin) / (pnom - pmin)) ** E
            g5 = lambda q: slope * (q - pnom) + 1
            q = sp.Symbol("qq")
            dg = lambda f, at: sp.diff(f(q), q).subs(q, at)
            checks = [
                ("poly1 x1 = Pmin", x1a, pmin), ("poly1 x2 = Pmin + band", x2a, pmin + w_con),
                ("poly1 f1 = g1(Pmin)", f1a, g1(pmin)), ("poly1 df1 = g1'(Pmin)", df1a, dg(g1, pmin)),
                ("poly1 f2 = g3(Pmin+band)", f2a, g3(pmin + w_con)), ("poly1 df2 = g3'(Pmin+band)", df2a, dg(g3, pmin + w_con)),
                ("poly2 x1 = Pnom - band", x1b, pnom - w_con), ("poly2 x2 = Pnom", x2b, pnom),
                ("poly2 f1 = g3(Pnom-band)", f1b, g3(pnom - w_con)), ("poly2 df1 = g3'(Pnom-band)", df1b, dg(g3, pnom - w_con)),
                ("poly2 f2 = g5(Pnom)", f2b, g5(pnom)), ("poly2 df2 = g5'(Pnom)", df2b, dg(g5, pnom)),
            ]
            for nm, got, want in checks:
                # the exponent symbol in the param file may come from the junction or from the options: both canonicalise to pressure_exponent
                chk.expect(is_zero(got - want), "R-C07-3", "spline data %s [%s]" % (nm, tag), loc(pfn),
                           "the smoothing polynomial must start/end with the value and slope of the neighbouring analytic branch for ANY exponent, else the curve jumps at the band edge",
                           expected=str(sp.simplify(want)), found=str(sp.simplify(got)))
            # coefficient plumbing: poly1 <- first call, poly2 <- second call, a..d in order
            for t, v, ln in p2.stores("m.pdd_poly"):
                pass
            vals = {}
            for e in p2.st.events:
                if e[0] == "store" and e[1].startswith("m.pdd_poly") and e[1].endswith("[node_name].value"):
                    vals[e[1]] = e[2]
            params = [e for e in p2.st.events if e[0] == "call" and e[1].startswith("aml.Param(")]
            stores = p2.stores("m.")          # every `m.<dict>[node_name] = aml.Param(v)` in order, paired with the Param calls in order
            plumb = {}
            sts_ = [s_ for s_ in stores if s_[0].endswith("[node_name]")]
            if len(sts_) != len(params):
                raise ExtractError("pdd_poly_coeffs_param: %d per-junction stores but %d aml.Param calls" % (len(sts_), len(params)))
            for (t, v, ln), pe in zip(sts_, params):
                plumb[t] = pe[2][1][0]
            for i in (1, 2):
                for k in "abcd":
                    key = "m.pdd_poly%d_coeffs_%s[node_name]" % (i, k)
                    got = plumb.get(key)
                    chk.expect(isinstance(got, Opaque) and got.text == "spline%d.%s" % (i - 1, k), "R-C07-3", "%s receives coefficient %s of spline call %d [%s]" % (key, k, i, tag), loc(pfn), found=got)
            attrs = set(p2.updater_attrs())
            need = {"minimum_pressure", "required_pressure"} | ({"pressure_exponent"} if eglob is not None else set())
            chk.expect(need <= attrs, "R-C07-4", "pdd_poly_coeffs_param re-computes when the junction's Pmin/Pnom change [%s]" % tag, loc(pfn), found=sorted(attrs))
            B.check_updaters(chk, "R-C07-4", pfn, "pdd_poly_coeffs_param", [p2], need, loc(pfn))
        chk.floor("R-C07-3", 4 * 20)

    # ---------------------------------------------------------------- R-C07-5 the four thresholds are ordered for EVERY legal Pmin < Preq
    with chk.part("R-C07-5 the four thresholds are ordered for EVERY legal Pmin < Preq"):
        # (continuity was shown above branch by branch; it is only continuity of the CURVE if each branch is active on the interval its neighbours
        # were fitted on, i.e. Pmin <= Pmin+band <= Preq-band <= Preq.  With a fixed band of 0.05 m and the default Preq = 0.07 m the bands overlapped.)
        if dl is None:
            raise ExtractError("pdd_smoothing_delta constant not found")
        dval = float(dl[0])
        opt_def = option_defaults(repo)
        gaps = [1e-4, 0.02, 0.049, 0.05, 0.051, 0.07, 0.099, 0.1, 0.11, 0.2, 1.0, 20.0, 1e3]
        if opt_def.get("required_pressure") is not None and opt_def.get("minimum_pressure") is not None:
            gaps.append(opt_def["required_pressure"] - opt_def["minimum_pressure"])
            chk.extra["default_pressure_range"] = gaps[-1]
        nord = 0
        for tag, wb in wexprs[:1] + [x_ for x_ in wexprs[1:] if not is_zero(x_[1] - wexprs[0][1])]:
            for gp in sorted(set(gaps)):
                bad_at = []
                for pm in (-3.0, 0.0, 10.0):
                    wv = wb.xreplace({delta: sp.Float(dval), pmin: sp.Float(pm), pnom: sp.Float(pm + gp)})
                    try:
                        wv = float(wv)
                    except TypeError:
                        raise ExtractError("band width %s does not evaluate at Pmin=%s Preq=%s: %s" % (wb, pm, pm + gp, wv))
                    if not (wv > 0 and 2 * wv <= ((pm + gp) - pm) + 1e-12 * max(1.0, abs(pm))):     # the range as the floats carry it
                        bad_at.append("Pmin=%g Preq=%g band=%g" % (pm, pm + gp, wv))
                nord += 1
                chk.expect(not bad_at, "R-C07-5", "thresholds Pmin <= Pmin+band <= Preq-band <= Preq are ordered for Preq - Pmin = %g" % gp, loc(pfn),
                           "with overlapping bands the power-law branch is unreachable and the delivered demand jumps where the lower cubic hands over to the interior of the upper one",
                           expected="0 < band <= (Preq - Pmin)/2", found="; ".join(bad_at))
        chk.floor("R-C07-5", 12)

    # ---------------------------------------------------------------- R-C07-4 overrides
    with chk.part("R-C07-4 overrides"):
        for pname, dname, attr in (("pmin_param", "pmin", "minimum_pressure"), ("pnom_param", "pnom", "required_pressure")):
            fn2, pths, ex2 = B.run_builder(repo, PAR, pname + ".build")
            chk.fn(fn2)
            seen = set()
            for p in pths:
                if p.st.raised:
                    continue
                none = [v for t, v in p.conds if t == "wn.get_node(node_name).%s is None" % attr]
                if not none:
                    chk.bad("R-C07-4", "%s tests the junction's %s for None" % (pname, attr), loc(fn2), found=p.label)
                    continue
                params = [e for e in p.st.events if e[0] == "call" and e[1].startswith("aml.Param(")]
                val = params[-1][2][1][0] if params else None
                want = "wn.options.hydraulic.%s" % attr if none[0] else "wn.get_node(node_name).%s" % attr
                chk.expect(isinstance(val, Opaque) and val.text == want, "R-C07-4", "%s uses %s" % (pname, "the global option when the junction has none" if none[0] else "the junction's override"),
                           loc(fn2), expected=want, found=val)
                seen.add(none[0])
                B.check_updaters(chk, "R-C07-4", fn2, pname, [p], {attr}, loc(fn2))
            chk.expect(seen == {True, False}, "R-C07-4", "%s handles both override cases" % pname, loc(fn2), found=sorted(seen))
        chk.floor("R-C07-4", 8)

    # ---------------------------------------------------------------- R-C07-6 the overrides reach the model whenever they change
    with chk.part("R-C07-6 the overrides reach the model whenever they change"):
        from ._shared import rule_changes_forwarded
        rule_changes_forwarded(repo, chk, "R-C07-6")
        chk.floor("R-C07-6", 2)

    # ---------------------------------------------------------------- R-C07-7 every junction's curve is built from that junction's own data
    with chk.part("R-C07-7 every junction's curve is built from that junction's own data"):
        # (side condition of the single-iteration extraction above: the element loops carry nothing from one junction to the next)
        n7 = B.check_loop_independence(repo, chk, "R-C07-7", [(CON, "pdd_constraint.build"), (PAR, "pmin_param.build"), (PAR, "pnom_param.build"),
                                                             (PAR, "pdd_poly_coeffs_param.build"), (PAR, "expected_demand_param"), (B.VAR, "demand_var")], "junction")
        chk.floor("R-C07-7", 6)


HYD = "wntr/sim/hydraulics.py"
WITNESSES = [
    dict(name="exponent-carried-from-the-previous-junction", file=CON, old="            if node.pressure_exponent is None:\n                pressure_exponent = wn.options.hydraulic.pressure_exponent\n            else:\n                pressure_exponent = node.pressure_exponent",
         new="            if node.pressure_exponent is not None:\n                pressure_exponent = node.pressure_exponent",
         also=[("        for node_name in index_over:\n            if node_name in m.pdd:", "        pressure_exponent = wn.options.hydraulic.pressure_exponent\n        for node_name in index_over:\n            if node_name in m.pdd:")], rule="R-C07-7"),
    dict(name="exponent-default-then-override-inside-the-loop-preserving", file=CON, old="            if node.pressure_exponent is None:\n                pressure_exponent = wn.options.hydraulic.pressure_exponent\n            else:\n                pressure_exponent = node.pressure_exponent",
         new="            pressure_exponent = wn.options.hydraulic.pressure_exponent\n            if node.pressure_exponent is not None:\n                pressure_exponent = node.pressure_exponent", silent=True),
    dict(name="changes-of-isolated-elements-dropped", file=HYD, old="    for obj, attr in change_tracker.get_changes(ref_point='model'):\n        model_updater.update(m, wn, obj, attr)\n",
         new="    for obj, attr in change_tracker.get_changes(ref_point='model'):\n        if getattr(obj, '_is_isolated', False):\n            continue\n        model_updater.update(m, wn, obj, attr)\n", rule="R-C07-6"),
    dict(name="changes-materialised-first-preserving", file=HYD, old="    for obj, attr in change_tracker.get_changes(ref_point='model'):\n        model_updater.update(m, wn, obj, attr)\n",
         new="    changes = list(change_tracker.get_changes(ref_point='model'))\n    for change in changes:\n        target, attribute = change\n        model_updater.update(m, wn, target, attribute)\n", silent=True),
    dict(name="guard-pnom-pmin-swapped", file=CON, old="con.add_condition(aml.inequality(body=h - elev - pnom + delta, ub=0), d - d_expected*((h-elev-pmin)/(pnom-pmin))**pressure_exponent)",
         new="con.add_condition(aml.inequality(body=h - elev - pmin + delta, ub=0), d - d_expected*((h-elev-pmin)/(pnom-pmin))**pressure_exponent)", rule="R-C07-1"),
    dict(name="exponent-from-wrong-object", file=CON, old="            if node.pressure_exponent is None:\n                pressure_exponent = wn.options.hydraulic.pressure_exponent\n            else:\n                pressure_exponent = node.pressure_exponent",
         new="            pressure_exponent = wn.options.hydraulic.pressure_exponent", rule="R-C07-1"),
    dict(name="slope-sign", file=CON, old="con.add_final_expr(d - d_expected*(slope*(h - elev - pnom) + 1.0))", new="con.add_final_expr(d - d_expected*(-slope*(h - elev - pnom) + 1.0))", rule="R-C07-1"),
    dict(name="spline-c-coefficient", file=B.SPLINE, old="    c = df2 - 3 * x2 ** 2 * a - 2 * x2 * b", new="    c = df2 - 3 * x2 ** 2 * a - x2 * b", rule="R-C07-2"),
    dict(name="override-dropped", file=PAR, old="            if node.required_pressure is None:\n                required_pressure = wn.options.hydraulic.required_pressure\n            else:\n                required_pressure = node.required_pressure\n                \n            if node_name in m.pnom",
         new="            required_pressure = wn.options.hydraulic.required_pressure\n            if node_name in m.pnom", rule="R-C07-4"),
    dict(name="fixed-band-width-overlaps-for-short-ranges", file=PAR, old="            delta = min(m.pdd_smoothing_delta, (pnom - pmin)/4.0)", new="            delta = m.pdd_smoothing_delta", rule="R-C07-5"),
    dict(name="band-half-the-range-is-still-ordered", file=PAR, old="            delta = min(m.pdd_smoothing_delta, (pnom - pmin)/4.0)", new="            delta = min(m.pdd_smoothing_delta, (pnom - pmin)/2.0)", silent=True),
    dict(name="band-wider-than-half-the-range", file=PAR, old="            delta = min(m.pdd_smoothing_delta, (pnom - pmin)/4.0)", new="            delta = min(m.pdd_smoothing_delta, (pnom - pmin)/1.5)", rule="R-C07-5"),
    dict(name="constraint-band-differs-from-fitted-band", file=PAR, old="                m.pdd_delta[node_name] = aml.Param(delta)", new="                m.pdd_delta[node_name] = aml.Param(m.pdd_smoothing_delta)", rule="R-C07-3"),
    dict(name="exponent-change-does-not-rebuild-the-row", file=CON, old="            updater.add(node, 'pressure_exponent', pdd_constraint.update)\n", new="", rule="R-C07-1"),
    dict(name="poly2-f2", file=PAR, old="            x2 = pnom\n            f2 = 1.0", new="            x2 = pnom\n            f2 = 0.999", rule="R-C07-3"),
    dict(name="poly-coeffs-swapped", file=PAR, old="                m.pdd_poly1_coeffs_c[node_name] = aml.Param(c1)\n                m.pdd_poly1_coeffs_d[node_name] = aml.Param(d1)", new="                m.pdd_poly1_coeffs_c[node_name] = aml.Param(d1)\n                m.pdd_poly1_coeffs_d[node_name] = aml.Param(c1)", rule="R-C07-3"),
    dict(name="rename-preserving", file=CON, old="                delta = m.pdd_delta[node_name]\n                slope = m.pdd_slope\n                a1 =", new="                slope = m.pdd_slope\n                band = m.pdd_delta[node_name]\n                delta = band\n                a1 =", silent=True),
]
