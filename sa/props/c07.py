"""C07 -- pressure-dependent demand follows the documented pressure-demand curve."""
import ast

import sympy as sp

from ..src import walk, calls, call_name, dotted, const, loc, unparse, norm, AnchorError, ExtractError
from ..symx import SymExec, Opaque, CondExpr, Constraint, Ineq, State, is_zero, rat
from .. import builders as B
from ..builders import canon, canon_symbol as cs

CON, PAR = B.CONSTRAINT, B.PARAM
ELEM = "wntr/network/elements.py"

EXPLANATION = (
    "Formula extraction of pdd_constraint (five-branch conditional residual), cubic_spline, pdd_poly_coeffs_param, pmin_param and pnom_param: "
    "the guards are p<=Pmin, p<=Pmin+delta, p<=Pnom-delta, p<=Pnom with p = head - elevation; the analytic branches are s(p-Pmin), "
    "((p-Pmin)/(Pnom-Pmin))^E and s(p-Pnom)+1 with E the junction's exponent if set else the global one; cubic_spline satisfies its four "
    "interpolation identities symbolically; the value/derivative data handed to cubic_spline equal the neighbouring analytic branches at all "
    "four breakpoints AS FORMULAS IN E (continuity for any exponent); per-junction overrides use 'node value if not None else global' and "
    "trigger re-computation. Decides the curve registered with the solver, not the solved demand.")
RULE_TEXT = "one instance = one branch formula, guard, spline identity, breakpoint datum or override rule"
ASSUMPTIONS = ["Pnom > Pmin, 0 < E <= 1, delta > 0 (pnom_param enforces Pnom > delta)", "monotonicity of the two smoothing cubics between their end data is not decided"]


def spline_hook(record):
    def hook(name, node, args, kwargs, st, ex, recv):
        if name == "cubic_spline":
            i = len(record)
            record.append(list(args))
            return tuple(Opaque("spline%d.%s" % (i, k)) for k in "abcd")
        return NotImplemented
    return hook


def run(repo, chk):
    delta, slope = cs("pdd_smoothing_delta"), cs("pdd_slope")
    h, elev, pmin, pnom = cs("h"), cs("elev"), cs("pmin"), cs("pnom")
    d, D = cs("demand"), cs("expected_demand")
    E = cs("pressure_exponent")
    P = h - elev

    # ---------------------------------------------------------------- R-C07-1 branch structure
    fn, paths, ex = B.run_builder(repo, CON, "pdd_constraint.build")
    chk.fn(fn)
    g = {}
    seen_exp = set()
    for p in paths:
        iso = [v for t, v in p.conds if t.endswith("._is_isolated")]
        st = p.stores("m.pdd[")
        if iso and iso[0]:
            chk.expect(not st, "R-C07-1", "isolated junction gets no PDD row", loc(fn))
            continue
        none = [v for t, v in p.conds if t.endswith(".pressure_exponent is None")]
        if not st or not isinstance(st[-1][1], Constraint) or not isinstance(st[-1][1].expr, CondExpr):
            chk.bad("R-C07-1", "pdd_constraint stores a conditional constraint per connected junction", loc(fn), found=[s[0] for s in st])
            continue
        ce = st[-1][1].expr
        brs = list(ce.branches) + [(None, ce.final)]
        tag = "exponent from %s" % ("global option" if none and none[0] else "junction")
        if len(brs) != 5:
            chk.bad("R-C07-1", "pdd_constraint has five branches [%s]" % tag, loc(fn), found=len(brs))
            continue
        # which exponent symbol is used?
        raw3 = ex.S(brs[2][1])
        src = [s.name for s in raw3.free_symbols if s.name.endswith("pressure_exponent")]
        want_src = "wn.options.hydraulic.pressure_exponent" if none and none[0] else "wn.get_node(node_name).pressure_exponent"
        chk.expect(src == [want_src], "R-C07-1", "exponent is the junction's pressure_exponent if set, else the global option [%s]" % tag, loc(fn),
                   expected=want_src, found=src)
        seen_exp.add(bool(none and none[0]))
        refs = [slope * (P - pmin), None, ((P - pmin) / (pnom - pmin)) ** E, None, slope * (P - pnom) + 1]
        a1, b1, c1, d1 = (cs("pdd_poly1_coeffs_" + k) for k in "abcd")
        a2, b2, c2, d2 = (cs("pdd_poly2_coeffs_" + k) for k in "abcd")
        refs[1] = a1 * P ** 3 + b1 * P ** 2 + c1 * P + d1
        refs[3] = a2 * P ** 3 + b2 * P ** 2 + c2 * P + d2
        gref = [P - pmin, P - pmin - delta, P - pnom + delta, P - pnom]
        for i, (gd, e) in enumerate(brs):
            R, _ = canon(ex.S(e))
            chk.expect(is_zero(R - (d - D * refs[i])), "R-C07-1", "branch %d residual is  d - D*g%d(p) [%s]" % (i, i + 1, tag), loc(fn),
                       "documented pressure-demand curve", expected=str(d - D * refs[i]), found=str(R))
            if gd is not None:
                okg = isinstance(gd, Ineq) and gd.lb is None and gd.ub is not None and is_zero(canon(gd.body)[0] - canon(ex.S(gd.ub))[0] - gref[i])
                chk.expect(bool(okg), "R-C07-1", "branch %d guard is %s <= 0 [%s]" % (i, gref[i], tag), loc(fn), found=str(gd))
        g = {1: refs[0], 3: refs[2], 5: refs[4]}
    B.check_updaters(chk, "R-C07-1", fn, "pdd_constraint", paths, {"_is_isolated"}, loc(fn))
    chk.expect(seen_exp == {True, False}, "R-C07-1", "both exponent sources (junction / global) are handled", loc(fn), found=sorted(seen_exp))
    # monotone analytic branches
    pp = sp.Symbol("p", positive=True)
    gap = sp.Symbol("gap", positive=True)           # Pnom - Pmin > 0
    e01 = sp.Symbol("pressure_exponent", positive=True)
    chk.expect(sp.diff(slope * (pp), pp).is_positive, "R-C07-1", "branch 1 and 5 slopes are positive (pdd_slope > 0)", loc(fn))
    d3 = sp.diff((pp / gap) ** e01, pp)
    chk.expect(sp.simplify(d3).is_nonnegative or sp.simplify(d3).is_positive, "R-C07-1", "power-law branch is non-decreasing for p > Pmin, Pnom > Pmin, E > 0", loc(fn), found=str(d3))
    consts = B.constants(repo)
    sl = consts.get("pdd_slope")
    dl = consts.get("pdd_smoothing_delta")
    chk.expect(sl is not None and sl[0] > 0 and sl[0] < sp.Rational(1, 1000), "R-C07-1", "pdd_slope is a small positive constant", loc(B.CONSTANTS), found=str(sl))
    chk.expect(dl is not None and dl[0] > 0, "R-C07-1", "pdd_smoothing_delta is positive", loc(B.CONSTANTS), found=str(dl))
    chk.floor("R-C07-1", 2 * (1 + 5 + 4) + 4)

    # ---------------------------------------------------------------- R-C07-2 spline soundness
    sfn = repo.func(B.SPLINE, "cubic_spline")
    chk.fn(sfn)
    exs = SymExec()
    outs = exs.run(sfn)
    if len(outs) != 1 or not isinstance(outs[0].ret, tuple) or len(outs[0].ret) != 4:
        raise ExtractError("cubic_spline: expected one path returning 4 coefficients")
    a, b, c, dd = (exs.S(v) for v in outs[0].ret)
    x = sp.Symbol("x")
    poly = a * x ** 3 + b * x ** 2 + c * x + dd
    sy = lambda n: exs.sym(n)
    for nm, lhs, rhs in (("p(x1)=f1", poly.subs(x, sy("x1")), sy("f1")), ("p(x2)=f2", poly.subs(x, sy("x2")), sy("f2")),
                         ("p'(x1)=df1", sp.diff(poly, x).subs(x, sy("x1")), sy("df1")), ("p'(x2)=df2", sp.diff(poly, x).subs(x, sy("x2")), sy("df2"))):
        chk.expect(sp.simplify(lhs - rhs) == 0, "R-C07-2", "cubic_spline interpolation identity %s" % nm, loc(sfn), found=str(sp.simplify(lhs - rhs)))
    chk.floor("R-C07-2", 4)

    # ---------------------------------------------------------------- R-C07-3 breakpoint agreement (as formulas in E)
    rec = []
    pfn, ppaths, pex = B.run_builder(repo, PAR, "pdd_poly_coeffs_param.build", call_hook=spline_hook(rec))
    chk.fn(pfn)
    # analyse each path separately: re-run per path is not needed, the hook records calls per evaluation order; use the path where
    # both node values are set and the one where both are None -- the recorded data must agree on every path after canonicalisation.
    npaths = 0
    for pth in ppaths:
        rec2 = []
        # re-run with a hook bound to this path's decisions
        decisions = dict(pth.conds)

        def th(txt, node, st, decisions=decisions):
            r = B.std_test_hook(txt, node, st)
            if r is not None:
                return r
            return decisions.get(txt)
        _, pp2, ex2 = B.run_builder(repo, PAR, "pdd_poly_coeffs_param.build", test_hook=th, call_hook=spline_hook(rec2))
        if len(pp2) != 1 or len(rec2) != 2:
            raise ExtractError("pdd_poly_coeffs_param: expected one path with two cubic_spline calls, got %d paths / %d calls" % (len(pp2), len(rec2)))
        npaths += 1
        p2 = pp2[0]
        eglob = decisions.get("wn.get_node(node_name).pressure_exponent is None")
        tag = "Pmin %s, Pnom %s, E %s" % ("global" if decisions.get("wn.get_node(node_name).minimum_pressure is None") else "junction",
                                            "global" if decisions.get("wn.get_node(node_name).required_pressure is None") else "junction",
                                            "literal" if eglob is None else ("global" if eglob else "junction"))
        rawE = set()
        for r in rec2:
            for v in r:
                try:
                    rawE |= {s_.name for s_ in ex2.S(v).free_symbols if s_.name.endswith("pressure_exponent")}
                except ExtractError:
                    pass
        if eglob is not None:
            wantE = {"wn.options.hydraulic.pressure_exponent"} if eglob else {"wn.get_node(node_name).pressure_exponent"}
            chk.expect(rawE == wantE, "R-C07-4", "pdd_poly_coeffs_param takes the exponent from the junction if set, else from the global option [%s]" % tag, loc(pfn),
                       "the spline data and the constraint must use the same exponent", expected=sorted(wantE), found=sorted(rawE))
        # exponent used for the neighbours: the same junction-or-global rule; accept a param builder that reads the exponent (either source) or E
        sub = {cs("minimum_pressure"): pmin, cs("required_pressure"): pnom}

        def C(v):
            e_, _ = canon(ex2.S(v))
            return e_.xreplace(sub)
        (x1a, x2a, f1a, f2a, df1a, df2a), (x1b, x2b, f1b, f2b, df1b, df2b) = [[C(v) for v in r] for r in rec2]
        g1 = lambda q: slope * (q - pmin)
        g3 = lambda q: ((q - pmin) / (pnom - pmin)) ** E
        g5 = lambda q: slope * (q - pnom) + 1
        q = sp.Symbol("qq")
        dg = lambda f, at: sp.diff(f(q), q).subs(q, at)
        checks = [
            ("poly1 x1 = Pmin", x1a, pmin), ("poly1 x2 = Pmin + delta", x2a, pmin + delta),
            ("poly1 f1 = g1(Pmin)", f1a, g1(pmin)), ("poly1 df1 = g1'(Pmin)", df1a, dg(g1, pmin)),
            ("poly1 f2 = g3(Pmin+delta)", f2a, g3(pmin + delta)), ("poly1 df2 = g3'(Pmin+delta)", df2a, dg(g3, pmin + delta)),
            ("poly2 x1 = Pnom - delta", x1b, pnom - delta), ("poly2 x2 = Pnom", x2b, pnom),
            ("poly2 f1 = g3(Pnom-delta)", f1b, g3(pnom - delta)), ("poly2 df1 = g3'(Pnom-delta)", df1b, dg(g3, pnom - delta)),
            ("poly2 f2 = g5(Pnom)", f2b, g5(pnom)), ("poly2 df2 = g5'(Pnom)", df2b, dg(g5, pnom)),
        ]
        for nm, got, want in checks:
            # the exponent symbol in the param file may come from the junction or from the options: both canonicalise to pressure_exponent
            chk.expect(is_zero(got - want), "R-C07-3", "spline data %s [%s]" % (nm, tag), loc(pfn),
                       "the smoothing polynomial must start/end with the value and slope of the neighbouring analytic branch for ANY exponent, else the curve jumps at the band edge",
                       expected=str(sp.simplify(want)), found=str(sp.simplify(got)))
        # coefficient plumbing: poly1 <- first call, poly2 <- second call, a..d in order
        for t, v, ln in p2.stores("m.pdd_poly"):
            pass
        vals = {}
        for e in p2.st.events:
            if e[0] == "store" and e[1].startswith("m.pdd_poly") and e[1].endswith("[node_name].value"):
                vals[e[1]] = e[2]
        params = [e for e in p2.st.events if e[0] == "call" and e[1].startswith("aml.Param(")]
        stores = p2.stores("m.pdd_poly")
        plumb = {}
        for (t, v, ln), pe in zip([s_ for s_ in stores if s_[0].endswith("[node_name]")], params):
            plumb[t] = pe[2][1][0]
        for i in (1, 2):
            for k in "abcd":
                key = "m.pdd_poly%d_coeffs_%s[node_name]" % (i, k)
                got = plumb.get(key)
                chk.expect(isinstance(got, Opaque) and got.text == "spline%d.%s" % (i - 1, k), "R-C07-3", "%s receives coefficient %s of spline call %d [%s]" % (key, k, i, tag), loc(pfn), found=got)
        attrs = set(p2.updater_attrs())
        need = {"minimum_pressure", "required_pressure"} | ({"pressure_exponent"} if eglob is not None else set())
        chk.expect(need <= attrs, "R-C07-4", "pdd_poly_coeffs_param re-computes when the junction's Pmin/Pnom change [%s]" % tag, loc(pfn), found=sorted(attrs))
        B.check_updaters(chk, "R-C07-4", pfn, "pdd_poly_coeffs_param", [p2], need, loc(pfn))
    chk.floor("R-C07-3", 4 * 20)

    # ---------------------------------------------------------------- R-C07-4 overrides
    for pname, dname, attr in (("pmin_param", "pmin", "minimum_pressure"), ("pnom_param", "pnom", "required_pressure")):
        fn2, pths, ex2 = B.run_builder(repo, PAR, pname + ".build")
        chk.fn(fn2)
        seen = set()
        for p in pths:
            if p.st.raised:
                continue
            none = [v for t, v in p.conds if t == "wn.get_node(node_name).%s is None" % attr]
            if not none:
                chk.bad("R-C07-4", "%s tests the junction's %s for None" % (pname, attr), loc(fn2), found=p.label)
                continue
            params = [e for e in p.st.events if e[0] == "call" and e[1].startswith("aml.Param(")]
            val = params[-1][2][1][0] if params else None
            want = "wn.options.hydraulic.%s" % attr if none[0] else "wn.get_node(node_name).%s" % attr
            chk.expect(isinstance(val, Opaque) and val.text == want, "R-C07-4", "%s uses %s" % (pname, "the global option when the junction has none" if none[0] else "the junction's override"),
                       loc(fn2), expected=want, found=val)
            seen.add(none[0])
            B.check_updaters(chk, "R-C07-4", fn2, pname, [p], {attr}, loc(fn2))
        chk.expect(seen == {True, False}, "R-C07-4", "%s handles both override cases" % pname, loc(fn2), found=sorted(seen))
        if pname == "pnom_param":
            raised = [p for p in pths if p.st.raised]
            okr = any(any("m.pdd_smoothing_delta" in t and "<=" in t and v for t, v in p.conds) for p in raised)
            chk.expect(okr, "R-C07-4", "pnom_param refuses a required pressure that does not exceed the smoothing delta", loc(fn2), found=[p.label for p in raised][:2])
    chk.floor("R-C07-4", 8)


WITNESSES = [
    dict(name="guard-pnom-pmin-swapped", file=CON, old="con.add_condition(aml.inequality(body=h - elev - pnom + delta, ub=0), d - d_expected*((h-elev-pmin)/(pnom-pmin))**pressure_exponent)",
         new="con.add_condition(aml.inequality(body=h - elev - pmin + delta, ub=0), d - d_expected*((h-elev-pmin)/(pnom-pmin))**pressure_exponent)", rule="R-C07-1"),
    dict(name="exponent-from-wrong-object", file=CON, old="            if node.pressure_exponent is None:\n                pressure_exponent = wn.options.hydraulic.pressure_exponent\n            else:\n                pressure_exponent = node.pressure_exponent",
         new="            pressure_exponent = wn.options.hydraulic.pressure_exponent", rule="R-C07-1"),
    dict(name="slope-sign", file=CON, old="con.add_final_expr(d - d_expected*(slope*(h - elev - pnom) + 1.0))", new="con.add_final_expr(d - d_expected*(-slope*(h - elev - pnom) + 1.0))", rule="R-C07-1"),
    dict(name="spline-c-coefficient", file=B.SPLINE, old="    c = df2 - 3 * x2 ** 2 * a - 2 * x2 * b", new="    c = df2 - 3 * x2 ** 2 * a - x2 * b", rule="R-C07-2"),
    dict(name="override-dropped", file=PAR, old="            if node.required_pressure is None:\n                required_pressure = wn.options.hydraulic.required_pressure\n            else:\n                required_pressure = node.required_pressure\n                \n            if required_pressure",
         new="            required_pressure = wn.options.hydraulic.required_pressure\n            if required_pressure", rule="R-C07-4"),
    dict(name="poly2-f2", file=PAR, old="            x2 = pnom\n            f2 = 1.0", new="            x2 = pnom\n            f2 = 0.999", rule="R-C07-3"),
    dict(name="poly-coeffs-swapped", file=PAR, old="                m.pdd_poly1_coeffs_c[node_name] = aml.Param(c1)\n                m.pdd_poly1_coeffs_d[node_name] = aml.Param(d1)", new="                m.pdd_poly1_coeffs_c[node_name] = aml.Param(d1)\n                m.pdd_poly1_coeffs_d[node_name] = aml.Param(c1)", rule="R-C07-3"),
    dict(name="rename-preserving", file=CON, old="                delta = m.pdd_smoothing_delta\n                slope = m.pdd_slope\n                a1 =", new="                slope = m.pdd_slope\n                delta = m.pdd_smoothing_delta\n                a1 =", silent=True),
]
