"""R-C12-17 -- the INP write / read round trip of a rich fixture model, run by the in-house interpreter (T3, bounded to the fixture).

The fixture model of R-C13-10 (sa/props/c13_fixture.py: every element kind, curves of every type, sources, all option groups, seven simple controls,
four rules with AND / OR / ELSE / priorities) is built through the public API by the repository's real constructors, written with InpFile.write in a
flow-unit system and INP version into an in-memory file, read back with InpFile.read, written and read a second time -- all by the repository's own
code interpreted by sa/concrete.py.  The model dictionaries are compared through `inp_view`, the part of a dictionary the INP format carries, in a form
independent of element order and of names the format does not store; numbers are compared to the precision of the file format.

What `inp_view` leaves out is what the statement leaves out: leaks and their controls, per-junction pressure-dependent-demand parameters, pattern
interpolation, empty patterns, curves nothing refers to, source names, the model name, the user / graphics option groups, the announced unit system of
the file (it is the one written), and for the 2.0 format the EPANET-2.2-only settings (tank overflow, the pressure-driven-demand options).
"""
import ast
import copy as _copy
import io as _io
import json

from ..src import loc, AnchorError, ExtractError

EIO = "wntr/epanet/io.py"
NIO = "wntr/network/io.py"

WNTR_ONLY_NODE = {"leak", "leak_area", "leak_discharge_coeff", "minimum_pressure", "required_pressure", "pressure_exponent"}
V22_ONLY_HYDRAULIC = {"demand_model", "minimum_pressure", "required_pressure", "pressure_exponent", "headerror", "flowchange"}
# written with two decimals in the file's pressure unit (psi or m)
COARSE = {"/options/hydraulic/minimum_pressure": 0.008, "/options/hydraulic/required_pressure": 0.008}
REL, ABS = 2e-5, 1e-9


def inp_view(d, version):
    v = {}
    v["nodes"] = {n["name"]: {k: x for k, x in n.items() if k not in WNTR_ONLY_NODE and not (version < 2.2 and k == "overflow")} for n in d["nodes"]}
    v["links"] = {l["name"]: dict(l) for l in d["links"]}
    v["patterns"] = {p["name"]: list(p["multipliers"]) for p in d["patterns"] if p["multipliers"]}
    used = set()
    for l in d["links"]:
        used |= {l.get("pump_curve_name"), l.get("headloss_curve_name")}
        e = l.get("efficiency")
        used.add(e.get("name") if isinstance(e, dict) else e)
    used |= {n.get("vol_curve_name") for n in d["nodes"]}
    v["curves"] = {c["name"]: [c["curve_type"], [list(p) for p in c["points"]]] for c in d["curves"] if c["name"] in used}
    v["sources"] = sorted([s["node_name"], s["source_type"], s["strength"], s["pattern"]] for s in d["sources"])
    opts = {g: (dict(o) if isinstance(o, dict) else o) for g, o in d["options"].items()}
    if isinstance(opts.get("time"), dict):
        opts["time"].pop("pattern_interpolation", None)
    if isinstance(opts.get("hydraulic"), dict):
        opts["hydraulic"].pop("inpfile_units", None)
        if version < 2.2:
            for k in V22_ONLY_HYDRAULIC:
                opts["hydraulic"].pop(k, None)
    opts.pop("user", None)
    opts.pop("graphics", None)
    v["options"] = opts
    ctl = []
    for c in d["controls"]:
        then_, else_ = list(c.get("then_actions", [])), list(c.get("else_actions", []) or [])
        if any("LEAK_STATUS" in a for a in then_ + else_):
            continue
        rule = c["type"] == "rule"
        ctl.append([c["type"], " ".join(c["condition"].split()), then_, else_, c.get("priority") if rule else None, c.get("name") if rule else None])
    v["controls"] = sorted(ctl, key=lambda x: json.dumps(x, default=str))
    return v


def _close(a, b, abs_tol=ABS):
    return abs(a - b) <= abs_tol + REL * max(abs(a), abs(b))


def view_diff(a, b, path=""):
    out = []
    if isinstance(a, dict) and isinstance(b, dict):
        for k in sorted(set(a) | set(b), key=str):
            if k not in a:
                out.append("%s/%s only after the round trip: %r" % (path, k, b[k]))
            elif k not in b:
                out.append("%s/%s lost: %r" % (path, k, a[k]))
            else:
                out += view_diff(a[k], b[k], path + "/" + str(k))
    elif isinstance(a, (list, tuple)) and isinstance(b, (list, tuple)):
        if len(a) != len(b):
            out.append("%s: %d entries vs %d" % (path, len(a), len(b)))
        for i, (x, y) in enumerate(zip(a, b)):
            out += view_diff(x, y, "%s[%d]" % (path, i))
    elif isinstance(a, (int, float)) and isinstance(b, (int, float)) and not isinstance(a, bool) and not isinstance(b, bool):
        if not _close(a, b, COARSE.get(path, ABS)):
            out.append("%s: %r vs %r" % (path, a, b))
    elif isinstance(a, str) and isinstance(b, str):
        ta, tb = a.split(), b.split()
        ok = len(ta) == len(tb)
        if ok:
            for x, y in zip(ta, tb):
                if x == y:
                    continue
                try:
                    ok = ok and _close(float(x), float(y))
                except ValueError:
                    ok = False
        if not ok:
            out.append("%s: %r vs %r" % (path, a, b))
    elif a != b:
        out.append("%s: %r vs %r" % (path, a, b))
    return out


class _MemText(_io.StringIO):
    _sa_mock = True


def inp_world(repo):
    """model_world of C13 plus an in-memory file system behind io.open / open, and inert os / sys"""
    import difflib
    import os as _os
    import sys as _sys
    from ..concrete import Namespace
    from .c13 import model_world
    world = model_world(repo)
    files = {}

    class MemFile(_io.BytesIO):
        _sa_mock = True

        def __init__(self, name, mode):
            _io.BytesIO.__init__(self, files.get(name, b"") if "r" in mode else b"")
            self._n, self._m = name, mode

        def close(self):
            if "w" in self._m and not self.closed:
                files[self._n] = self.getvalue()
            _io.BytesIO.close(self)

    def mopen(name, mode="r", encoding=None, **k):
        if "b" in mode:
            if "r" in mode and name not in files:
                raise FileNotFoundError(name)
            return MemFile(name, mode)
        if "r" in mode:
            if name not in files:
                raise FileNotFoundError(name)
            return _MemText(files[name].decode(encoding or "utf-8"))
        raise ExtractError("open(%r, %r) is not modelled by the in-memory file system" % (name, mode))
    world.overrides["io"] = Namespace("io", open=mopen, StringIO=_io.StringIO, BytesIO=_io.BytesIO)
    for mod in ("wntr.epanet.io",):
        world.overrides[mod + ".open"] = mopen
    osns = Namespace("os", path=_os.path, sep="/", linesep="\n")
    osns.name = "posix"
    world.overrides["os"] = osns
    world.overrides["sys"] = Namespace("sys", getdefaultencoding=lambda: "utf-8", platform="linux", version_info=_sys.version_info, maxsize=_sys.maxsize)
    world.overrides["difflib"] = difflib
    return world, files


def _norm_json(d):
    def default(o):
        if hasattr(o, "tolist"):
            return o.tolist()
        v = getattr(o, "v", None)
        if isinstance(v, list):
            return v
        raise TypeError("not JSON serialisable: %r" % (o,))
    return json.loads(json.dumps(d, default=default))


def round_trip_rules(repo, chk, combos, variant="A"):
    from ..concrete import ProgramError
    from .c13 import build_fixture_model
    wfn = repo.func(EIO, "InpFile.write")
    rfn = repo.func(EIO, "InpFile.read")
    chk.fn(wfn, rfn)
    n = 0
    for k_combo, (units, version) in enumerate(combos):
        # every second combination does all its writes and reads through ONE InpFile object (io = InpFile(); io.write(..); io.read(..); io.write(..); io.read(..)):
        # whatever a read or a write leaves on the object must not leak into the next one
        shared = (k_combo % 2 == 1)
        tag = "%s, INP %s%s%s" % (units, version, "" if variant == "A" else ", fixture variant " + variant, ", one InpFile object re-used" if shared else "")
        world, files = inp_world(repo)
        I = world.interp
        to_dict = world.function(NIO, "to_dict")
        Inp = world.function(EIO, "InpFile")
        one = [None]

        def obj():
            if not shared:
                return Inp()
            if one[0] is None:
                one[0] = Inp()
            return one[0]

        def write(wn, name):
            w = obj()
            I.call(I.getattr_(w, "write"), [name, wn], dict(units=units, version=version))

        def read(name):
            r = obj()
            return I.call(I.getattr_(r, "read"), [name], {})
        try:
            wn = build_fixture_model(repo, world, variant)
            d1 = _norm_json(to_dict(wn))
            write(wn, "one.inp")
            wn2 = read("one.inp")
            d2 = _norm_json(to_dict(wn2))
            write(wn2, "two.inp")
            d3 = _norm_json(to_dict(read("two.inp")))
            d1b = _norm_json(to_dict(wn))
        except ProgramError as e:
            if isinstance(e.exc, NameError):
                raise ExtractError("R-C12-17 [%s]: the interpreted INP code needs a name the world does not provide: %s (line %s)" % (tag, e, e.lineno))
            chk.bad("R-C12-17", "the fixture model survives write -> read -> write -> read [%s]" % tag, loc(wfn), "the repository's own INP code (interpreted) raised on the fixture model",
                    found="%s (line %s)" % (e, e.lineno))
            continue
        n += 1
        sizes = {k: len(v) for k, v in d2.items() if isinstance(v, list)}
        if sizes.get("nodes", 0) < 8 or sizes.get("links", 0) < 13:
            chk.bad("R-C12-17", "the model read back has all elements [%s]" % tag, loc(rfn), found=sizes)
            continue
        v1, v2, v3 = inp_view(d1, version), inp_view(d2, version), inp_view(d3, version)
        for sec in ("nodes", "links", "patterns", "curves", "sources", "options", "controls"):
            df = view_diff(v1[sec], v2[sec], "/" + sec)
            chk.expect(not df, "R-C12-17", "%s of the model read back equal the original to file precision [%s]" % (sec, tag), loc(wfn),
                       "fixture model built through the public API, InpFile.write and InpFile.read run by the in-house interpreter; compared through the part of the model "
                       "dictionary the INP format carries", expected="no difference", found=df[:5])
        df = view_diff(v2, v3, "")
        chk.expect(not df, "R-C12-17", "a second write / read cycle changes nothing further [%s]" % tag, loc(wfn), found=df[:5])
        df = view_diff(d1, d1b, "")
        chk.expect(not df, "R-C12-17", "writing the model does not change it [%s]" % tag, loc(wfn), found=df[:5])
    if n < len(combos) and not chk.violations():
        raise ExtractError("R-C12-17: only %d of %d unit / version combinations were evaluated" % (n, len(combos)))
