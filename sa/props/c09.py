"""C09 -- junctions cut off from all sources are zeroed; connected ones never are.

The isolation machinery is decided on what it DOES, not on how it is written: the simulator methods, the C++ search and the
result writers are evaluated (sa/concrete.py, sa/cint.py: tree-walking evaluators over the parsed source, nothing of the
repository is imported or run) on a small family of mock networks / graphs and the observable effect -- the arrays handed to the
search, the flags, the sets handed to the model update, the stored results -- is compared with an independent computation.
The constraint builders are path-enumerated symbolically (sa/builders.py); their guards and rows are classified by regular
expressions on the path-condition text (`_is_isolated`, `status == LinkStatus.Closed`, `m.flow[..]`), no formula is compared.
In DESIGN 2b terms: R-C09-1 .. -4 are T3 (finite evaluation, bounded to the mock network and the fixture graphs) with a T1 CFG
must-pass part in R-C09-1, a regex on the C signature in R-C09-2 and the T2 part of R-C09-4 just described; R-C09-5 is a T1
presence / text match (an assignment to _user_status whose value text contains `initial_status`), nothing is evaluated.
"""
import ast
import collections
import collections.abc
import enum
import random
import re

from ..src import walk, calls, call_name, last_attr, dotted, norm, loc, const, AnchorError, ExtractError, parent, unparse
from ..cfg import CFG
from .. import cxx
from .. import builders as B
from ..cint import CInterp, CProgramError
from ..concrete import World, stdlib_overrides, ProgramError, NDArr, AutoMock, Instance
from ..symx import Constraint as SymConstraint, Opaque

CORE = "wntr/sim/core.py"
HYD = "wntr/sim/hydraulics.py"
CON = "wntr/sim/models/constraint.py"
CPP = "wntr/sim/network_isolation/network_isolation.cpp"
BASE = "wntr/network/base.py"

EXPLANATION = (
    "T3, finite evaluation: the simulator methods and result writers are interpreted by sa/concrete.py and the C++ search by sa/cint.py on mock "
    "networks / graphs (one 13-node, 18-link network with parallel links, pipes / pumps / valves, Closed / Open / Active, stale flags, an unlinked "
    "node; three rounds of status changes; about 150 fixture graphs). Bounded to these families. R-C09-1: the arrays handed to the search encode a "
    "node pair as connected (entry 1, both directions) iff a link joining it is not Closed, one row per node, all tanks and reservoirs as sources, "
    "after initialisation and every update; the update resets its change-tracker reference point; (T1, CFG must-pass) run_sim refreshes the graph "
    "before every search and searches before every solve. R-C09-6 (T1, CFG must-pass, through helper methods that rebuild on every path): on every path "
    "from the entry of run_sim to its first update / search the graph is rebuilt in full and the reference point the update reads is set after the "
    "rebuild; (T3) a rebuild on the used simulator after statuses were changed outside any run hands over arrays that match the network again. R-C09-2: the C++ search marks exactly the nodes an independent search reaches through "
    "entries equal to 1; the caller hands over an all-ones indicator and well-formed arrays (C signature read by regex). R-C09-3: "
    "_get_isolated_junctions_and_links flags exactly the unreached junctions and their links, hands (previous, new) sets to the model update, which "
    "rebuilds the symmetric difference. R-C09-4: store_results_in_network / save_results report 0 demand / pressure / leak, elevation as head and 0 "
    "flow for isolated elements in 6 mock runs and never zero a connected one; (T2, symbolic path enumeration with guards classified by regex on "
    "their text) every constraint builder gives the q = 0 row to a Closed-or-isolated link and no balance / PDD / leak row to an isolated junction. "
    "R-C09-5 (T3, finite: 10 link kinds x their initial statuses x two spellings): links built through the public API by the repository's constructors "
    "(interpreted) read the status they were created with before any simulation. Reachability on all graphs is not decided.")
RULE_TEXT = ("one instance = one semantic fact of one evaluated scenario step (graph encoding per kind of node pair, search result per graph family, flag / set "
             "state per search round, reported quantity, constraint builder); distinct = distinct constructs")
ASSUMPTIONS = [
    "the compiled extension is built from the C++ source that is read (edits of the .cpp need a rebuild to take effect)",
    "scipy's csr_matrix sums duplicate entries, sorts the columns of a row and keeps explicit zero entries given at construction (modelled in sa/concrete.py)",
    "the WaterNetworkModel accessors (nodes/links iterators, get_node, get_link, get_links_for_node with ALL/INLET/OUTLET, name lists, counts) and the element "
    "properties (status from _user_status/_internal_status, head/demand/pressure/leak_demand/flow reading the underscored fields) behave as documented (mocked)",
    "the SWIG typemaps bind one numpy array to each (long *, int) parameter pair in the order of the C signature",
]


# ================================================================================================ helpers kept for C01 / C10 (AST level)
def closed_test_polarity(test):
    """+1 if the test is `<x>.status == LinkStatus.Closed` (true branch = closed), -1 for `!=`, 0 otherwise."""
    if isinstance(test, ast.Compare) and len(test.ops) == 1 and "status" in unparse(test.left) and unparse(test.comparators[0]).endswith("LinkStatus.Closed"):
        if isinstance(test.ops[0], (ast.Eq, ast.Is)):
            return 1
        if isinstance(test.ops[0], (ast.NotEq, ast.IsNot)):
            return -1
    return 0


def status_encoding_table(test):
    """truth table of a guard over (status is Closed?) x (every other atom free): -> (set of outcomes when Closed, set when not Closed, other atoms).
    Atoms other than the comparison of a status with LinkStatus.Closed are free booleans."""
    import itertools
    atoms = []

    def collect(t):
        if isinstance(t, ast.BoolOp):
            for v in t.values:
                collect(v)
        elif isinstance(t, ast.UnaryOp) and isinstance(t.op, ast.Not):
            collect(t.operand)
        elif closed_test_polarity(t) == 0 and unparse(t) not in atoms:
            atoms.append(unparse(t))
    collect(test)

    def ev(t, closed, val):
        if isinstance(t, ast.BoolOp):
            vs = [ev(v, closed, val) for v in t.values]
            return all(vs) if isinstance(t.op, ast.And) else any(vs)
        if isinstance(t, ast.UnaryOp) and isinstance(t.op, ast.Not):
            return not ev(t.operand, closed, val)
        p_ = closed_test_polarity(t)
        if p_ == 1:
            return closed
        if p_ == -1:
            return not closed
        return val[unparse(t)]
    when_closed, when_open = set(), set()
    for combo in itertools.product([False, True], repeat=len(atoms)):
        val = dict(zip(atoms, combo))
        when_closed.add(ev(test, True, val))
        when_open.add(ev(test, False, val))
    return when_closed, when_open, atoms


def status_guards(fn, store_pred):
    """If statements of fn whose test mentions a status comparison with Closed and whose branches make the selected stores."""
    out = []
    for n in walk(fn):
        if isinstance(n, ast.If) and any(closed_test_polarity(x) != 0 for x in ast.walk(n.test)):
            if any(store_pred(c) for c in ast.walk(ast.Module(body=n.body + n.orelse, type_ignores=[]))):
                out.append(n)
    return out


def const_stores(body, pred):
    """constants assigned / appended in a statement list where pred(stmt) selects the relevant stores."""
    vals = []
    for s in body:
        for n in ast.walk(s):
            if isinstance(n, ast.Assign) and pred(n):
                vals.append(const(n.value))
            if isinstance(n, ast.Call) and isinstance(n.func, ast.Attribute) and n.func.attr == "append" and pred(n):
                vals.append(const(n.args[0]))
    return vals


def pair_rules(ig, chk, rule):
    """links of a node pair with several links are collected regardless of their direction (AST level; used by C01)."""
    coll = [n for n in walk(ig) if isinstance(n, ast.For) and isinstance(n.iter, ast.Call) and last_attr(n.iter) == "get_links_for_node"
            and any(last_attr(c) == "append" for c in calls(n))]
    if not coll:
        raise ExtractError("_initialize_internal_graph: collection of the links of a multi-link node pair not found")
    lp = coll[0]
    flag = None
    if len(lp.iter.args) > 1:
        flag = const(lp.iter.args[1])
    for k in lp.iter.keywords:
        if k.arg == "flag":
            flag = const(k.value)
    flag_all = flag in (None, "ALL", "all", "All")
    memb = [n for n in walk(lp) if isinstance(n, ast.If) and any(last_attr(c) == "append" for c in calls(ast.Module(body=n.body, type_ignores=[])))]
    both = False
    if memb:
        t = memb[0].test
        txt = unparse(t)
        both = isinstance(t, ast.BoolOp) and isinstance(t.op, ast.Or) and "start_node_name" in txt and "end_node_name" in txt
    chk.expect(flag_all and both, rule, "the links of a node pair joined by several links are collected in both directions (a->b and b->a)", loc(ig, lp),
               "a parallel link drawn the other way round must share the pair's graph entry: if it is left out, closing its twin marks the pair disconnected although "
               "the reversed link is open, and connected junctions behind it are reported with zero demand", expected="get_links_for_node(node) [ALL] and start == other or end == other",
               found="flag=%r test=%s" % (flag, unparse(memb[0].test) if memb else None))


# ================================================================================================ mock world
def link_status_enum(repo):
    """LinkStatus as an IntEnum with the member values read from wntr/network/base.py"""
    cls = repo.cls(BASE, "LinkStatus")
    members = collections.OrderedDict()
    for s in cls.body:
        if isinstance(s, ast.Assign) and len(s.targets) == 1 and isinstance(s.targets[0], ast.Name) and isinstance(const(s.value), int):
            members[s.targets[0].id] = const(s.value)
    for need in ("Closed", "Open", "Active"):
        if need not in members:
            raise AnchorError("LinkStatus.%s vanished" % need)
    if len({members["Closed"], members["Open"], members["Active"]}) != 3:
        raise ExtractError("LinkStatus: Closed / Open / Active are not distinct")
    return enum.IntEnum("LinkStatus", list(members.items()))


class OrderedSet(collections.abc.MutableSet):
    """wntr.utils.ordered_set.OrderedSet (insertion ordered; union / difference return OrderedSets)"""
    _sa_mock = True

    def __init__(self, iterable=None):
        self._data = collections.OrderedDict()
        if iterable is not None:
            self.update(iterable)

    def __contains__(self, item):
        return item in self._data

    def __iter__(self):
        return iter(list(self._data))

    def __len__(self):
        return len(self._data)

    def add(self, value):
        self._data[value] = None

    def discard(self, value):
        self._data.pop(value, None)

    def update(self, iterable):
        for i in iterable:
            self.add(i)

    def union(self, iterable):
        ret = OrderedSet(self)
        for i in iterable:
            ret.add(i)
        return ret

    def difference(self, other):
        return self - other

    def __sub__(self, other):
        ret = OrderedSet(self)
        for i in other:
            ret.discard(i)
        return ret

    def __repr__(self):
        return "{" + "".join(str(i) + ", " for i in self) + "}"

    __str__ = __repr__
    __hash__ = None


class _El(object):
    _sa_mock = True

    def __repr__(self):
        return "<%s %s>" % (type(self).__name__[1:], self.name)

    def todict(self):
        return {}


class MNode(_El):
    node_type = "Node"

    def __init__(self, name, elevation):
        self.name = self._name = name
        self.elevation = elevation
        self._is_isolated = False
        self._head = None
        self._demand = None
        self._pressure = None
        self._leak_demand = None
        self._leak_status = False
        self._leak = False
        self.leak_area = 0.01
        self.leak_discharge_coeff = 0.75
        self._prev_head = None
        self._prev_demand = None
        self._prev_leak_demand = None
        self.tag = None
        self.coordinates = (0.0, 0.0)

    head = property(lambda s: s._head)
    demand = property(lambda s: s._demand)
    pressure = property(lambda s: s._pressure)
    leak_demand = property(lambda s: s._leak_demand)
    leak_status = property(lambda s: s._leak_status)


class MJunction(MNode):
    node_type = "Junction"

    def __init__(self, name, elevation):
        MNode.__init__(self, name, elevation)
        self.base_demand = 0.001
        self.minimum_pressure = None
        self.required_pressure = None
        self.pressure_exponent = None
        self.emitter_coefficient = None


class MTank(MNode):
    node_type = "Tank"

    def __init__(self, name, elevation):
        MNode.__init__(self, name, elevation)
        self.init_level = 3.0
        self.min_level = 0.0
        self.max_level = 10.0
        self.diameter = 10.0
        self.level = 3.0
        self.overflow = False
        self.vol_curve = None


class _TS(object):
    _sa_mock = True

    def __init__(self, v):
        self.base_value = v

    def at(self, t):
        return self.base_value

    __call__ = at


class MReservoir(MNode):
    node_type = "Reservoir"

    def __init__(self, name, elevation):
        MNode.__init__(self, name, elevation)
        self.base_head = elevation
        self.head_timeseries = _TS(elevation)


class MLink(_El):
    link_type = "Link"

    def __init__(self, name, start, end, LS):
        self.name = self._link_name = name
        self.start_node, self.end_node = start, end
        self.start_node_name, self.end_node_name = start.name, end.name
        self._LS = LS
        self._user_status = LS.Open
        self._internal_status = LS.Active
        self.initial_status = LS.Open
        self._is_isolated = False
        self._flow = None
        self._prev_flow = None
        self.diameter = 0.3
        self.length = 100.0
        self.roughness = 100.0
        self.minor_loss = 0.0
        self.setting = 1.0
        self._setting = 1.0
        self.initial_setting = 1.0
        self.check_valve = False
        self.cv = False
        self.tag = None
        self.vertices = []

    flow = property(lambda s: s._flow)

    @property
    def status(self):
        if self._internal_status == self._LS.Closed:
            return self._LS.Closed
        return self._user_status

    def set_effective(self, st, variant=0):
        """make `status` read st; the definition field initial_status is set to the opposite on purpose"""
        LS = self._LS
        if variant == 2:
            # the status as a control action with a plain number leaves it: ControlAction(link, 'status', 0) stores the int itself in _user_status
            self._user_status, self._internal_status = int(st), LS.Active
        elif st == LS.Closed and variant:
            self._user_status, self._internal_status = LS.Open, LS.Closed
        else:
            self._user_status, self._internal_status = st, LS.Active
        self.initial_status = LS.Open if st == LS.Closed else LS.Closed


class MPipe(MLink):
    link_type = "Pipe"


class MPump(MLink):
    link_type = "Pump"
    pump_type = "POWER"

    def __init__(self, *a):
        MLink.__init__(self, *a)
        self.speed_timeseries = _TS(1.0)
        self.power = 1000.0
        self.base_speed = 1.0
        self._base_power = 1000.0


class MHeadPump(MPump):
    pump_type = "HEAD"

    def get_head_curve_coefficients(self):
        return (50.0, 0.01, 2.0)

    def get_pump_curve(self):
        return AutoMock("pump_curve")


class MPowerPump(MPump):
    pump_type = "POWER"


class MValve(MLink):
    link_type = "Valve"
    valve_type = "PRV"

    @property
    def status(self):
        LS = self._LS
        if self._user_status == LS.Closed:
            return LS.Closed
        if self._user_status == LS.Open:
            return LS.Open
        return self._internal_status

    def set_effective(self, st, variant=0):
        LS = self._LS
        if variant == 2:
            self._user_status, self._internal_status = int(st), LS.Active
        elif st == LS.Active:
            self._user_status, self._internal_status = LS.Active, LS.Active
        elif st == LS.Closed and variant:
            self._user_status, self._internal_status = LS.Active, LS.Closed
        else:
            self._user_status, self._internal_status = st, LS.Active
        self.initial_status = LS.Open if st == LS.Closed else LS.Closed


class MPRValve(MValve):
    valve_type = "PRV"


class MPSValve(MValve):
    valve_type = "PSV"


class MPBValve(MValve):
    valve_type = "PBV"


class MFCValve(MValve):
    valve_type = "FCV"


class MTCValve(MValve):
    valve_type = "TCV"


class MGPValve(MValve):
    valve_type = "GPV"


class _Registry(object):
    """wn.nodes / wn.links: callable (iterate (name, obj) pairs), subscriptable, iterable over names"""
    _sa_mock = True

    def __init__(self, items):
        self._items = items          # OrderedDict name -> obj

    def __call__(self, kind=None):
        return iter([(k, v) for k, v in self._items.items() if kind is None or isinstance(v, kind)])

    def __getitem__(self, k):
        return self._items[k]

    def __iter__(self):
        return iter(list(self._items))

    def __len__(self):
        return len(self._items)

    def __contains__(self, k):
        return k in self._items

    def keys(self):
        return list(self._items)

    def values(self):
        return list(self._items.values())

    def items(self):
        return list(self._items.items())


_OPTION_DEFAULTS = {}      # filled by run() from wntr/network/options.py


class _NS(object):
    _sa_mock = True

    def __init__(self, **kw):
        self.__dict__.update(kw)


_NODE_KINDS = collections.OrderedDict([("junction", MJunction), ("tank", MTank), ("reservoir", MReservoir)])
_LINK_KINDS = collections.OrderedDict([("pipe", MPipe), ("pump", MPump), ("valve", MValve), ("head_pump", MHeadPump), ("power_pump", MPowerPump),
                                       ("prv", MPRValve), ("psv", MPSValve), ("pbv", MPBValve), ("fcv", MFCValve), ("tcv", MTCValve), ("gpv", MGPValve)])


class MockWN(object):
    """the documented accessor surface of WaterNetworkModel over a fixed set of mock elements"""
    _sa_mock = True

    def __init__(self, LS, nodes, links, demand_model="DD"):
        self._LS = LS
        nd = collections.OrderedDict()
        for name, kind, elev in nodes:
            nd[name] = _NODE_KINDS[kind](name, elev)
        ld = collections.OrderedDict()
        for name, kind, a, b, st, variant in links:
            l = _LINK_KINDS[kind](name, nd[a], nd[b], LS)
            l.set_effective(getattr(LS, st), variant)
            ld[name] = l
        self.nodes = _Registry(nd)
        self.links = _Registry(ld)
        self.name = "mock"
        self.sim_time = 0
        self._prev_sim_time = None
        hyd = dict(_OPTION_DEFAULTS.get("HydraulicOptions", {}))
        hyd.update(demand_model=demand_model, trials=200, headloss="H-W", minimum_pressure=0.0, required_pressure=0.07, pressure_exponent=0.5,
                   inpfile_units="LPS", accuracy=0.001, demand_multiplier=1.0, emitter_exponent=0.5, viscosity=1.0, specific_gravity=1.0)
        tim = dict(_OPTION_DEFAULTS.get("TimeOptions", {}))      # every field of the real options group (source defaults), then the scenario's values
        tim.update(duration=0, hydraulic_timestep=3600, report_timestep=3600, rule_timestep=360, pattern_timestep=3600, start_clocktime=0)
        self.options = _NS(hydraulic=_NS(**hyd), time=_NS(**tim))
        for nm, cls in _NODE_KINDS.items():
            self._add_kind(nm, cls, self.nodes)
        for nm, cls in _LINK_KINDS.items():
            self._add_kind(nm, cls, self.links)

    def _add_kind(self, nm, cls, reg):
        plural = nm + "s"
        setattr(self, plural, lambda reg=reg, cls=cls: reg(cls))
        setattr(self, nm + "_name_list", [k for k, v in reg.items() if isinstance(v, cls)])
        setattr(self, "num_" + plural, len([k for k, v in reg.items() if isinstance(v, cls)]))

    num_nodes = property(lambda s: len(s.nodes))
    num_links = property(lambda s: len(s.links))
    node_name_list = property(lambda s: s.nodes.keys())
    link_name_list = property(lambda s: s.links.keys())

    def get_node(self, name):
        return self.nodes[name]

    def get_link(self, name):
        return self.links[name]

    def get_links_for_node(self, node_name, flag="ALL"):
        f = flag.upper()
        if f not in ("ALL", "INLET", "OUTLET"):
            raise ValueError("Unrecognized flag: %s" % flag)
        if node_name not in self.nodes:
            raise KeyError(node_name)
        out = []
        for k, l in self.links.items():
            if (f in ("ALL", "OUTLET") and l.start_node_name == node_name) or (f in ("ALL", "INLET") and l.end_node_name == node_name):
                out.append(k)
        return out

    # -- harness side
    def neighbours(self):
        """{frozenset({a, b}): [links]}"""
        out = collections.OrderedDict()
        for k, l in self.links.items():
            out.setdefault(frozenset((l.start_node_name, l.end_node_name)), []).append(l)
        return out


class MTracker(object):
    """ControlChangeTracker: per reference point the set of (object, attribute) changed since it was (re)set"""
    _sa_mock = True

    def __init__(self):
        self.log = []
        self.cursor = {}
        self.used = []
        self.resets = []

    def _pending(self, key):
        seen, out = set(), []
        for oa in self.log[self.cursor.setdefault(key, 0):]:
            if (id(oa[0]), oa[1]) not in seen:
                seen.add((id(oa[0]), oa[1]))
                out.append(oa)
        return out

    def set_reference_point(self, key):
        self.cursor[key] = len(self.log)

    def reset_reference_point(self, key):
        self.cursor[key] = len(self.log)
        self.resets.append(key)

    def remove_reference_point(self, key):
        self.cursor.pop(key, None)

    def clear_all_reference_points(self):
        self.cursor.clear()

    def changes_made(self, ref_point):
        return len(self._pending(ref_point)) > 0

    def get_changes(self, ref_point):
        self.used.append(ref_point)
        return iter(self._pending(ref_point))

    def register_control(self, control):
        pass

    def deregister(self, control):
        pass

    def update(self, subject):
        pass

    # harness side
    def record(self, obj, attr):
        self.log.append((obj, attr))


class MUpdater(object):
    _sa_mock = True

    def __init__(self):
        self.updates = []
        self.adds = []

    def update(self, m, wn, obj, attr):
        self.updates.append((m, wn, obj, attr))

    def add(self, obj, attr, func):
        self.adds.append((obj, attr, func))


class _Var(object):
    _sa_mock = True

    def __init__(self, value):
        self.value = value


class _VarDict(object):
    """m.<field>[name].value: a distinct, recognisable number per (field, name)"""
    _sa_mock = True

    def __init__(self, field, base):
        self.field, self.base, self.names = field, base, {}

    def __getitem__(self, name):
        if name not in self.names:
            self.names[name] = _Var(self.base + 0.125 * (len(self.names) + 1))
        return self.names[name]

    def __contains__(self, name):
        return True

    # iteration over a model dictionary: the hydraulic model holds one entry per junction in its junction-indexed dictionaries (isolated junctions
    # included: demand_var / head_var create them for every junction) and one per link in `flow`; other fields iterate over what was asked for so far
    def _universe(self):
        wn = self.wn
        if wn is not None and self.field in ("demand", "head", "expected_demand", "elevation", "pmin", "pnom"):
            return [k for k, n in wn.nodes.items() if isinstance(n, MJunction)]
        if wn is not None and self.field == "flow":
            return list(wn.links)
        if wn is not None and self.field == "source_head":
            return [k for k, n in wn.nodes.items() if not isinstance(n, MJunction)]
        return list(self.names)

    def keys(self):
        return list(self._universe())

    def __iter__(self):
        return iter(self._universe())

    def __len__(self):
        return len(self._universe())

    def items(self):
        return [(k, self[k]) for k in self._universe()]

    def values(self):
        return [self[k] for k in self._universe()]

    wn = None


class MModel(object):
    _sa_mock = True

    def __init__(self, wn=None):
        self._fields = {}
        self._wn = wn

    def __getattr__(self, a):
        if a.startswith("_"):
            raise AttributeError(a)
        f = self.__dict__["_fields"]
        if a not in f:
            f[a] = _VarDict(a, 1000.0 * (len(f) + 1))
            f[a].wn = self.__dict__.get("_wn")
        return f[a]


def make_world(repo, LS, extra=None):
    ov, state = stdlib_overrides()
    inert = AutoMock
    ov.update({
        "wntr.network.base.LinkStatus": LS, "wntr.network.base.Node": MNode, "wntr.network.base.Link": MLink,
        "wntr.network.elements.Junction": MJunction, "wntr.network.elements.Tank": MTank, "wntr.network.elements.Reservoir": MReservoir,
        "wntr.network.elements.Pipe": MPipe, "wntr.network.elements.Pump": MPump, "wntr.network.elements.HeadPump": MHeadPump,
        "wntr.network.elements.PowerPump": MPowerPump, "wntr.network.elements.Valve": MValve, "wntr.network.elements.PRValve": MPRValve,
        "wntr.network.elements.PSValve": MPSValve, "wntr.network.elements.PBValve": MPBValve, "wntr.network.elements.FCValve": MFCValve,
        "wntr.network.elements.TCValve": MTCValve, "wntr.network.elements.GPValve": MGPValve,
        "wntr.network.model.WaterNetworkModel": MockWN,
        "wntr.utils.ordered_set.OrderedSet": OrderedSet,
        "wntr.network.controls.ControlChangeTracker": MTracker,
        "wntr.network.controls.ControlChecker": inert("ControlChecker"),
        "wntr.sim.solvers.NewtonSolver": inert("NewtonSolver"),
        "wntr.sim.models.utils.ModelUpdater": MUpdater,
        "wntr.sim.network_isolation.get_long_size": lambda: 8,
        "wntr.sim.network_isolation.network_isolation.get_long_size": lambda: 8,
        "pandas": inert("pandas"), "networkx": inert("networkx"), "plotly": inert("plotly"), "json": inert("json"), "os": inert("os"), "sys": inert("sys"),
        "time": inert("time"), "typing": inert("typing"), "enum": inert("enum"), "abc": inert("abc"),
    })
    ov.update(extra or {})
    return World(repo, ov), state


# ------------------------------------------------------------------------------------------------ the scenario network
#  (name, kind, start, end, effective status, variant of how the status is represented)
NODES = [("J1", "junction", 10.0), ("R1", "reservoir", 50.0), ("J2", "junction", 11.0), ("J3", "junction", 12.0), ("T1", "tank", 40.0), ("J4", "junction", 13.0),
         ("J5", "junction", 14.0), ("J6", "junction", 15.0), ("J7", "junction", 16.0), ("J8", "junction", 17.0), ("J9", "junction", 18.0), ("J10", "junction", 19.0),
         ("JL", "junction", 20.0)]
LINKS = [("P1", "pipe", "R1", "J1", "Open", 0), ("P2", "pipe", "J1", "J2", "Closed", 1), ("P3", "pipe", "J2", "J3", "Open", 2), ("PU1", "head_pump", "T1", "J3", "Closed", 0),
         ("P4", "pipe", "J1", "J4", "Closed", 0), ("P5", "pipe", "J4", "J1", "Open", 0), ("V1", "prv", "J4", "J5", "Active", 0), ("P6", "pipe", "J4", "J5", "Closed", 0),
         ("P7", "pipe", "J6", "J5", "Closed", 0), ("P8", "pipe", "J5", "J6", "Closed", 1), ("P9", "pipe", "J7", "J1", "Open", 0), ("P10", "pipe", "J1", "J7", "Closed", 0),
         ("P11", "pipe", "J7", "J8", "Closed", 2), ("P12", "pipe", "J7", "J8", "Closed", 1), ("P13", "pipe", "J8", "J7", "Open", 0), ("PU2", "power_pump", "J8", "J9", "Open", 0),
         ("V2", "tcv", "J3", "J2", "Closed", 1), ("V3", "fcv", "J9", "J10", "Open", 0)]
#  rounds of status changes (link, new status, variant) applied between searches; plus changes that are not status changes of links
ROUNDS = [
    [("PU1", "Open", 0), ("P1", "Closed", 1), ("P5", "Closed", 2), ("P4", "Open", 0), ("V1", "Closed", 1), ("P7", "Open", 0), ("V2", "Active", 0), ("P3", "Closed", 0)],
    [("P1", "Open", 0), ("PU1", "Closed", 1), ("V1", "Active", 0), ("P11", "Open", 0), ("P13", "Closed", 0), ("V2", "Closed", 1), ("P3", "Open", 0)],
]
#  generated rounds: every link toggled ALONE (closed <-> not closed) twice over, so that every member of every multi-link node pair changes while its
#  siblings stay as they are, in both states of the siblings; then subsets drawn by a fixed linear congruential sequence
def _generated_rounds():
    out = []
    names = [l[0] for l in LINKS]
    for rep in range(2):
        for k, nm in enumerate(names if rep == 0 else names[::-1]):
            out.append([(nm, "toggle", (k + rep) % 3)])
    x = 12345
    for r in range(14):
        pick = []
        for j in range(1 + r % 3):
            x = (1103515245 * x + 12345) % (2 ** 31)
            nm = names[(x >> 8) % len(names)]
            if nm not in [p_[0] for p_ in pick]:
                pick.append((nm, "toggle", (x >> 4) % 3))
        out.append(pick)
    return out


#  statuses found by a second run on the same simulator: the definition state again, plus edits made while paused
RESET_EDITS = [("P2", "Open", 0), ("P1", "Closed", 2), ("P6", "Open", 2), ("V1", "Closed", 0), ("P9", "Closed", 1), ("P10", "Open", 0), ("P13", "Closed", 2)]
OTHER_CHANGES = [("V1", "setting"), ("J1", "leak_status"), ("T1", "leak_status"), ("PU2", "base_speed")]


def expected_isolated(wn):
    """independent computation: junctions with no path of non-Closed links to a tank or reservoir, and all links attached to them"""
    LS = wn._LS
    adj = collections.defaultdict(set)
    for k, l in wn.links.items():
        if l.status != LS.Closed:
            adj[l.start_node_name].add(l.end_node_name)
            adj[l.end_node_name].add(l.start_node_name)
    seen = set(k for k, n in wn.nodes.items() if isinstance(n, (MTank, MReservoir)))
    todo = list(seen)
    while todo:
        u = todo.pop()
        for v in adj[u]:
            if v not in seen:
                seen.add(v)
                todo.append(v)
    iso = [k for k in wn.nodes.keys() if k not in seen]
    isl = [k for k, l in wn.links.items() if l.start_node_name in iso or l.end_node_name in iso]
    return iso, isl


def reach(sources, indptr, indices, data, nconn, n):
    """independent search on the arrays: nodes reached from the sources through entries equal to 1 -> indicator list"""
    ind = [1] * n
    todo = []
    for s in sources:
        if ind[s] == 1:
            ind[s] = 0
            todo.append(s)
    while todo:
        u = todo.pop(0)
        for k in range(indptr[u], indptr[u] + nconn[u]):
            if data[k] == 1 and ind[indices[k]] == 1:
                ind[indices[k]] = 0
                todo.append(indices[k])
    return ind


ROLES = ("sources", "node_indicator", "indptr", "indices", "data", "num_connections")


def c_signature(repo):
    """array parameters of the exported C function in order: each `long *x` followed by its `int` length"""
    cpp = repo.source(CPP)
    m = re.search(r"void\s+check_for_isolated_junctions\s*\(([^)]*)\)", cxx.strip_comments(cpp))
    if not m:
        raise AnchorError("C++ function check_for_isolated_junctions not found")
    params = [p.strip() for p in m.group(1).split(",")]
    out = []
    for p in params:
        out.append((p.split()[-1].lstrip("*&"), "*" in p))
    arrays = [nm for nm, is_ptr in out if is_ptr]
    if sorted(arrays) != sorted(ROLES):
        raise AnchorError("check_for_isolated_junctions: array parameters are %s, expected %s" % (arrays, list(ROLES)))
    # every array is followed by its length
    for i, (nm, is_ptr) in enumerate(out):
        if is_ptr and (i + 1 >= len(out) or out[i + 1][1]):
            raise ExtractError("check_for_isolated_junctions: array parameter %s is not followed by its length" % nm)
    return out, arrays


class Capture(object):
    """stands in for the compiled search: binds the caller's positional arrays to the C parameter names, keeps a snapshot and marks the
    reached nodes by an independent search (so the flag life cycle is judged independently of the C++ body)"""

    def __init__(self, arrays):
        self.arrays = arrays
        self.calls = []
        self.problems = []

    def __call__(self, *args, **kwargs):
        if kwargs or len(args) != len(self.arrays):
            raise ProgramError(TypeError("check_for_isolated_junctions() takes %d arrays, %d given" % (len(self.arrays), len(args) + len(kwargs))))
        bound = dict(zip(self.arrays, args))
        snap = {k: (list(v.v) if isinstance(v, NDArr) else (list(v) if isinstance(v, (list, tuple)) else v)) for k, v in bound.items()}
        rec = {"snap": snap, "valid": None, "after": None}
        self.calls.append(rec)
        rec["valid"] = self.validate(snap, bound)
        if rec["valid"] is None:
            n = len(snap["node_indicator"])
            ind = reach(snap["sources"], snap["indptr"], snap["indices"], snap["data"], snap["num_connections"], n)
            # marks reached nodes 0 in place; nodes the caller did not present as unreached (1) are left alone, like the C function does
            tgt = bound["node_indicator"]
            for i in range(n):
                if ind[i] == 0:
                    tgt[i] = 0
            rec["after"] = list(tgt.v)
        return None

    @staticmethod
    def validate(s, bound):
        for k, v in s.items():
            if not isinstance(v, list) or any(isinstance(x, bool) or not isinstance(x, int) for x in v):
                return "%s is not an integer array (%r)" % (k, v if not isinstance(v, list) else v[:6])
        if not isinstance(bound["node_indicator"], NDArr):
            return "node_indicator must be a numpy array (it is modified in place)"
        n = len(s["node_indicator"])
        ip = s["indptr"]
        if len(ip) != n + 1:
            return "indptr has %d entries for %d nodes (one row per node expected)" % (len(ip), n)
        if ip[0] != 0 or any(a > b for a, b in zip(ip[:-1], ip[1:])) or ip[-1] != len(s["indices"]) or len(s["indices"]) != len(s["data"]):
            return "indptr / indices / data do not form a CSR structure (indptr %s, %d indices, %d data)" % (ip, len(s["indices"]), len(s["data"]))
        if any(not (0 <= c < n) for c in s["indices"]):
            return "indices outside 0..%d" % (n - 1)
        if len(s["num_connections"]) != n:
            return "num_connections has %d entries for %d nodes" % (len(s["num_connections"]), n)
        if any(not (0 <= c and ip[i] + c <= len(s["data"])) for i, c in enumerate(s["num_connections"])):
            return "num_connections points outside the data array"
        if any(not (0 <= x < n) for x in s["sources"]):
            return "sources outside 0..%d" % (n - 1)
        return None


def attr_values(inst, depth=2):
    """attribute values of an evaluated instance and of the evaluated instances it holds"""
    out = []
    for v in inst._attrs.values():
        out.append(v)
        if isinstance(v, Instance) and depth > 0:
            out.extend(attr_values(v, depth - 1))
    return out


def name_id_map(sim, wn):
    """the simulator's node numbering, found by content: the dict that maps every node name to a distinct id in 0..n-1"""
    names = set(wn.nodes.keys())
    for v in attr_values(sim):
        if isinstance(v, dict) and set(v.keys()) == names and sorted(v.values()) == list(range(len(names))):
            return dict(v)
    raise ExtractError("WNTRSimulator: no attribute maps every node name to an id in 0..n-1 after construction")


def graph_facts(wn, n2i, snap):
    """compare the arrays handed to the search with the network: -> dict category -> list of mismatch texts"""
    LS = wn._LS
    i2n = {i: k for k, i in n2i.items()}
    n = len(n2i)
    ip, ix, dt, nc = snap["indptr"], snap["indices"], snap["data"], snap["num_connections"]
    out = {"single": [], "same": [], "opposite": [], "rows": [], "sources": [], "spurious": []}
    if len(ip) != n + 1:
        out["rows"].append("indptr has %d entries for %d nodes" % (len(ip), n))
        return out
    for a in range(n):
        if nc[a] != ip[a + 1] - ip[a]:
            out["rows"].append("node %s: num_connections %d, row length %d" % (i2n[a], nc[a], ip[a + 1] - ip[a]))

    def conn(a, b):
        return any(dt[k] == 1 for k in range(ip[a], ip[a] + nc[a]) if ix[k] == b)
    pairs = wn.neighbours()
    for pr, ls in pairs.items():
        if len(pr) == 1:
            continue
        a, b = sorted(pr, key=lambda x: n2i[x])
        exp = any(l.status != LS.Closed for l in ls)
        got = (conn(n2i[a], n2i[b]), conn(n2i[b], n2i[a]))
        if got != (exp, exp):
            dirs = {(l.start_node_name, l.end_node_name) for l in ls}
            cat = "single" if len(ls) == 1 else ("same" if len(dirs) == 1 else "opposite")
            desc = ", ".join("%s %s->%s %s%s%s" % (l.name, l.start_node_name, l.end_node_name, getattr(l.status, "name", "the plain number %r" % (l.status,)),
                                                   " (stale _is_isolated flag)" if l._is_isolated else "",
                                                   " (initial_status %s)" % l.initial_status.name if l.initial_status != l.status else "") for l in ls)
            out[cat].append("%s-%s: graph says %s->%s %s, %s->%s %s, expected %s [%s]" % (a, b, a, b, "connected" if got[0] else "cut", b, a,
                                                                                       "connected" if got[1] else "cut", "connected" if exp else "cut", desc))
    for a in range(n):
        for k in range(ip[a], ip[a] + nc[a]):
            if dt[k] == 1 and frozenset((i2n[a], i2n[ix[k]])) not in pairs:
                out["spurious"].append("%s->%s is connected in the graph but no link joins them" % (i2n[a], i2n[ix[k]]))
    want = sorted(n2i[k] for k, nd in wn.nodes.items() if isinstance(nd, (MTank, MReservoir)))
    if sorted(set(snap["sources"])) != want:
        out["sources"].append("sources %s, tanks and reservoirs are %s" % (sorted(i2n.get(s, s) for s in snap["sources"]), [i2n[s] for s in want]))
    return out


# ================================================================================================ path conditions of the builders
def forced_atoms(conds, pred):
    """value the path conditions force on the boolean atoms selected by pred(text): True / False / None (not determined).
    `A and B` true forces both, `A or B` false forces both false, `not A` flips, `A == False` / `A is False` flip, `A == True` keeps."""
    res = []

    def walk_(node, val):
        if isinstance(node, ast.UnaryOp) and isinstance(node.op, ast.Not):
            walk_(node.operand, not val)
            return
        if isinstance(node, ast.Compare) and len(node.ops) == 1 and isinstance(node.ops[0], (ast.Eq, ast.Is, ast.NotEq, ast.IsNot)) \
                and isinstance(node.comparators[0], ast.Constant) and isinstance(node.comparators[0].value, bool):
            same = isinstance(node.ops[0], (ast.Eq, ast.Is)) == node.comparators[0].value
            walk_(node.left, val if same else not val)
            return
        if isinstance(node, ast.BoolOp):
            if isinstance(node.op, ast.And) and val is True:
                for v in node.values:
                    walk_(v, True)
            elif isinstance(node.op, ast.Or) and val is False:
                for v in node.values:
                    walk_(v, False)
            elif len(node.values) == 1:
                walk_(node.values[0], val)
            return
        if pred(ast.unparse(node)):
            res.append(val)
    for k, v in conds:
        try:
            walk_(ast.parse(k, mode="eval").body, bool(v))
        except SyntaxError:
            continue
    if True in res and False in res:
        return None
    return res[0] if res else None


_ISO = lambda t: t.endswith("._is_isolated") or t == "_is_isolated"
_CLOSED = lambda t: bool(re.match(r"^.*status\s*(==|is)\s*(\w+\.)*LinkStatus\.Closed$", t) or re.match(r"^(\w+\.)*LinkStatus\.Closed\s*(==|is)\s*.*status$", t))
_NOTCLOSED = lambda t: bool(re.match(r"^.*status\s*(!=|is not)\s*(\w+\.)*LinkStatus\.Closed$", t))


def closed_forced(conds):
    a = forced_atoms(conds, _CLOSED)
    b = forced_atoms(conds, _NOTCLOSED)
    if a is not None:
        return a
    if b is not None:
        return not b
    return None


# ================================================================================================ the rules
def run(repo, chk):
    from ._shared import options_class_defaults
    for _c in ("TimeOptions", "HydraulicOptions"):
        _OPTION_DEFAULTS[_c] = options_class_defaults(repo, _c)
    sim_cls = repo.cls(CORE, "WNTRSimulator")
    meths = {n.name: n for n in sim_cls.body if isinstance(n, ast.FunctionDef)}
    for n in meths.values():
        n._rel = CORE
        n._qual = "WNTRSimulator." + n.name
    for need in ("_initialize_internal_graph", "_update_internal_graph", "_get_isolated_junctions_and_links", "run_sim"):
        if need not in meths:
            raise AnchorError("WNTRSimulator.%s vanished" % need)
    ig, ug, gi, rs = meths["_initialize_internal_graph"], meths["_update_internal_graph"], meths["_get_isolated_junctions_and_links"], meths["run_sim"]
    chk.fn(ig, ug, gi, rs)
    LS = link_status_enum(repo)
    sig, arrays = c_signature(repo)
    uf = repo.func(HYD, "update_model_for_isolated_junctions_and_links")
    chk.fn(uf)
    uparams = [a.arg for a in uf.args.args]
    if len(uparams) < 5 or uf.args.vararg or uf.args.kwarg:
        raise ExtractError("update_model_for_isolated_junctions_and_links: expected (model, wn, updater, previous junctions, previous links, new junctions, new links), found %s" % uparams)

    # ---------------------------------------------------------------- scenarios: R-C09-1 graph encoding, R-C09-2 caller, R-C09-3 flag life cycle
    with chk.part("scenarios: R-C09-1 graph encoding, R-C09-2 caller, R-C09-3 flag life cycle"):
        captured = []          # valid snapshots, reused as a graph family for the C++ search
        used_keys = set()

        def scenario(label, stale, debug):
            """one simulator on the scenario network: initialise, search, then two rounds of (status changes, update, search)"""
            wn = MockWN(LS, NODES, LINKS)
            if stale:
                # flags left over from an earlier (paused) simulation must not influence the graph
                for k in ("P5", "P1", "PU2", "V1"):
                    wn.get_link(k)._is_isolated = True
                for k in ("J4", "J1"):
                    wn.get_node(k)._is_isolated = True
            cap = Capture(arrays)
            model_calls = []

            def model_update(*args, **kwargs):
                # bound by the signature of the real function, so positional and keyword calls are the same thing
                if len(args) > len(uparams) or any(k not in uparams for k in kwargs) or any(k in uparams[:len(args)] for k in kwargs):
                    raise ProgramError(TypeError("update_model_for_isolated_junctions_and_links() called with %d positional and keywords %s; parameters are %s" % (len(args), sorted(kwargs), uparams)))
                bound = dict(zip(uparams, args))
                bound.update(kwargs)
                if len(bound) != len(uparams):
                    raise ProgramError(TypeError("update_model_for_isolated_junctions_and_links() missing arguments %s" % [p_ for p_ in uparams if p_ not in bound]))
                model_calls.append(([bound[p_] for p_ in uparams], {k: v._is_isolated for k, v in wn.nodes.items()}, {k: v._is_isolated for k, v in wn.links.items()}))
            world, state = make_world(repo, LS, {
                "wntr.sim.network_isolation.check_for_isolated_junctions": cap,
                "wntr.sim.network_isolation.network_isolation.check_for_isolated_junctions": cap,
                "wntr.sim.hydraulics.update_model_for_isolated_junctions_and_links": model_update})
            state["log_level"] = 10 if debug else 30
            it = world.interp
            where = "construction"
            try:
                sim = world.function(CORE, "WNTRSimulator")(wn)
            except ProgramError as e:
                raise ExtractError("WNTRSimulator(wn) raises on the mock network: %s (line %s)" % (e, e.lineno))
            if not isinstance(sim, Instance):
                raise ExtractError("WNTRSimulator is not a class of %s" % CORE)
            n2i = name_id_map(sim, wn)
            i2n = {i: k for k, i in n2i.items()}
            trackers = [v for v in attr_values(sim) if isinstance(v, MTracker)]
            if len(trackers) != 1:
                raise ExtractError("WNTRSimulator: expected exactly one ControlChangeTracker attribute after construction, found %d" % len(trackers))
            tracker = trackers[0]
            prev = ([], [])
            rounds = ROUNDS + (_generated_rounds() if not stale else [])
            steps = ["initialisation"] + ["update after round %d of status changes%s" % (k + 1, "" if k < len(ROUNDS) else " (%s)" % ", ".join(r_[0] for r_ in rounds[k]))
                                          for k in range(len(rounds))] + ["rebuild on the used simulator after statuses were changed outside any run"]
            last = len(steps) - 1
            for step, what in enumerate(steps):
                tag = "%s, %s" % (label, what)
                fails = None
                rule_g = "R-C09-6" if step == last else "R-C09-1"
                try:
                    if step == 0:
                        where = "_initialize_internal_graph"
                        it.getattr_(sim, "_initialize_internal_graph")()
                        for k in ("graph", "model"):
                            tracker.set_reference_point(k)
                    elif step == last:
                        # what run_sim finds when the simulator object is used again (reset_initial_values, an edit while paused): the statuses differ
                        # from those the graph was left with and no control action told the change tracker
                        for lk, kind, a_, b_, st, variant in LINKS:
                            wn.get_link(lk).set_effective(getattr(LS, st), variant)
                        for lk, st, variant in RESET_EDITS:
                            wn.get_link(lk).set_effective(getattr(LS, st), variant)
                        where = "_initialize_internal_graph"
                        it.getattr_(sim, "_initialize_internal_graph")()
                        for k in ("graph", "model"):
                            tracker.reset_reference_point(k)
                    else:
                        for lk, st, variant in rounds[step - 1]:
                            l = wn.get_link(lk)
                            if st == "toggle":
                                st = ("Active" if isinstance(l, MValve) else "Open") if l.status == LS.Closed else "Closed"
                            l.set_effective(getattr(LS, st), variant)
                            tracker.record(l, "status")
                        for nm, attr in OTHER_CHANGES:
                            tracker.record(wn.get_link(nm) if nm in wn.links else wn.get_node(nm), attr)
                        tracker.used, tracker.resets = [], []
                        where = "_update_internal_graph"
                        it.getattr_(sim, "_update_internal_graph")()
                        used_keys.update(tracker.used)
                        pending = [k for k in tracker.used if tracker._pending(k)]
                        chk.expect(not pending and (not tracker.used or set(tracker.used) <= set(tracker.resets)), "R-C09-1",
                                   "[%s] the update consumes the changes since its reference point and resets that reference point" % tag, loc(ug),
                                   "a reference point that is not reset makes every later update re-apply old changes and lets update_model/ controls see stale ones",
                                   expected="every reference point read is reset", found="read %s, reset %s, still pending %s" % (tracker.used, tracker.resets, pending))
                    ncalls = len(cap.calls)
                    nmodel = len(model_calls)
                    where = "_get_isolated_junctions_and_links"
                    it.getattr_(sim, "_get_isolated_junctions_and_links")()
                except ProgramError as e:
                    fails = "%s raises %s at line %s" % (where, e, e.lineno)
                rule = "R-C09-3" if where == "_get_isolated_junctions_and_links" and fails else rule_g
                if fails:
                    chk.bad(rule, "[%s] %s runs on the scenario network" % (tag, where), loc(meths[where]) if where in meths else CORE,
                            "the scenario has parallel links in both orientations, closed links, pumps, valves, an unlinked junction as last node, and changes of "
                            "attributes other than the status of links in the change tracker", found=fails)
                    return
                # ---- the arrays handed to the search
                new = cap.calls[ncalls:]
                chk.expect(len(new) == 1, "R-C09-2", "[%s] the search is invoked once per call of _get_isolated_junctions_and_links" % tag, loc(gi), found=len(new))
                if len(new) != 1:
                    return
                rec = new[0]
                chk.expect(rec["valid"] is None, "R-C09-2",
                           "[%s] the Python caller passes sources, indicator, indptr, indices, data, num_connections in the order of the C signature" % tag, loc(gi),
                           "the arrays are bound positionally to %s" % arrays, found=rec["valid"])
                if rec["valid"] is not None:
                    return
                snap = rec["snap"]
                chk.expect(snap["node_indicator"] == [1] * len(n2i), "R-C09-2", "[%s] every node starts as not reached (indicator 1, one entry per node)" % tag, loc(gi),
                           found=snap["node_indicator"])
                captured.append(snap)
                gf = graph_facts(wn, n2i, snap)
                texts = [("single", "a node pair joined by one link (pipe, pump or valve) is connected, in both directions, iff that link's status is not Closed"),
                         ("same", "a node pair joined by several links drawn the same way is connected iff any of them is not Closed"),
                         ("opposite", "a node pair joined by links drawn in opposite directions is connected iff any of them is not Closed"),
                         ("rows", "the graph has one row per node and num_connections holds the row lengths"),
                         ("sources", "the sources of the search are all tanks and all reservoirs"),
                         ("spurious", "only node pairs joined by a link are connected")]
                for cat, text in texts:
                    chk.expect(not gf[cat], rule_g, "[%s] %s" % (tag, text), loc(ig if step in (0, last) else ug),
                               "the search follows an entry iff it is 1: a non-closed link must give 1 whatever else is true of it (stale _is_isolated flag, initial_status, "
                               "_user_status/_internal_status representation), a closed one 0 unless a parallel link is open", found="; ".join(gf[cat][:4]) or None)
                # ---- flag life cycle, judged against the indicator the search left behind
                iso_ids = [i for i, v in enumerate(rec["after"]) if v == 1]
                exp_j = [i2n[i] for i in iso_ids]
                exp_l = [k for k, l in wn.links.items() if l.start_node_name in exp_j or l.end_node_name in exp_j]
                fj = [k for k, v in wn.nodes.items() if v._is_isolated]
                fl = [k for k, v in wn.links.items() if v._is_isolated]
                if not stale:
                    chk.expect(not (set(fj) - set(exp_j)) and not (set(fl) - set(exp_l)), "R-C09-3",
                               "[%s] every flag set by the previous search (junctions and links) is cleared when the element is reachable again" % tag, loc(gi),
                               found="still flagged: %s %s" % (sorted(set(fj) - set(exp_j)), sorted(set(fl) - set(exp_l))))
                chk.expect(set(exp_j) <= set(fj), "R-C09-3", "[%s] every node whose indicator is still 1 after the search is flagged isolated" % tag, loc(gi),
                           found="not flagged: %s" % sorted(set(exp_j) - set(fj)))
                chk.expect(set(exp_l) <= set(fl), "R-C09-3", "[%s] every link attached to an isolated junction (inlet or outlet) is flagged isolated" % tag, loc(gi),
                           found="not flagged: %s" % sorted(set(exp_l) - set(fl)))
                mc = model_calls[nmodel:]
                ok_model = len(mc) == 1
                found = "%d calls" % len(mc)
                if ok_model:
                    a = mc[0][0]
                    last4 = [sorted(x) if isinstance(x, (OrderedSet, set, list, tuple, frozenset)) else x for x in a[-4:]]
                    want4 = [sorted(prev[0]), sorted(prev[1]), sorted(exp_j), sorted(exp_l)]
                    flags_final = (not stale and sorted(k for k, v in mc[0][1].items() if v) == sorted(exp_j) and sorted(k for k, v in mc[0][2].items() if v) == sorted(exp_l)) or \
                        (stale and set(exp_j) <= {k for k, v in mc[0][1].items() if v} and set(exp_l) <= {k for k, v in mc[0][2].items() if v})
                    ok_model = last4 == want4 and flags_final and any(x is wn for x in a[:-4])
                    found = "sets %s; flags final at the call: %s" % (last4, flags_final)
                chk.expect(ok_model, "R-C09-3", "[%s] the model rows are rebuilt once, from (previous sets, new sets), after the flags are final" % tag, loc(gi),
                           "update_model_for_isolated_junctions_and_links(model, wn, updater, previous junctions, previous links, new junctions, new links)",
                           expected="previous %s %s / new %s %s" % (sorted(prev[0]), sorted(prev[1]), sorted(exp_j), sorted(exp_l)), found=found)
                prev = (exp_j, exp_l)
                # ---- the scenario itself must exercise isolation and reconnection (guards the harness)
                ej, el = expected_isolated(wn)
                if not gf["single"] and not gf["same"] and not gf["opposite"] and not gf["rows"] and not gf["sources"] and not gf["spurious"]:
                    chk.expect(sorted(ej) == sorted(exp_j), rule_g, "[%s] the junctions the search leaves unreached are exactly those without a path of non-closed links to a source" % tag,
                               loc(gi), expected=sorted(ej), found=sorted(exp_j))

        scenario("network with stale flags", True, True)
        scenario("clean network", False, False)
        # the reference point read by the update is one that run_sim sets
        set_keys = {const(c.args[0]) if c.args else (const(c.keywords[0].value) if c.keywords else None) for m_ in meths.values() for c in calls(m_) if last_attr(c) == "set_reference_point"}
        chk.expect(bool(used_keys) and used_keys <= set_keys, "R-C09-1", "the graph update reads a change-tracker reference point that the simulator sets before the first step", loc(ug),
                   expected="one of %s" % sorted(str(k) for k in set_keys), found=sorted(str(k) for k in used_keys))

        # run_sim: graph refreshed before each isolation search, search before each solve (CFG facts)
        g = CFG(rs)
        heads = [h for n, h in g.loop_heads.items() if isinstance(n, ast.While)]
        if len(heads) != 1:
            raise AnchorError("run_sim: expected exactly one while loop")
        head = heads[0]
        upds = g.calling("_update_internal_graph")
        isos = g.calling("_get_isolated_junctions_and_links")
        solves = g.calling("_solver_helper")
        okd, w = g.must_pass(head, isos, upds, drop_back=True)
        chk.expect(bool(upds) and bool(isos) and okd, "R-C09-1", "run_sim refreshes the internal graph before every isolation search", loc(rs),
                   found=("path: " + g.path_text(w)) if w else None)
        oks, w = g.must_pass(head, solves[:1], isos, drop_back=True)
        chk.expect(bool(solves) and oks, "R-C09-1", "run_sim searches for isolated junctions before every solve", loc(rs), found=("path: " + g.path_text(w)) if w else None)
        post = g.calling("_run_postsolve_controls")
        conts = g.nodes_where(lambda node, d: isinstance(node, ast.Continue))
        chk.expect(bool(post) and bool(conts), "R-C09-1", "re-solve path exists (post-solve controls, continue)", loc(rs))
        chk.floor("R-C09-1", 12)

    # ---------------------------------------------------------------- R-C09-6 every run_sim call searches a graph that reflects the CURRENT statuses
    with chk.part("R-C09-6 every run_sim call searches a graph that reflects the CURRENT statuses"):
        # (T1, CFG must-pass.)  The update only applies what the change tracker saw since the reference point that run_sim itself sets; statuses changed
        # between two runs on the same simulator object (reset_initial_values, an edit while paused) are invisible to it.  So on EVERY path from the entry of
        # run_sim to the first update / search the graph must be rebuilt in full from the current statuses, and the reference point the update reads must be
        # set after that rebuild.  (That a rebuild on a used simulator really reflects the current statuses is the T3 step 4 of the scenarios above.)
        _always = {}

        def always_rebuilds(name, depth=0):
            """does every path through method `name` to its normal exit call _initialize_internal_graph (directly or through such a method)?"""
            if name == "_initialize_internal_graph":
                return True
            if name in _always:
                return _always[name]
            _always[name] = False          # recursion guard
            fn = meths.get(name)
            if fn is None or depth > 4 or name == "run_sim":
                return False
            cg = CFG(fn)
            via = rebuild_nodes(cg, depth + 1)
            ok, _w = cg.must_pass(cg.entry, [cg.exit], via)
            _always[name] = bool(via) and ok
            return _always[name]

        def rebuild_nodes(cg, depth=0):
            def pred(node, d):
                for c in walk(node):
                    if isinstance(c, ast.Call) and isinstance(c.func, ast.Attribute) and isinstance(c.func.value, ast.Name) and c.func.value.id in ("self", "cls", sim_cls.name) \
                            and c.func.attr in meths and always_rebuilds(c.func.attr, depth):
                        return True
                return False
            return cg.nodes_where(pred)
        rebuilds = rebuild_nodes(g)
        consumers = sorted(set(upds) | set(isos))

        def sets_key(node, d):
            for c in walk(node):
                if isinstance(c, ast.Call) and last_attr(c) == "set_reference_point":
                    k = const(c.args[0]) if c.args else (const(c.keywords[0].value) if c.keywords else None)
                    if k in used_keys:
                        return True
            return False
        setrefs = g.nodes_where(sets_key)
        ok6, w = g.must_pass(g.entry, consumers, rebuilds)
        chk.expect(bool(rebuilds) and bool(consumers) and ok6, "R-C09-6", "every call of run_sim rebuilds the connectivity graph from the current statuses before its first update / isolation search",
                   loc(rs), "the graph update only applies the status changes the change tracker saw since run_sim set its reference point: a graph kept from an earlier run on the same "
                   "simulator object (reset_initial_values, an edit while paused) keeps stale 0/1 entries, a connected junction is zeroed or a cut-off one is solved",
                   expected="_initialize_internal_graph on every path from the entry to the first _update_internal_graph / _get_isolated_junctions_and_links",
                   found=("path without a rebuild: " + g.path_text(w)) if w else ("no rebuild call in run_sim" if not rebuilds else None))
        ok6b, w = g.must_pass(g.entry, consumers, setrefs)
        chk.expect(bool(setrefs) and ok6b, "R-C09-6", "every call of run_sim sets the reference point the graph update reads before its first update", loc(rs),
                   found=("path: " + g.path_text(w)) if w else "set_reference_point(%s) not found in run_sim" % sorted(str(k) for k in used_keys))
        ok6c, w = g.must_pass(g.entry, setrefs, rebuilds)
        chk.expect(bool(setrefs) and bool(rebuilds) and ok6c, "R-C09-6", "the reference point the graph update reads is set after the rebuild (the rebuilt graph and the reference statuses are the same state)",
                   loc(rs), found=("path: " + g.path_text(w)) if w else None)
        chk.floor("R-C09-6", 3 + 12)

    # ---------------------------------------------------------------- R-C09-2 the C++ search against an independent search
    with chk.part("R-C09-2 the C++ search against an independent search"):
        ci = CInterp(repo.source(CPP))
        if not ci.has("check_for_isolated_junctions"):
            raise AnchorError("C++ function check_for_isolated_junctions not found")

        def c_search(g_):
            vals = dict(g_)
            ind = [1] * g_["n"]
            vals["node_indicator"] = ind
            args = []
            cur = None
            for nm, is_ptr in sig:
                if is_ptr:
                    cur = list(vals[nm]) if nm != "node_indicator" else ind
                    args.append(cur)
                else:
                    args.append(len(cur))
            ci.call("check_for_isolated_junctions", args)
            return ind

        def csr(n, edges):
            """edges: (a, b, value) directed entries -> indptr, indices, data, num_connections"""
            rows = [[] for _ in range(n)]
            for a, b, v in edges:
                rows[a].append((b, v))
            ip, ix, dt = [0], [], []
            for r in rows:
                for b, v in sorted(r):
                    ix.append(b)
                    dt.append(v)
                ip.append(len(ix))
            return {"n": n, "indptr": ip, "indices": ix, "data": dt, "num_connections": [len(r) for r in rows]}

        def sym(pairs):
            return [(a, b, v) for a, b, v in pairs] + [(b, a, v) for a, b, v in pairs]
        rnd = random.Random(909)
        fam = collections.OrderedDict()
        fam["the graphs the simulator built for the scenario network (closed and parallel links, an unlinked last node)"] = [
            dict(n=len(s["node_indicator"]), sources=s["sources"], indptr=s["indptr"], indices=s["indices"], data=s["data"], num_connections=s["num_connections"]) for s in captured]
        chains = []
        for n in (1, 2, 5, 9):
            for cut in range(-1, n - 1):
                e = sym([(i, i + 1, 0 if i == cut else 1) for i in range(n - 1)])
                for src in sorted({0, n // 2, n - 1}):
                    chains.append(dict(csr(n, e), sources=[src]))
        fam["chains with one closed link, searched from an end and from the middle"] = chains
        cyc = []
        for n in (3, 6):
            for c1 in range(n):
                for c2 in range(c1, n):
                    e = sym([(i, (i + 1) % n, 0 if i in (c1, c2) else 1) for i in range(n)])
                    cyc.append(dict(csr(n, e), sources=[0]))
        fam["rings with one or two closed links"] = cyc
        rg = []
        for _ in range(60):
            n = rnd.randint(1, 12)
            pairs = {(a, b) for a in range(n) for b in range(a + 1, n) if rnd.random() < 0.25}
            e = sym([(a, b, rnd.choice((0, 1, 1))) for a, b in sorted(pairs)])
            rg.append(dict(csr(n, e), sources=sorted(rnd.sample(range(n), rnd.randint(1, min(3, n))))))
        fam["random graphs with open (1) and closed (0) entries"] = rg
        fam["nodes without links: as a source, in the middle, as the last node"] = [
            dict(csr(4, sym([(1, 2, 1)])), sources=[0]), dict(csr(4, sym([(0, 1, 1)])), sources=[0]), dict(csr(5, sym([(0, 1, 1), (3, 4, 1)])), sources=[3, 2]),
            dict(csr(3, []), sources=[1])]
        fam["several sources: unsorted, repeated, one reachable from another"] = [
            dict(csr(6, sym([(0, 1, 1), (1, 2, 1), (3, 4, 1), (4, 5, 0)])), sources=[3, 0, 3, 2]), dict(csr(6, sym([(0, 1, 1), (1, 2, 0), (2, 3, 1), (4, 5, 1)])), sources=[5, 2, 0]),
            dict(csr(4, sym([(0, 1, 1), (1, 2, 1), (2, 3, 1)])), sources=[3, 0])]
        fam["no source at all: every node stays unreached"] = [dict(csr(4, sym([(0, 1, 1), (2, 3, 1)])), sources=[]), dict(csr(1, []), sources=[])]
        fam["entries that differ by direction: an entry is followed only from its own row"] = [
            dict(csr(4, [(0, 1, 1), (1, 0, 0), (1, 2, 0), (2, 1, 1), (2, 3, 1), (3, 2, 1)]), sources=[0]), dict(csr(3, [(0, 1, 0), (1, 0, 1), (1, 2, 1), (2, 1, 1)]), sources=[0]),
            dict(csr(3, [(0, 1, 0), (1, 0, 1), (1, 2, 1), (2, 1, 1)]), sources=[2])]
        for name, graphs in fam.items():
            bad = None
            for g_ in graphs:
                want = reach(g_["sources"], g_["indptr"], g_["indices"], g_["data"], g_["num_connections"], g_["n"])
                try:
                    got = c_search(g_)
                except CProgramError as e:
                    got = "fails: %s" % e
                if got != want:
                    bad = "graph indptr=%s indices=%s data=%s sources=%s: indicator %s, independent search %s" % (g_["indptr"], g_["indices"], g_["data"], g_["sources"], got, want)
                    break
            chk.expect(bool(graphs) and bad is None, "R-C09-2", "check_for_isolated_junctions marks exactly the nodes reachable from the sources through entries equal to 1 on: " + name, CPP,
                       "evaluated on %d graphs" % len(graphs), found=bad or ("no graph available" if not graphs else None))
        chk.floor("R-C09-2", 8)

    # ---------------------------------------------------------------- R-C09-3 model update for the symmetric difference
    with chk.part("R-C09-3 model update for the symmetric difference"):
        wn = MockWN(LS, NODES, LINKS)
        world, _ = make_world(repo, LS)
        fn_u = world.function(HYD, "update_model_for_isolated_junctions_and_links")
        combos = [((["J2", "J3"], ["P2", "P3"]), (["J3", "J6"], ["P3", "P7", "P8"])), (([], []), (["J1"], ["P1", "P2"])), ((["J1", "JL"], ["P1"]), ([], [])),
                  ((["J5"], ["V1", "P6"]), (["J5"], ["V1", "P6"]))]
        for mk, mkname in ((OrderedSet, "OrderedSet"), (set, "set")):
            bad = None
            for (pj, pl), (nj, nl) in combos:
                up = MUpdater()
                mm = MModel()
                try:
                    fn_u(mm, wn, up, mk(pj), mk(pl), mk(nj), mk(nl))
                except ProgramError as e:
                    bad = "raises %s (line %s) for previous %s %s / new %s %s" % (e, e.lineno, pj, pl, nj, nl)
                    break
                want = {(wn.get_node(k), "_is_isolated") for k in set(pj) ^ set(nj)} | {(wn.get_link(k), "_is_isolated") for k in set(pl) ^ set(nl)}
                got = {(o, a) for m_, w_, o, a in up.updates}
                if got != want or any(m_ is not mm or w_ is not wn for m_, w_, o, a in up.updates):
                    bad = "previous %s %s / new %s %s: updated %s, expected %s" % (pj, pl, nj, nl, sorted((o.name, a) for o, a in got), sorted((o.name, a) for o, a in want))
                    break
            chk.expect(bad is None, "R-C09-3", "update_model_for_isolated_junctions_and_links rebuilds, through the updater entries registered for '_is_isolated', exactly the rows of the "
                       "symmetric difference (newly isolated and reconnected junctions and links) [sets given as %s]" % mkname, loc(uf), found=bad)
        chk.floor("R-C09-3", 8)

    # ---------------------------------------------------------------- R-C09-4 zeroing of the results
    with chk.part("R-C09-4 zeroing of the results"):
        sfn = repo.func(HYD, "store_results_in_network")
        svf = repo.func(HYD, "save_results")
        chk.fn(sfn, svf)
        world, _ = make_world(repo, LS)
        fn_s = world.function(HYD, "store_results_in_network")
        fn_v = world.function(HYD, "save_results")
        res = collections.OrderedDict()      # fact -> first counterexample
        facts = ["an isolated junction reports demand = 0 in every demand mode and leak state", "an isolated junction reports pressure = 0 in every demand mode and leak state",
                 "an isolated junction reports leak_demand = 0 in every demand mode and leak state",
                 "an isolated junction is stored with the head of zero pressure (its elevation)", "an isolated link reports flow 0",
                 "a connected junction reports the solved head (never zeroed)", "a connected link reports the solved flow (never zeroed)",
                 "save_results reports pressure 0, demand 0 and leak 0 for an isolated junction and flow 0 for an isolated link"]
        for f in facts:
            res[f] = None

        def note(f, txt):
            if res[f] is None:
                res[f] = txt
        runs = 0
        for mode in ("DD", "PDD", "PDA"):
            for leaky in (False, True):
                wn = MockWN(LS, NODES, LINKS, demand_model=mode)
                ej, el = expected_isolated(wn)
                for k in ej:
                    wn.get_node(k)._is_isolated = True
                for k in el:
                    wn.get_link(k)._is_isolated = True
                for k, nd in wn.nodes.items():
                    nd._leak_status = leaky and not isinstance(nd, MReservoir)
                    nd._head, nd._demand, nd._pressure, nd._leak_demand = 777.0, 777.0, 777.0, 777.0     # stale values of an earlier step
                for k, l in wn.links.items():
                    l._flow = 777.0
                mm = MModel(wn)
                ctx = "demand model %s, leak_status %s" % (mode, leaky)
                try:
                    fn_s(wn, mm)
                except ProgramError as e:
                    for f in facts[:7]:
                        note(f, "store_results_in_network raises %s (line %s) [%s]" % (e, e.lineno, ctx))
                    continue
                runs += 1
                for k, nd in wn.nodes.items():
                    if not isinstance(nd, MJunction):
                        continue
                    if nd._is_isolated:
                        for f, fld in ((facts[0], "_demand"), (facts[1], "_pressure"), (facts[2], "_leak_demand")):
                            v = getattr(nd, fld)
                            if not (isinstance(v, (int, float)) and not isinstance(v, bool) and v == 0):
                                note(f, "junction %s: %s = %r [%s]" % (k, fld, v, ctx))
                        if nd._head != nd.elevation:
                            note(facts[3], "junction %s: _head = %r, elevation %r [%s]" % (k, nd._head, nd.elevation, ctx))
                    elif nd._head != mm.head[k].value:
                        note(facts[5], "junction %s: _head = %r, solved head %r [%s]" % (k, nd._head, mm.head[k].value, ctx))
                for k, l in wn.links.items():
                    if l._is_isolated:
                        if not (isinstance(l._flow, (int, float)) and l._flow == 0):
                            note(facts[4], "link %s: _flow = %r [%s]" % (k, l._flow, ctx))
                    elif l._flow != mm.flow[k].value:
                        note(facts[6], "link %s: _flow = %r, solved flow %r [%s]" % (k, l._flow, mm.flow[k].value, ctx))
                node_res = collections.defaultdict(lambda: collections.defaultdict(list))
                link_res = collections.defaultdict(lambda: collections.defaultdict(list))
                try:
                    fn_v(wn, node_res, link_res)
                except ProgramError as e:
                    note(facts[7], "save_results raises %s (line %s) [%s]" % (e, e.lineno, ctx))
                    continue
                for k in ej:
                    for key in ("pressure", "demand", "leak_demand"):
                        v = node_res[key][k]
                        if len(v) != 1 or v[0] != 0:
                            note(facts[7], "node['%s'][%s] = %r [%s]" % (key, k, v, ctx))
                for k in el:
                    v = link_res["flowrate"][k]
                    if len(v) != 1 or v[0] != 0:
                        note(facts[7], "link['flowrate'][%s] = %r [%s]" % (k, v, ctx))
        if not runs:
            chk.error("R-C09-4: store_results_in_network could not be evaluated in any demand mode")
        for f, bad in res.items():
            chk.expect(bad is None, "R-C09-4", f, loc(svf if f.startswith("save_results") else sfn),
                       "evaluated on the scenario network for the demand models DD / PDD / PDA with and without leaks; a cut-off junction with a constant head (e.g. 0) is read as a real "
                       "head by _CloseHeadPumpCondition / _OpenCVCondition / the tank controls", found=bad)

        # builders: Closed-or-isolated -> q = 0 row; no balance / PDD / leak row for an isolated junction; re-registration on _is_isolated
        cons = repo.classes(CON)
        linklaws = sorted(k for k in cons if k.endswith("_headloss_constraint"))
        for k in linklaws:
            if not any(isinstance(n, ast.FunctionDef) and n.name == "build" for n in cons[k].body):
                continue
            fn, paths, ex = B.run_builder(repo, CON, k + ".build")
            chk.fn(fn)
            live = [p for p in paths if not p.st.raised]
            wrong, n_zero, n_other, unreg = [], 0, 0, []
            for p in live:
                rows = [(t, v) for t, v, ln in p.stores("m.") if "[" in t]
                zero = bool(rows) and all(isinstance(v, SymConstraint) and (getattr(v.expr, "is_Symbol", False) or isinstance(v.expr, Opaque)) and
                                          re.match(r"^m\.flow\[[^\]]*\]$", v.expr.text if isinstance(v.expr, Opaque) else str(v.expr)) for t, v in rows)
                iso, closed = forced_atoms(p.conds, _ISO), closed_forced(p.conds)
                if iso is not False or closed is not False:
                    # this path can be taken by an isolated (or closed) link: it must give the q = 0 row
                    if not zero:
                        wrong.append("%s -> %s" % (p.label[-140:], [str(v)[:60] for t, v in rows]))
                    else:
                        n_zero += 1
                elif not zero:
                    n_other += 1
                if "_is_isolated" not in p.updater_attrs():
                    unreg.append(p.label[-80:])
            chk.expect(not wrong and n_zero >= 1 and n_other >= 1 and not unreg and bool(live), "R-C09-4",
                       "%s: a Closed or isolated link gets the q = 0 row on every path and the builder re-registers on _is_isolated" % k, loc(CON, fn),
                       "every path whose conditions do not exclude `_is_isolated` (or `status == Closed`) must store Constraint(flow); a path that excludes both builds the head-loss row",
                       found="paths that may be taken by an isolated/closed link without the q = 0 row: %s; q=0 paths %d, head-loss paths %d; not registered on: %s" % (wrong[:2], n_zero, n_other, unreg[:2]))
        for k in ("mass_balance_constraint", "pdd_mass_balance_constraint", "pdd_constraint", "leak_constraint"):
            if k not in cons:
                raise AnchorError("builder %s vanished" % k)
            fn, paths, ex = B.run_builder(repo, CON, k + ".build")
            chk.fn(fn)
            live = [p for p in paths if not p.st.raised]
            wrong, n_built, n_skipped, unreg = [], 0, 0, []
            for p in live:
                rows = [(t, v) for t, v, ln in p.stores("m.") if "[" in t]
                iso = forced_atoms(p.conds, _ISO)
                if iso is not False:
                    if rows:
                        wrong.append("%s -> %s" % (p.label[-140:], [t for t, v in rows]))
                    else:
                        n_skipped += 1
                elif rows:
                    n_built += 1
                if "_is_isolated" not in p.updater_attrs():
                    unreg.append(p.label[-80:])
            chk.expect(not wrong and n_built >= 1 and n_skipped >= 1 and not unreg and bool(live), "R-C09-4",
                       "%s: no row is built for an isolated junction and the builder re-registers on _is_isolated" % k, loc(CON, fn),
                       found="paths that may be taken by an isolated junction and build a row: %s; building paths %d, skipping paths %d; not registered on: %s" % (wrong[:2], n_built, n_skipped, unreg[:2]))
        chk.floor("R-C09-4", 8 + 8 + 4)

    # ---------------------------------------------------------------- R-C09-5 a link created closed is closed in the first solve
    with chk.part("R-C09-5 a link created closed is closed in the first solve"):
        # decided by BUILDING links through the public API (the repository's constructors, interpreted) in every status they can be given -- as a name and
        # as a LinkStatus member -- and reading them back before any simulation: the status the isolation graph and every status rule read must be the
        # initial status the caller asked for  (until session 3 this was a text match on an assignment to _user_status in the three add_* methods)
        from ..concrete import ProgramError as _PE, Unsupported as _US
        from .c13 import model_world
        MODEL = "wntr/network/model.py"
        fns = {meth: repo.func(MODEL, "LinkRegistry." + meth) for meth in ("add_pipe", "add_pump", "add_valve")}
        chk.fn(*fns.values())
        world = model_world(repo)
        I = world.interp
        call = lambda o, m, *a, **k: I.call(I.getattr_(o, m), list(a), k)
        LSr = world.overrides["wntr.network.base.LinkStatus"]
        try:
            wn = world.function(MODEL, "WaterNetworkModel")()
            call(wn, "add_curve", "HC", "HEAD", [(0.0, 40.0), (0.05, 30.0), (0.1, 10.0)])
            call(wn, "add_curve", "GC", "HEADLOSS", [(0.0, 0.0), (0.1, 2.0)])
            for n_ in ("A", "B"):
                call(wn, "add_junction", n_)
            cases = [("add_pipe", dict(), ("OPEN", "CLOSED")), ("add_pipe", dict(check_valve=True), ("OPEN",)),
                     ("add_pump", dict(pump_type="POWER", pump_parameter=1000.0), ("OPEN", "CLOSED")), ("add_pump", dict(pump_type="HEAD", pump_parameter="HC"), ("OPEN", "CLOSED"))]
            cases += [("add_valve", dict(valve_type=vt, initial_setting=("GC" if vt == "GPV" else 5.0)), ("ACTIVE", "OPEN", "CLOSED")) for vt in ("PRV", "PSV", "PBV", "FCV", "TCV", "GPV")]
            k = 0
            for meth, kw, statuses in cases:
                for st_name in statuses:
                    for as_member in (False, True):
                        k += 1
                        nm = "L%d" % k
                        want = LSr[st_name.capitalize() if st_name != "CV" else "CV"] if st_name.capitalize() in LSr.__members__ else LSr[{"OPEN": "Open", "CLOSED": "Closed", "ACTIVE": "Active"}[st_name]]
                        call(wn, meth, nm, "A", "B", initial_status=(want if as_member else st_name), **kw)
                        l = call(wn, "get_link", nm)
                        got = I.getattr_(l, "status")
                        chk.expect(got == want and I.getattr_(l, "initial_status") == want, "R-C09-5",
                                   "a %s%s created with initial_status %s (%s) reads status %s before any simulation" % (
                                       meth[4:], " " + str(kw.get("valve_type") or kw.get("pump_type") or ("with a check valve" if kw.get("check_valve") else "")).strip(), st_name,
                                       "a LinkStatus member" if as_member else "a name", want.name), loc(fns[meth]),
                                   "the isolation graph and the status rules read link.status; a link created closed that reads open is simulated open and the junctions behind it are "
                                   "served instead of zeroed", expected=want.name, found="status %s, initial_status %s" % (getattr(got, "name", got), getattr(I.getattr_(l, "initial_status"), "name", None)))
        except _PE as e:
            chk.bad("R-C09-5", "links can be created in every initial status through the public API", loc(fns["add_pipe"]), found="%s (line %s)" % (e, e.lineno))
        except _US as e:
            raise ExtractError("R-C09-5: %s" % e)
        chk.floor("R-C09-5", 40)


WITNESSES = [
    dict(name="pair-list-outlet-only", file=CORE, old="                for link_name in self._wn.get_links_for_node(from_node_name):\n                    link = self._wn.get_link(link_name)\n                    if link.start_node_name == to_node_name or link.end_node_name == to_node_name:",
         new="                for link_name in self._wn.get_links_for_node(from_node_name, 'OUTLET'):\n                    link = self._wn.get_link(link_name)\n                    if link.end_node_name == to_node_name:", rule="R-C09-1"),
    dict(name="closed-links-stay-connected-at-start", file=CORE, old="            if link.status == wntr.network.LinkStatus.Closed:\n                vals.append(0)\n                vals.append(0)",
         new="            if link.status == wntr.network.LinkStatus.Closed:\n                vals.append(1)\n                vals.append(1)", rule="R-C09-1"),
    dict(name="graph-from-initial-status", file=CORE, old="            if link.status == wntr.network.LinkStatus.Closed:\n                vals.append(0)",
         new="            if link.initial_status == wntr.network.LinkStatus.Closed:\n                vals.append(0)", rule="R-C09-1"),
    dict(name="update-one-direction-only", file=CORE, old="                    ndx1, ndx2 = ndx_map[obj]\n                    data[ndx1] = 0\n                    data[ndx2] = 0\n",
         new="                    ndx1, ndx2 = ndx_map[obj]\n                    data[ndx1] = 0\n", rule="R-C09-1"),
    dict(name="parallel-links-all-must-be-open", file=CORE, old="            for link in link_list:\n                if link.status != wntr.network.LinkStatus.Closed:\n                    ndx1, ndx2 = ndx_map[link]\n                    data[ndx1] = 1\n                    data[ndx2] = 1",
         new="            for link in link_list:\n                if link.status == wntr.network.LinkStatus.Closed:\n                    ndx1, ndx2 = ndx_map[link]\n                    data[ndx1] = 0\n                    data[ndx2] = 0", rule="R-C09-1"),
    dict(name="reservoirs-not-sources", file=CORE, old="        for node_name, node in self._wn.reservoirs():\n            node_id = self._node_name_to_id[node_name]\n            self._source_ids.append(node_id)\n", new="", rule="R-C09-1"),
    dict(name="reference-point-not-reset", file=CORE, old="        self._change_tracker.reset_reference_point(key='graph')\n", new="", rule="R-C09-1"),
    dict(name="cpp-follows-closed-entries", file=CPP, old="if (val == 1)", new="if (val >= 0)", rule="R-C09-2"),
    dict(name="old-link-flags-not-cleared", file=CORE, old="        for l in self._prev_isolated_links:\n            link = self._wn.get_link(l)\n            link._is_isolated = False\n", new="", rule="R-C09-3"),
    dict(name="links-of-isolated-junction-not-flagged", file=CORE, old="                link._is_isolated = True\n                isolated_links.add(l)", new="                isolated_links.add(l)", rule="R-C09-3"),
    dict(name="isolated-junction-keeps-demand", file=HYD, old="            node._head = node.elevation\n            node._demand = 0\n", new="            node._head = node.elevation\n", rule="R-C09-4"),
    dict(name="isolated-junction-head-zero", file=HYD, old="            node._head = node.elevation\n", new="            node._head = 0\n", rule="R-C09-4"),
    dict(name="graph-shape-inferred", file=CORE, old=", shape=(self._wn.num_nodes, self._wn.num_nodes))", new=")", rule="R-C09-1"),
    dict(name="pump-run-time-status-left-to-the-initial-status-setter-preserving", file="wntr/network/model.py", old="        pump._user_status = pump.initial_status  # as add_pipe: a link starts in its initial status\n", new="", silent=True),
    dict(name="pump-created-closed-starts-open", file="wntr/network/model.py", old="        pump._user_status = pump.initial_status  # as add_pipe: a link starts in its initial status\n", new="        pump._user_status = LinkStatus.Open\n", rule="R-C09-5"),
    dict(name="initial-status-setter-leaves-the-run-time-status-alone-and-valves-do-not-copy-it", file="wntr/network/model.py", old="        valve._user_status = valve.initial_status  # as add_pipe: a link starts in its initial status\n", new="        valve._user_status = LinkStatus.Active\n", rule="R-C09-5"),
    dict(name="isolated-link-keeps-flow", file=HYD, old="        if link._is_isolated:\n            link._flow = 0", new="        if link._is_isolated and link.status == 0:\n            link._flow = 0", rule="R-C09-4"),
    # ---- behaviour-preserving variants (must stay quiet): the shapes of the refactorings the rules are required to tolerate
    dict(name="quiet-search-split-into-helpers-renamed-locals", file=CORE, silent=True,
         old="    def _get_isolated_junctions_and_links(self):\n        logger_level = logger.getEffectiveLevel()\n",
         new="    def _clear_previous_isolation_flags(self):\n        for junction_name in self._prev_isolated_junctions:\n            self._wn.get_node(junction_name)._is_isolated = False\n"
             "        for link_name in self._prev_isolated_links:\n            self._wn.get_link(link_name)._is_isolated = False\n\n"
             "    def _unreachable_node_ids(self):\n        indicator = np.ones(self._wn.num_nodes, dtype=self._int_dtype)\n"
             "        check_for_isolated_junctions(self._source_ids, indicator, self._internal_graph.indptr,\n"
             "                                     self._internal_graph.indices, self._internal_graph.data,\n"
             "                                     self._number_of_connections)\n        for node_id in np.flatnonzero(indicator == 1):\n            yield int(node_id)\n\n"
             "    def _get_isolated_junctions_and_links(self):\n        logger_level = logger.getEffectiveLevel()\n",
         also=[("        for j in self._prev_isolated_junctions:\n            junction = self._wn.get_node(j)\n            junction._is_isolated = False\n"
                "        for l in self._prev_isolated_links:\n            link = self._wn.get_link(l)\n            link._is_isolated = False\n",
                "        self._clear_previous_isolation_flags()\n"),
               ("        node_indicator = np.ones(self._wn.num_nodes, dtype=self._int_dtype)\n        check_for_isolated_junctions(self._source_ids, node_indicator, self._internal_graph.indptr,\n"
                "                                     self._internal_graph.indices, self._internal_graph.data,\n                                     self._number_of_connections)\n\n"
                "        isolated_junction_ids = [i for i in range(len(node_indicator)) if node_indicator[i] == 1]\n",
                "        isolated_junction_ids = list(self._unreachable_node_ids())\n"),
               ("            j = self._node_id_to_name[j_id]\n            junction = self._wn.get_node(j)\n            junction._is_isolated = True\n            isolated_junctions.add(j)\n"
                "            connected_links = self._wn.get_links_for_node(j)\n            for l in connected_links:\n                link = self._wn.get_link(l)\n"
                "                link._is_isolated = True\n                isolated_links.add(l)\n",
                "            junction_name = self._node_id_to_name[j_id]\n            self._wn.get_node(junction_name)._is_isolated = True\n            isolated_junctions.add(junction_name)\n"
                "            for link_name in self._wn.get_links_for_node(junction_name, 'ALL'):\n                isolated_links.add(link_name)\n"
                "                self._wn.get_link(link_name)._is_isolated = True\n")]),
    dict(name="quiet-graph-entry-as-conditional-expression-and-merged-source-loops", file=CORE, silent=True,
         old="            if link.status == wntr.network.LinkStatus.Closed:\n                vals.append(0)\n                vals.append(0)\n            else:\n                vals.append(1)\n                vals.append(1)\n",
         new="            entry = 0 if link.status == wntr.network.LinkStatus.Closed else 1\n            vals.extend([entry, entry])\n",
         also=[("        self._source_ids = []\n        for node_name, node in self._wn.tanks():\n            node_id = self._node_name_to_id[node_name]\n            self._source_ids.append(node_id)\n"
                "        for node_name, node in self._wn.reservoirs():\n            node_id = self._node_name_to_id[node_name]\n            self._source_ids.append(node_id)\n"
                "        self._source_ids = np.array(self._source_ids, dtype=self._int_dtype)\n",
                "        source_ids = [self._node_name_to_id[name] for name, _ in itertools.chain(self._wn.tanks(), self._wn.reservoirs())]\n"
                "        self._source_ids = np.array(source_ids, dtype=self._int_dtype)\n")]),
    dict(name="quiet-graph-update-hoisted-and-any-idiom", file=CORE, silent=True,
         old="                if obj.status == wntr.network.LinkStatus.Closed:\n                    ndx1, ndx2 = ndx_map[obj]\n                    data[ndx1] = 0\n                    data[ndx2] = 0\n"
             "                else:\n                    ndx1, ndx2 = ndx_map[obj]\n                    data[ndx1] = 1\n                    data[ndx2] = 1\n",
         new="                ndx1, ndx2 = ndx_map[obj]\n                data[ndx1] = data[ndx2] = int(not obj.status == wntr.network.LinkStatus.Closed)\n",
         also=[("            first_link = link_list[0]\n            ndx1, ndx2 = ndx_map[first_link]\n            data[ndx1] = 0\n            data[ndx2] = 0\n            for link in link_list:\n"
                "                if link.status != wntr.network.LinkStatus.Closed:\n                    ndx1, ndx2 = ndx_map[link]\n                    data[ndx1] = 1\n                    data[ndx2] = 1\n",
                "            connected = 1 if any(link.status != wntr.network.LinkStatus.Closed for link in link_list) else 0\n            for ndx in ndx_map[link_list[0]]:\n                data[ndx] = connected\n")]),
    dict(name="quiet-cpp-early-continue-and-declarations-at-first-use", file=CPP, silent=True,
         old="\t\t  val = data[ndx + i];\n\t\t  if (val == 1)\n                    {\n\t\t      col = indices[ndx + i];\n\t\t      if (node_indicator[col] == 1)\n                        {\n"
             "\t\t\t  node_indicator[col] = 0;\n\t\t\t  nodes_to_explore.insert(col);\n                        }\n                    }\n",
         new="\t\t  if (data[ndx + i] != 1) continue;\n\t\t  const int neighbour = indices[ndx + i];\n\t\t  if (node_indicator[neighbour] != 1) { continue; }\n"
             "\t\t  node_indicator[neighbour] = 0;\n\t\t  nodes_to_explore.insert(neighbour);\n",
         also=[("while (!nodes_to_explore.empty())", "while (nodes_to_explore.size() > 0)")]),
    dict(name="quiet-results-conditional-expression-and-hoisted-head", file=HYD, silent=True,
         old="        if link._is_isolated:\n            link._flow = 0\n        else:\n            link._flow = m.flow[name].value\n",
         new="        link._flow = 0 if link._is_isolated else m.flow[name].value\n",
         also=[("            node._head = m.head[name].value\n            node._pressure = m.head[name].value - node.elevation\n",
                "            solved_head = m.head[name].value\n            node._head = solved_head\n            node._pressure = solved_head - node.elevation\n")]),
    dict(name="quiet-builder-guard-hoisted-and-reordered", file=CON, silent=True,
         old="            if status == LinkStatus.Closed or link._is_isolated:\n                con = aml.Constraint(f)\n            else:\n                eps = 1e-5",
         new="            closed = status == LinkStatus.Closed\n            if link._is_isolated or closed:\n                con = aml.Constraint(f)\n            else:\n                eps = 1e-5"),
    dict(name="quiet-builder-not-isolated-as-comparison", file=CON, silent=True,
         old="            if not node._is_isolated:\n                expr = m.expected_demand[node_name]", new="            if node._is_isolated == False:\n                expr = m.expected_demand[node_name]"),
    dict(name="quiet-model-update-by-keyword-and-symmetric-difference-operator", file=HYD, silent=True,
         old="    j1 = prev_isolated_junctions - isolated_junctions\n    j2 = isolated_junctions - prev_isolated_junctions\n    j = j1.union(j2)\n    for _j in j:\n        junction = wn.get_node(_j)\n"
             "        model_updater.update(m, wn, junction, '_is_isolated')\n\n    l1 = prev_isolated_links - isolated_links\n    l2 = isolated_links - prev_isolated_links\n    l = l1.union(l2)\n"
             "    for _l in l:\n        link = wn.get_link(_l)\n        model_updater.update(m, wn, link, '_is_isolated')\n",
         new="    changed = [(wn.get_node, prev_isolated_junctions ^ isolated_junctions), (wn.get_link, prev_isolated_links ^ isolated_links)]\n    for getter, names in changed:\n"
             "        for name in names:\n            model_updater.update(m, wn, getter(name), attr='_is_isolated')\n"),
    dict(name="quiet-search-hands-sets-over-by-keyword", file=CORE, silent=True,
         old="        wntr.sim.hydraulics.update_model_for_isolated_junctions_and_links(self._model, self._wn, self._model_updater,\n"
             "                                                                          self._prev_isolated_junctions,\n"
             "                                                                          self._prev_isolated_links,\n"
             "                                                                          isolated_junctions, isolated_links)\n"
             "        self._prev_isolated_junctions = isolated_junctions\n        self._prev_isolated_links = isolated_links\n",
         new="        previous = dict(prev_isolated_junctions=self._prev_isolated_junctions, prev_isolated_links=self._prev_isolated_links)\n"
             "        self._prev_isolated_junctions, self._prev_isolated_links = isolated_junctions, isolated_links\n"
             "        wntr.sim.hydraulics.update_model_for_isolated_junctions_and_links(self._model, self._wn, model_updater=self._model_updater,\n"
             "                                                                          isolated_links=isolated_links, isolated_junctions=isolated_junctions, **previous)\n"),
    dict(name="graph-built-once-per-simulator", file=CORE, rule="R-C09-6",
         old="        self._initialize_internal_graph()\n        self._change_tracker.set_reference_point('graph')\n",
         new="        if self._internal_graph is None:\n            self._initialize_internal_graph()\n        self._change_tracker.set_reference_point('graph')\n"),
    dict(name="rebuild-skips-when-graph-exists", file=CORE, rule="R-C09-6",
         old="    def _initialize_internal_graph(self):\n        n_links = OrderedDict()\n",
         new="    def _initialize_internal_graph(self):\n        if self._internal_graph is not None:\n            return\n        n_links = OrderedDict()\n"),
    dict(name="quiet-rebuild-in-helper-called-unconditionally", file=CORE, silent=True,
         old="        self._initialize_internal_graph()\n        self._change_tracker.set_reference_point('graph')\n",
         new="        self._prepare_isolation_search()\n",
         also=[("    def _initialize_internal_graph(self):\n",
                "    def _prepare_isolation_search(self):\n        self._initialize_internal_graph()\n        self._change_tracker.set_reference_point('graph')\n\n    def _initialize_internal_graph(self):\n")]),
    dict(name="quiet-rebuild-in-opaque-helper-and-both-branches", file=CORE, silent=True,
         old="        self._initialize_internal_graph()\n        self._change_tracker.set_reference_point('graph')\n",
         new="        if self._internal_graph is None:\n            self._rebuild_graph('first run')\n        else:\n            self._rebuild_graph('simulator used again')\n"
             "        self._change_tracker.set_reference_point('graph')\n",
         also=[("    def _initialize_internal_graph(self):\n",
                "    def _rebuild_graph(self, *why):\n        logger.debug('building the isolation graph: %s', why)\n        self._initialize_internal_graph()\n\n    def _initialize_internal_graph(self):\n")]),
]
