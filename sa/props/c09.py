"""C09 -- junctions cut off from all sources are zeroed; connected ones never are.

Python side: graph encoding, flag life cycle, zeroing of results and of the model rows.  The C++ search is checked for shape only.
"""
import ast
import re

from ..src import walk, calls, call_name, last_attr, dotted, norm, loc, const, AnchorError, ExtractError, parent, unparse
from ..cfg import CFG
from .. import cxx
from ._shared import final_stores, forced

CORE = "wntr/sim/core.py"
HYD = "wntr/sim/hydraulics.py"
CON = "wntr/sim/models/constraint.py"
CPP = "wntr/sim/network_isolation/network_isolation.cpp"

EXPLANATION = (
    "Static analysis of the isolation machinery: (R-C09-1) the internal connectivity graph encodes a link as connected iff its status is not "
    "Closed, both directions together, for every pipe, pump and valve; node pairs joined by several links share one entry that is recomputed as "
    "'any link not Closed'; tanks and reservoirs are the sources; status changes since the 'graph' reference point are consumed and the reference "
    "point reset; run_sim refreshes the graph before every isolation search; (R-C09-2) the C++ search seeds from every source, follows only "
    "entries equal to 1, marks reached nodes 0 and scans num_connections[node] entries from indptr[node]; (R-C09-3) "
    "_get_isolated_junctions_and_links clears every flag it set before, flags exactly the indicator-1 junctions and all their links, rebuilds the "
    "model rows for the symmetric difference and stores the new sets; (R-C09-4) store_results_in_network reports 0 for head, demand, pressure "
    "and leak of an isolated junction and 0 flow for an isolated link on every path, save_results reports 0 pressure, and every constraint "
    "builder treats _is_isolated like Closed (q = 0 row), drops the balance / PDD / leak rows and re-registers on _is_isolated. "
    "Decides these clauses; correctness of reachability on all graphs is not decided.")
RULE_TEXT = "one instance = one encoding site, one search-shape fact, one flag store, one reported quantity per path, one builder; distinct = distinct constructs"
ASSUMPTIONS = [
    "the compiled extension is built from the C++ source that is read (edits of the .cpp need a rebuild to take effect)",
    "scipy's csr_matrix keeps explicit zero entries given at construction (closed links keep their slot)",
]


def closed_test_polarity(test):
    """+1 if the test is `<x>.status == LinkStatus.Closed` (true branch = closed), -1 for `!=`, 0 otherwise."""
    if isinstance(test, ast.Compare) and len(test.ops) == 1 and "status" in unparse(test.left) and unparse(test.comparators[0]).endswith("LinkStatus.Closed"):
        if isinstance(test.ops[0], (ast.Eq, ast.Is)):
            return 1
        if isinstance(test.ops[0], (ast.NotEq, ast.IsNot)):
            return -1
    return 0


def status_encoding_table(test):
    """truth table of a guard over (status is Closed?) x (every other atom free): -> (set of outcomes when Closed, set when not Closed, other atoms).
    Atoms other than the comparison of a status with LinkStatus.Closed are free booleans."""
    import itertools
    atoms = []

    def collect(t):
        if isinstance(t, ast.BoolOp):
            for v in t.values:
                collect(v)
        elif isinstance(t, ast.UnaryOp) and isinstance(t.op, ast.Not):
            collect(t.operand)
        elif closed_test_polarity(t) == 0 and unparse(t) not in atoms:
            atoms.append(unparse(t))
    collect(test)

    def ev(t, closed, val):
        if isinstance(t, ast.BoolOp):
            vs = [ev(v, closed, val) for v in t.values]
            return all(vs) if isinstance(t.op, ast.And) else any(vs)
        if isinstance(t, ast.UnaryOp) and isinstance(t.op, ast.Not):
            return not ev(t.operand, closed, val)
        p_ = closed_test_polarity(t)
        if p_ == 1:
            return closed
        if p_ == -1:
            return not closed
        return val[unparse(t)]
    when_closed, when_open = set(), set()
    for combo in itertools.product([False, True], repeat=len(atoms)):
        val = dict(zip(atoms, combo))
        when_closed.add(ev(test, True, val))
        when_open.add(ev(test, False, val))
    return when_closed, when_open, atoms


def status_guards(fn, store_pred):
    """If statements of fn whose test mentions a status comparison with Closed and whose branches make the selected stores."""
    out = []
    for n in walk(fn):
        if isinstance(n, ast.If) and any(closed_test_polarity(x) != 0 for x in ast.walk(n.test)):
            if any(store_pred(c) for c in ast.walk(ast.Module(body=n.body + n.orelse, type_ignores=[]))):
                out.append(n)
    return out


def const_stores(body, pred):
    """constants assigned / appended in a statement list where pred(stmt) selects the relevant stores."""
    vals = []
    for s in body:
        for n in ast.walk(s):
            if isinstance(n, ast.Assign) and pred(n):
                vals.append(const(n.value))
            if isinstance(n, ast.Call) and isinstance(n.func, ast.Attribute) and n.func.attr == "append" and pred(n):
                vals.append(const(n.args[0]))
    return vals



def pair_rules(ig, chk, rule):
    """links of a node pair with several links are collected regardless of their direction (used by C09 and C01)."""
    coll = [n for n in walk(ig) if isinstance(n, ast.For) and isinstance(n.iter, ast.Call) and last_attr(n.iter) == "get_links_for_node"
            and any(last_attr(c) == "append" for c in calls(n))]
    if not coll:
        raise ExtractError("_initialize_internal_graph: collection of the links of a multi-link node pair not found")
    lp = coll[0]
    flag = None
    if len(lp.iter.args) > 1:
        flag = const(lp.iter.args[1])
    for k in lp.iter.keywords:
        if k.arg == "flag":
            flag = const(k.value)
    flag_all = flag in (None, "ALL", "all", "All")
    memb = [n for n in walk(lp) if isinstance(n, ast.If) and any(last_attr(c) == "append" for c in calls(ast.Module(body=n.body, type_ignores=[])))]
    both = False
    if memb:
        t = memb[0].test
        txt = unparse(t)
        both = isinstance(t, ast.BoolOp) and isinstance(t.op, ast.Or) and "start_node_name" in txt and "end_node_name" in txt
    chk.expect(flag_all and both, rule, "the links of a node pair joined by several links are collected in both directions (a->b and b->a)", loc(ig, lp),
               "a parallel link drawn the other way round must share the pair's graph entry: if it is left out, closing its twin marks the pair disconnected although "
               "the reversed link is open, and connected junctions behind it are reported with zero demand", expected="get_links_for_node(node) [ALL] and start == other or end == other",
               found="flag=%r test=%s" % (flag, unparse(memb[0].test) if memb else None))


def run(repo, chk):
    sim = repo.cls(CORE, "WNTRSimulator")
    meths = {n.name: n for n in sim.body if isinstance(n, ast.FunctionDef)}
    for n in meths.values():
        n._rel = CORE
        n._qual = "WNTRSimulator." + n.name
    for need in ("_initialize_internal_graph", "_update_internal_graph", "_get_isolated_junctions_and_links", "run_sim"):
        if need not in meths:
            raise AnchorError("WNTRSimulator.%s vanished" % need)
    ig, ug, gi, rs = meths["_initialize_internal_graph"], meths["_update_internal_graph"], meths["_get_isolated_junctions_and_links"], meths["run_sim"]
    chk.fn(ig, ug, gi, rs)

    # ---------------------------------------------------------------- R-C09-1 graph encoding
    # (a) initial values: closed -> 0,0 ; else 1,1
    is_vals = lambda n: isinstance(n, ast.Call) and isinstance(n.func, ast.Attribute) and n.func.attr == "append" and unparse(n.func.value) == "vals"
    enc = status_guards(ig, is_vals)
    if not enc:
        raise ExtractError("_initialize_internal_graph: status -> vals encoding not found")
    e0 = enc[0]
    wc, wo, other = status_encoding_table(e0.test)
    then_vals = const_stores(e0.body, is_vals)
    else_vals = const_stores(e0.orelse, is_vals)
    # the branch taken must be a function of "status is Closed" alone
    chk.expect(len(wc) == 1 and len(wo) == 1 and wc != wo, "R-C09-1", "initial graph: whether a link is connected depends on its status being Closed and on nothing else", loc(ig, e0),
               "a link that is not closed must be connected whatever else is true of it (a path of non-closed links is never cut); other atoms in the guard: %s" % other,
               expected="guard true iff status == Closed (or its negation)", found=unparse(e0.test))
    if len(wc) == 1 and len(wo) == 1 and wc != wo:
        closed_vals = then_vals if True in wc else else_vals
        open_vals = else_vals if True in wc else then_vals
    else:
        closed_vals, open_vals = then_vals, else_vals
    chk.expect(closed_vals == [0, 0] and open_vals == [1, 1], "R-C09-1", "initial graph: a link contributes 0,0 iff its status is Closed, else 1,1 (both directions)", loc(ig, e0),
               "the connectivity entry of a link must be 0 exactly when it is closed", expected="closed [0, 0] / otherwise [1, 1]", found="closed %s / otherwise %s" % (closed_vals, open_vals))
    chk.expect("link.status" in unparse(e0.test), "R-C09-1", "initial graph uses the effective status (link.status), not the user or initial status", loc(ig, e0), found=unparse(e0.test))
    # symmetric rows/cols
    loop0 = e0
    while loop0 is not None and not isinstance(loop0, ast.For):
        loop0 = parent(loop0)
    rc = [(unparse(c.func.value), unparse(c.args[0])) for c in calls(loop0) if isinstance(c.func, ast.Attribute) and c.func.attr == "append" and unparse(c.func.value) in ("rows", "cols")]
    chk.expect(sorted(rc) == sorted([("rows", "from_node_id"), ("cols", "to_node_id"), ("rows", "to_node_id"), ("cols", "from_node_id")]), "R-C09-1",
               "initial graph stores every link in both directions (from,to) and (to,from)", loc(ig, loop0), found=rc)
    it = unparse(loop0.iter)
    kinds = {k for k in ("pipes", "pumps", "valves") if ("%s()" % k) in it}
    chk.expect(kinds == {"pipes", "pumps", "valves"} or "links()" in it, "R-C09-1", "initial graph ranges over every pipe, pump and valve", loc(ig, loop0), found=it)
    names = {"from_node_name": None, "to_node_name": None}
    for s in walk(loop0):
        if isinstance(s, ast.Assign) and isinstance(s.targets[0], ast.Name) and s.targets[0].id in names:
            names[s.targets[0].id] = unparse(s.value)
    chk.expect(set(names.values()) == {"link.start_node_name", "link.end_node_name"}, "R-C09-1", "graph end points are the link's start and end node", loc(ig, loop0), found=names)
    # the graph has one row per node: its shape is given, not inferred from the largest node id that has a link
    mk = [c for c in calls(ig) if (call_name(c) or "").endswith("csr_matrix")]
    if not mk:
        raise ExtractError("_initialize_internal_graph: csr_matrix construction not found")
    shp = [k for k in mk[0].keywords if k.arg == "shape"]
    chk.expect(bool(shp) and unparse(shp[0].value).replace(" ", "") in ("(self._wn.num_nodes,self._wn.num_nodes)", "(len(self._node_name_to_id),len(self._node_name_to_id))"), "R-C09-1",
               "the connectivity matrix is built with an explicit shape of num_nodes x num_nodes", loc(ig, mk[0]),
               "csr_matrix((vals, (rows, cols))) infers its shape from the largest linked node id: a junction without links that happens to be the last node makes indptr too short "
               "and the simulator raises IndexError instead of reporting it isolated", expected="shape=(num_nodes, num_nodes)", found=norm(mk[0]))
    # parallel links: shared entry reset to 0, then 1 if any link is not Closed (init and update)
    for fn, label in ((ig, "initial graph"), (ug, "graph update")):
        ok = False
        found = ""
        for lp in [n for n in walk(fn) if isinstance(n, ast.For) and "_node_pairs_with_multiple_links" in unparse(n.iter) or (isinstance(n, ast.For) and "n_links" in unparse(n.iter))]:
            zero = [s for s in walk(lp) if isinstance(s, ast.Assign) and const(s.value) == 0 and ("_internal_graph" in unparse(s.targets[0]) or unparse(s.targets[0]).startswith("data["))]
            ones = []
            for c in [n for n in walk(lp) if isinstance(n, ast.If) and closed_test_polarity(n.test) == -1]:
                ones += [s for s in c.body if isinstance(s, ast.Assign) and const(s.value) == 1]
            wrong = [n for n in walk(lp) if isinstance(n, ast.If) and closed_test_polarity(n.test) == 1 and any(isinstance(s, ast.Assign) and const(s.value) == 1 for s in n.body)]
            if len(zero) >= 2 and len(ones) >= 2 and not wrong and min(z.lineno for z in zero) < min(o.lineno for o in ones):
                ok = True
            # equivalent idiom: entry = int(any(link.status != Closed for link in links)) / not all(link.status == Closed ...)
            for c in [x for x in walk(lp) if isinstance(x, ast.Call) and isinstance(x.func, ast.Name) and x.func.id in ("any", "all") and x.args
                      and isinstance(x.args[0], (ast.GeneratorExp, ast.ListComp))]:
                pol_ = closed_test_polarity(c.args[0].elt)
                negated = isinstance(parent(c), ast.UnaryOp) and isinstance(parent(c).op, ast.Not)
                if (c.func.id == "any" and pol_ == -1 and not negated) or (c.func.id == "all" and pol_ == 1 and negated):
                    stores_ = [s for s in walk(lp) if isinstance(s, ast.Assign) and (unparse(s.targets[0]).startswith("data[") or "_internal_graph" in unparse(s.targets[0]))]
                    if len(stores_) >= 2:
                        ok = True
            found = "zero stores %d, one-if-not-closed stores %d, one-if-closed %d" % (len(zero), len(ones), len(wrong))
        chk.expect(ok, "R-C09-1", "%s: a node pair joined by several links is connected iff any of them is not Closed (entry reset to 0, then set to 1)" % label, loc(fn),
                   "parallel links share one graph entry", found=found)
    # the list of links joining one node pair is orientation independent: a link drawn b->a beside a->b belongs to the same pair
    pair_rules(ig, chk, "R-C09-1")
    # (b) update on status change
    is_data = lambda n: isinstance(n, ast.Assign) and unparse(n.targets[0]).startswith("data[")
    upd = [n for n in status_guards(ug, is_data) if "obj" in unparse(n.test)]
    if not upd:
        raise ExtractError("_update_internal_graph: status change encoding not found")
    u0 = upd[0]
    wc, wo, other = status_encoding_table(u0.test)
    chk.expect(len(wc) == 1 and len(wo) == 1 and wc != wo, "R-C09-1", "graph update: whether a link is connected depends on its status being Closed and on nothing else", loc(ug, u0),
               "other atoms in the guard: %s" % other, found=unparse(u0.test))
    cv = const_stores(u0.body if True in wc else u0.orelse, is_data)
    ov = const_stores(u0.orelse if True in wc else u0.body, is_data)
    chk.expect(cv == [0, 0] and ov == [1, 1], "R-C09-1", "graph update: a status change writes 0,0 iff the new status is Closed, else 1,1", loc(ug, u0),
               expected="closed [0, 0] / otherwise [1, 1]", found="closed %s / otherwise %s" % (cv, ov))
    guard = parent(u0)
    chk.expect(isinstance(guard, ast.If) and "status" in unparse(guard.test) and "attr" in unparse(guard.test), "R-C09-1", "graph update reacts to changes of the attribute 'status'", loc(ug, u0),
               found=unparse(guard.test) if isinstance(guard, ast.If) else None)
    gc = [c for c in calls(ug) if last_attr(c) == "get_changes"]
    rr = [c for c in calls(ug) if last_attr(c) == "reset_reference_point"]
    key = lambda c: [unparse(k.value) for k in c.keywords] + [unparse(a) for a in c.args]
    chk.expect(len(gc) == 1 and key(gc[0]) == ["'graph'"] and len(rr) == 1 and key(rr[0]) == ["'graph'"] and rr[0].lineno > gc[0].lineno, "R-C09-1",
               "graph update consumes the changes since the 'graph' reference point and then resets that reference point", loc(ug),
               found=[norm(c) for c in gc + rr])
    # (c) sources
    src_loops = [unparse(n.iter) for n in walk(ig) if isinstance(n, ast.For) and any("_source_ids" in unparse(c) for c in calls(n))]
    chk.expect(sorted(src_loops) == ["self._wn.reservoirs()", "self._wn.tanks()"], "R-C09-1", "sources of the search are all tanks and all reservoirs", loc(ig), found=src_loops)
    # (d) run_sim: graph refreshed before each isolation search, search before each solve
    g = CFG(rs)
    heads = [h for n, h in g.loop_heads.items() if isinstance(n, ast.While)]
    if len(heads) != 1:
        raise AnchorError("run_sim: expected exactly one while loop")
    head = heads[0]
    upds = g.calling("_update_internal_graph")
    isos = g.calling("_get_isolated_junctions_and_links")
    solves = g.calling("_solver_helper")
    okd, w = g.must_pass(head, isos, upds, drop_back=True)
    chk.expect(bool(upds) and bool(isos) and okd, "R-C09-1", "run_sim refreshes the internal graph before every isolation search", loc(rs),
               found=("path: " + g.path_text(w)) if w else None)
    oks, w = g.must_pass(head, solves[:1], isos, drop_back=True)
    chk.expect(bool(solves) and oks, "R-C09-1", "run_sim searches for isolated junctions before every solve", loc(rs), found=("path: " + g.path_text(w)) if w else None)
    # after post-solve controls changed the graph, it is refreshed before the re-solve
    post = g.calling("_run_postsolve_controls")
    conts = g.nodes_where(lambda node, d: isinstance(node, ast.Continue))
    chk.expect(bool(post) and bool(conts), "R-C09-1", "re-solve path exists (post-solve controls, continue)", loc(rs))
    chk.floor("R-C09-1", 12)

    # ---------------------------------------------------------------- R-C09-2 search shape (C++)
    cpp = repo.source(CPP)
    body = cxx.norm(cxx.function_body(cpp, r"void\s+check_for_isolated_junctions\s*\("))
    facts = [
        ("every source seeds a search", "for(intsource_cntr=0;source_cntr<source_length;++source_cntr)" in body and "source_id=sources[source_cntr]" in body),
        ("a source not yet reached is marked 0 and explored", "if(node_indicator[source_id]==1){node_indicator[source_id]=0;" in body and "nodes_to_explore.insert(source_id)" in body),
        ("the scan of a node starts at indptr[node]", "ndx=indptr[node_being_explored]" in body),
        ("the scan covers num_connections[node] entries", "number_of_connections=num_connections[node_being_explored]" in body and "for(inti=0;i<number_of_connections;++i)" in body),
        ("an entry is followed only if data == 1", "val=data[ndx+i];if(val==1)" in body),
        ("the neighbour is indices[ndx + i]", "col=indices[ndx+i]" in body),
        ("a newly reached node is marked 0 and queued", "if(node_indicator[col]==1){node_indicator[col]=0;nodes_to_explore.insert(col);}" in body),
        ("the search runs until nothing is left to explore", "while(!nodes_to_explore.empty())" in body),
    ]
    for name, ok in facts:
        chk.expect(ok, "R-C09-2", "check_for_isolated_junctions: " + name, CPP)
    chk.floor("R-C09-2", 8)
    # python caller passes the arrays in the order of the C signature
    sig = re.search(r"void\s+check_for_isolated_junctions\s*\(([^)]*)\)", cxx.strip_comments(cpp)).group(1)
    cparams = [p.strip().split()[-1].lstrip("*") for p in sig.split(",") if "*" in p]
    call = [c for c in calls(gi) if (call_name(c) or "").endswith("check_for_isolated_junctions")]
    if not call:
        raise AnchorError("_get_isolated_junctions_and_links no longer calls check_for_isolated_junctions")
    pargs = [unparse(a) for a in call[0].args]
    want = {"sources": "self._source_ids", "node_indicator": "node_indicator", "indptr": "self._internal_graph.indptr", "indices": "self._internal_graph.indices",
            "data": "self._internal_graph.data", "num_connections": "self._number_of_connections"}
    chk.expect(len(pargs) == len(cparams) and all(want.get(c) == a for c, a in zip(cparams, pargs)), "R-C09-2",
               "the Python caller passes sources, indicator, indptr, indices, data, num_connections in the order of the C signature", loc(gi, call[0]),
               expected=[want.get(c) for c in cparams], found=pargs)
    ind = [s for s in walk(gi) if isinstance(s, ast.Assign) and unparse(s.targets[0]) == "node_indicator"]
    chk.expect(bool(ind) and unparse(ind[0].value).startswith("np.ones(self._wn.num_nodes"), "R-C09-2", "every node starts as not reached (indicator 1)", loc(gi), found=unparse(ind[0].value) if ind else None)

    # ---------------------------------------------------------------- R-C09-3 flag life cycle
    stores = [(unparse(s.targets[0]), const(s.value, "?"), s) for s in walk(gi) if isinstance(s, ast.Assign) and unparse(s.targets[0]).endswith("._is_isolated")]
    clears = [s for t, v, s in stores if v is False]
    sets_ = [s for t, v, s in stores if v is True]

    def loop_iter(s):
        q = s
        while q is not None and not isinstance(q, ast.For):
            q = parent(q)
        return unparse(q.iter) if q is not None else None
    chk.expect(sorted(loop_iter(s) or "" for s in clears) == ["self._prev_isolated_junctions", "self._prev_isolated_links"], "R-C09-3",
               "every flag set by the previous search (junctions and links) is cleared first", loc(gi), found=[loop_iter(s) for s in clears])
    first_set = min([s.lineno for s in sets_] or [0])
    chk.expect(bool(clears) and bool(sets_) and max(s.lineno for s in clears) < first_set and call[0].lineno < first_set and max(s.lineno for s in clears) < call[0].lineno, "R-C09-3",
               "order: clear old flags, search, set new flags", loc(gi))
    ids = [s for s in walk(gi) if isinstance(s, ast.Assign) and unparse(s.targets[0]) == "isolated_junction_ids"]
    chk.expect(bool(ids) and "node_indicator[i] == 1" in unparse(ids[0].value), "R-C09-3", "isolated junctions are exactly the nodes whose indicator is still 1", loc(gi),
               found=unparse(ids[0].value) if ids else None)
    jl = [s for s in sets_ if loop_iter(s) == "isolated_junction_ids"]
    ll = [s for s in sets_ if loop_iter(s) and "connected_links" in loop_iter(s)]
    cl = [s for s in walk(gi) if isinstance(s, ast.Assign) and unparse(s.targets[0]) == "connected_links"]
    chk.expect(len(jl) == 1 and len(ll) == 1 and bool(cl) and unparse(cl[0].value) == "self._wn.get_links_for_node(j)", "R-C09-3",
               "each isolated junction and every link attached to it is flagged", loc(gi), found=[unparse(c.value) for c in cl])
    adds = sorted((unparse(c.func.value), unparse(c.args[0])) for c in calls(gi) if last_attr(c) == "add" and "isolated_" in unparse(c.func.value))
    chk.expect(adds == [("isolated_junctions", "j"), ("isolated_links", "l")], "R-C09-3", "the new isolated sets record exactly the flagged elements", loc(gi), found=adds)
    um = [c for c in calls(gi) if (call_name(c) or "").endswith("update_model_for_isolated_junctions_and_links")]
    args = [unparse(a) for a in um[0].args] if um else []
    chk.expect(bool(um) and args[-4:] == ["self._prev_isolated_junctions", "self._prev_isolated_links", "isolated_junctions", "isolated_links"], "R-C09-3",
               "the model rows are rebuilt from (previous sets, new sets)", loc(gi), found=args)
    tail = [(unparse(s.targets[0]), unparse(s.value)) for s in gi.body if isinstance(s, ast.Assign) and "_prev_isolated" in unparse(s.targets[0])]
    chk.expect(sorted(tail) == [("self._prev_isolated_junctions", "isolated_junctions"), ("self._prev_isolated_links", "isolated_links")] and
               all(s.lineno > um[0].lineno for s in gi.body if isinstance(s, ast.Assign) and "_prev_isolated" in unparse(s.targets[0])), "R-C09-3",
               "the new sets become the previous sets after the model update", loc(gi), found=tail)
    uf = repo.func(HYD, "update_model_for_isolated_junctions_and_links")
    chk.fn(uf)
    txt = unparse(uf)
    chk.expect("prev_isolated_junctions - isolated_junctions" in txt and "isolated_junctions - prev_isolated_junctions" in txt and
               "prev_isolated_links - isolated_links" in txt and "isolated_links - prev_isolated_links" in txt, "R-C09-3",
               "update_model_for_isolated_junctions_and_links rebuilds rows for both directions of the symmetric difference (newly isolated and reconnected)", loc(uf))
    ups = [c for c in calls(uf) if last_attr(c) == "update" and "updater" in unparse(c.func.value)]
    attrs = {const(c.args[3]) if len(c.args) > 3 else None for c in ups}
    chk.expect(len(ups) >= 2 and attrs == {"_is_isolated"}, "R-C09-3", "the rebuild is triggered through the updater entries registered for '_is_isolated'", loc(uf), found=sorted(str(a) for a in attrs))
    chk.floor("R-C09-3", 8)

    # ---------------------------------------------------------------- R-C09-4 zeroing
    sfn, rows = final_stores(repo)
    chk.fn(sfn)
    seen = set()
    n_iso = n_con = n_lnk = 0
    for ctx, conds, finals in rows:
        # a path on which the flag is not forced False may be taken by an isolated element: the zero must be stored there
        if ctx == "wn.junctions()" and forced("node._is_isolated", conds) is not False:
            n_iso += 1
            for fld in ("node._demand", "node._pressure", "node._leak_demand"):
                key = (ctx, fld, str(finals.get(fld)))
                if key in seen:
                    continue
                seen.add(key)
                chk.expect(finals.get(fld) == 0, "R-C09-4", "an isolated junction reports %s = 0 on every path" % fld.split(".")[1], loc(sfn),
                           "path %s (not excluded for an isolated junction)" % sorted(conds.items()), expected=0, found=finals.get(fld, "<not stored>"))
            # the head that goes with zero pressure is the elevation; a datum-dependent constant (e.g. 0) is read as a real head by the
            # status rules of check valves, pumps and tank re-opening, which then never reconnect a part lying below datum 0
            key = (ctx, "node._head", str(finals.get("node._head")))
            if key not in seen:
                seen.add(key)
                chk.expect(finals.get("node._head") == "node.elevation", "R-C09-4", "an isolated junction is stored with the head of zero pressure (its elevation)", loc(sfn),
                           "store_results_in_network stores a constant head for a cut-off junction; _CloseHeadPumpCondition / _OpenCVCondition / the tank re-open controls compare it with "
                           "real heads: with all elevations lowered by 200 m a re-opened pump never reconnects and a dead end behind a check valve aborts the run",
                           expected="node.elevation", found=finals.get("node._head", "<not stored>"))
        if ctx == "wn.links()" and forced("link._is_isolated", conds) is not False:
            n_lnk += 1
            key = (ctx, str(finals.get("link._flow")))
            if key not in seen:
                seen.add(key)
                chk.expect(finals.get("link._flow") == 0, "R-C09-4", "an isolated link reports flow 0 on every path", loc(sfn),
                           "path %s (not excluded for an isolated link)" % sorted(conds.items()), expected=0, found=finals.get("link._flow", "<not stored>"))
        if ctx == "wn.junctions()" and forced("node._is_isolated", conds) is not True:
            n_con += 1
            key = (ctx, "conn", str(finals.get("node._head")))
            if key not in seen:
                seen.add(key)
                chk.expect(finals.get("node._head") == "m.head[name].value", "R-C09-4", "a connected junction reports the solved head (never zeroed)", loc(sfn),
                           "path %s (not excluded for a connected junction)" % sorted(conds.items()), found=finals.get("node._head"))
    if not (n_iso and n_con and n_lnk):
        chk.error("R-C09-4: store_results_in_network paths not found (isolated %d, connected %d, links %d)" % (n_iso, n_con, n_lnk))
    svf = repo.func(HYD, "save_results")
    chk.fn(svf)
    iso_p = [n for n in walk(svf) if isinstance(n, ast.If) and "_is_isolated" in unparse(n.test)]
    okp = False
    for n in iso_p:
        b = [c for c in calls(ast.Module(body=n.body, type_ignores=[])) if last_attr(c) == "append"]
        if b and all(const(c.args[0]) in (0, 0.0) for c in b):
            okp = True
    chk.expect(okp or not iso_p and "node.pressure" in unparse(svf), "R-C09-4", "save_results reports pressure 0 for an isolated junction (or the stored zero)", loc(svf))
    # builders: closed-or-isolated guard, and balance / pdd / leak rows dropped
    cons = repo.classes(CON)
    linklaws = [k for k in cons if k.endswith("_headloss_constraint")]
    for k in sorted(linklaws):
        b = [n for n in cons[k].body if isinstance(n, ast.FunctionDef) and n.name == "build"]
        if not b:
            continue
        guard = [n for n in walk(b[0]) if isinstance(n, ast.If) and "_is_isolated" in unparse(n.test) and "Closed" in unparse(n.test)]
        okg = bool(guard) and isinstance(guard[0].test, ast.BoolOp) and isinstance(guard[0].test.op, ast.Or)
        reg = any(last_attr(c) == "add" and len(c.args) >= 2 and const(c.args[1]) == "_is_isolated" for c in calls(b[0]))
        chk.expect(okg and reg, "R-C09-4", "%s: `Closed or _is_isolated` selects the q = 0 row and the builder re-registers on _is_isolated" % k, loc(CON, b[0]),
                   found="guard=%s registered=%s" % (unparse(guard[0].test) if guard else None, reg))
    for k in ("mass_balance_constraint", "pdd_mass_balance_constraint", "pdd_constraint", "leak_constraint"):
        if k not in cons:
            raise AnchorError("builder %s vanished" % k)
        b = [n for n in cons[k].body if isinstance(n, ast.FunctionDef) and n.name == "build"][0]
        guard = [n for n in walk(b) if isinstance(n, ast.If) and "_is_isolated" in unparse(n.test)]
        builds_in_guard = False
        for gd in guard:
            t = unparse(gd.test)
            neg = t.startswith("not ") or "and not node._is_isolated" in t or "not node._is_isolated" in t
            body_builds = any(isinstance(s, ast.Assign) and isinstance(s.targets[0], ast.Subscript) and unparse(s.targets[0].value).startswith("m.") for s in walk(ast.Module(body=gd.body, type_ignores=[])))
            else_builds = any(isinstance(s, ast.Assign) and isinstance(s.targets[0], ast.Subscript) and unparse(s.targets[0].value).startswith("m.") for s in walk(ast.Module(body=gd.orelse, type_ignores=[])))
            if (neg and body_builds and not else_builds) or (not neg and else_builds and not body_builds):
                builds_in_guard = True
        reg = any(last_attr(c) == "add" and len(c.args) >= 2 and const(c.args[1]) == "_is_isolated" for c in calls(b))
        chk.expect(builds_in_guard and reg, "R-C09-4", "%s: no row is built for an isolated junction and the builder re-registers on _is_isolated" % k, loc(CON, b),
                   found="guards=%s registered=%s" % ([unparse(gd.test) for gd in guard], reg))
    chk.floor("R-C09-4", 5 + 8 + 4)

    # ---------------------------------------------------------------- R-C09-5 a link created closed is closed in the first solve
    # the graph (and every status rule) reads link.status, which follows _user_status: all three add_* siblings must start it from initial_status
    MODEL = "wntr/network/model.py"
    for meth in ("add_pipe", "add_pump", "add_valve"):
        fn = repo.func(MODEL, "LinkRegistry." + meth)
        chk.fn(fn)
        us = [a for a in walk(fn) if isinstance(a, ast.Assign) and isinstance(a.targets[0], ast.Attribute) and a.targets[0].attr == "_user_status"]
        okus = bool(us) and all("initial_status" in unparse(a.value) for a in us)
        chk.expect(okus, "R-C09-5", "LinkRegistry.%s starts the link's run-time status from initial_status" % meth, loc(fn),
                   "the element keeps the constructor default (Opened / Active) until reset_initial_values: a pump or valve created with initial_status='CLOSED' is simulated open and the "
                   "junctions behind it are served instead of zeroed (add_pipe sets _user_status, its siblings must too)", expected="<link>._user_status = initial_status",
                   found=[norm(a) for a in us])
    chk.floor("R-C09-5", 3)


WITNESSES = [
    dict(name="pair-list-outlet-only", file=CORE, old="                for link_name in self._wn.get_links_for_node(from_node_name):\n                    link = self._wn.get_link(link_name)\n                    if link.start_node_name == to_node_name or link.end_node_name == to_node_name:",
         new="                for link_name in self._wn.get_links_for_node(from_node_name, 'OUTLET'):\n                    link = self._wn.get_link(link_name)\n                    if link.end_node_name == to_node_name:", rule="R-C09-1"),
    dict(name="closed-links-stay-connected-at-start", file=CORE, old="            if link.status == wntr.network.LinkStatus.Closed:\n                vals.append(0)\n                vals.append(0)",
         new="            if link.status == wntr.network.LinkStatus.Closed:\n                vals.append(1)\n                vals.append(1)", rule="R-C09-1"),
    dict(name="graph-from-initial-status", file=CORE, old="            if link.status == wntr.network.LinkStatus.Closed:\n                vals.append(0)",
         new="            if link.initial_status == wntr.network.LinkStatus.Closed:\n                vals.append(0)", rule="R-C09-1"),
    dict(name="update-one-direction-only", file=CORE, old="                    ndx1, ndx2 = ndx_map[obj]\n                    data[ndx1] = 0\n                    data[ndx2] = 0\n",
         new="                    ndx1, ndx2 = ndx_map[obj]\n                    data[ndx1] = 0\n", rule="R-C09-1"),
    dict(name="parallel-links-all-must-be-open", file=CORE, old="            for link in link_list:\n                if link.status != wntr.network.LinkStatus.Closed:\n                    ndx1, ndx2 = ndx_map[link]\n                    data[ndx1] = 1\n                    data[ndx2] = 1",
         new="            for link in link_list:\n                if link.status == wntr.network.LinkStatus.Closed:\n                    ndx1, ndx2 = ndx_map[link]\n                    data[ndx1] = 0\n                    data[ndx2] = 0", rule="R-C09-1"),
    dict(name="reservoirs-not-sources", file=CORE, old="        for node_name, node in self._wn.reservoirs():\n            node_id = self._node_name_to_id[node_name]\n            self._source_ids.append(node_id)\n", new="", rule="R-C09-1"),
    dict(name="reference-point-not-reset", file=CORE, old="        self._change_tracker.reset_reference_point(key='graph')\n", new="", rule="R-C09-1"),
    dict(name="cpp-follows-closed-entries", file=CPP, old="if (val == 1)", new="if (val >= 0)", rule="R-C09-2"),
    dict(name="old-link-flags-not-cleared", file=CORE, old="        for l in self._prev_isolated_links:\n            link = self._wn.get_link(l)\n            link._is_isolated = False\n", new="", rule="R-C09-3"),
    dict(name="links-of-isolated-junction-not-flagged", file=CORE, old="                link._is_isolated = True\n                isolated_links.add(l)", new="                isolated_links.add(l)", rule="R-C09-3"),
    dict(name="isolated-junction-keeps-demand", file=HYD, old="            node._head = node.elevation\n            node._demand = 0\n", new="            node._head = node.elevation\n", rule="R-C09-4"),
    dict(name="isolated-junction-head-zero", file=HYD, old="            node._head = node.elevation\n", new="            node._head = 0\n", rule="R-C09-4"),
    dict(name="graph-shape-inferred", file=CORE, old=", shape=(self._wn.num_nodes, self._wn.num_nodes))", new=")", rule="R-C09-1"),
    dict(name="pump-created-closed-starts-open", file="wntr/network/model.py", old="        pump._user_status = pump.initial_status  # as add_pipe: a link starts in its initial status\n", new="", rule="R-C09-5"),
    dict(name="isolated-link-keeps-flow", file=HYD, old="        if link._is_isolated:\n            link._flow = 0", new="        if link._is_isolated and link.status == 0:\n            link._flow = 0", rule="R-C09-4"),
]
