"""The model history R-C13-10 replays through the public API (as data, so that the same recipe was also run once on the real library while the rule was written:
the dictionary round trip holds for it on the pinned tree)."""
# fixture as data: replayed on the real library (one-off sanity run) and in the interpreted world (the check)
P3 = [(0.0, 40.0), (0.05, 30.0), (0.1, 10.0)]
STEPS = [
    ("wn", "add_pattern", ("PAT_A", [1.0, 0.5, 1.5]), {}),
    ("wn", "add_pattern", ("PAT_B", [0.8, 1.2]), {}),
    ("wn", "add_pattern", ("PAT_E", [1.0, 1.1, 0.9, 1.0]), {}),
    ("wn", "add_curve", ("CRV_H", "HEAD", P3), {}),
    ("wn", "add_curve", ("CRV_1", "HEAD", [(0.05, 30.0)]), {}),
    ("wn", "add_curve", ("CRV_E", "EFFICIENCY", [(0.0, 50.0), (0.05, 75.0), (0.1, 60.0)]), {}),
    ("wn", "add_curve", ("CRV_V", "VOLUME", [(0.0, 0.0), (2.0, 20.0), (6.0, 90.0)]), {}),
    ("wn", "add_curve", ("CRV_L", "HEADLOSS", [(0.0, 0.0), (0.1, 2.0), (0.2, 9.0)]), {}),
    ("wn", "add_curve", ("CRV_N", None, [(1.0, 2.0)]), {}),
    ("wn", "add_junction", ("J1",), dict(base_demand=0.01, demand_pattern="PAT_A", elevation=5.0, coordinates=(1.0, 2.0), demand_category="dom")),
    ("wn", "add_junction", ("J2",), dict(base_demand=0.005, elevation=3.0, coordinates=(3.5, 2.0))),
    ("wn", "add_junction", ("J3",), dict(elevation=0.0, coordinates=(5.0, -1.0))),
    ("wn", "add_junction", ("J4",), dict(base_demand=0.0, elevation=-2.5, coordinates=(7.0, 0.5))),
    ("wn", "add_tank", ("T1",), dict(elevation=10.0, init_level=2.0, min_level=0.5, max_level=5.0, diameter=3.0, min_vol=1.0, coordinates=(0.0, 9.0))),
    ("wn", "add_tank", ("T2",), dict(elevation=12.0, init_level=1.0, min_level=0.0, max_level=6.0, diameter=0.0, vol_curve="CRV_V", overflow=True, coordinates=(9.0, 9.0))),
    ("wn", "add_reservoir", ("R1",), dict(base_head=50.0, head_pattern="PAT_B", coordinates=(-3.0, 0.0))),
    ("wn", "add_reservoir", ("R2",), dict(base_head=0.0, coordinates=(12.0, 0.0))),
    ("wn", "add_pipe", ("P1", "J1", "J2"), dict(length=100.0, diameter=0.3, roughness=100.0, minor_loss=0.5)),
    ("wn", "add_pipe", ("P2", "J2", "T1"), dict(length=250.5, diameter=0.2, roughness=120.0, initial_status="CLOSED")),
    ("wn", "add_pipe", ("P3", "J3", "J2"), dict(length=80.0, diameter=0.15, roughness=90.0, check_valve=True)),
    ("wn", "add_pipe", ("P4", "J4", "T2"), dict(length=10.0, diameter=0.5, roughness=140.0)),
    ("wn", "add_pump", ("PU1", "R1", "J1"), dict(pump_type="HEAD", pump_parameter="CRV_H", speed=1.0, pattern="PAT_B")),
    ("wn", "add_pump", ("PU2", "R2", "J4"), dict(pump_type="POWER", pump_parameter=15000.0)),
    ("wn", "add_pump", ("PU3", "R1", "J3"), dict(pump_type="HEAD", pump_parameter="CRV_1", speed=0.0, initial_status="CLOSED")),
    ("wn", "add_valve", ("V1", "J1", "J3"), dict(valve_type="PRV", diameter=0.25, minor_loss=0.2, initial_setting=20.0)),
    ("wn", "add_valve", ("V2", "J2", "J4"), dict(valve_type="PSV", diameter=0.25, initial_setting=15.0, initial_status="OPEN")),
    ("wn", "add_valve", ("V3", "J3", "J4"), dict(valve_type="FCV", diameter=0.2, initial_setting=0.02)),
    ("wn", "add_valve", ("V4", "J1", "J4"), dict(valve_type="TCV", diameter=0.2, initial_setting=4.0, initial_status="CLOSED")),
    ("wn", "add_valve", ("V5", "J2", "J3"), dict(valve_type="PBV", diameter=0.2, initial_setting=0.0)),
    ("wn", "add_valve", ("V6", "J4", "J1"), dict(valve_type="GPV", diameter=0.2, initial_setting="CRV_L")),
    ("wn", "add_source", ("S1", "J2", "MASS", 0.0, "PAT_A"), {}),
    ("wn", "add_source", ("S2", "R1", "CONCEN", 1.25), {}),
    # attribute edits through the public setters
    ("node:J1", "add_demand", (0.002, "PAT_B", "ind"), {}),
    ("node:J1", "add_demand", (0.0, None, None), {}),
    ("set", "node:J1", "emitter_coefficient", 0.001), ("set", "node:J1", "initial_quality", 0.0), ("set", "node:J1", "minimum_pressure", 0.0),
    ("set", "node:J1", "required_pressure", 17.5), ("set", "node:J1", "pressure_exponent", 0.6), ("set", "node:J1", "tag", "zone_1"),
    ("set", "node:J2", "initial_quality", 0.35),
    ("set", "node:T1", "initial_quality", 1.5), ("set", "node:T1", "mixing_model", "2COMP"), ("set", "node:T1", "mixing_fraction", 0.0), ("set", "node:T1", "bulk_coeff", -0.5), ("set", "node:T1", "tag", "t"),
    ("set", "node:T2", "mixing_model", "FIFO"),
    ("set", "node:R1", "initial_quality", 0.2), ("set", "node:R1", "tag", "src"),
    ("set", "link:P1", "vertices", [(1.5, 2.5), (2.5, 2.5)]), ("set", "link:P1", "bulk_coeff", -0.1), ("set", "link:P1", "wall_coeff", 0.0), ("set", "link:P1", "initial_quality", 0.0), ("set", "link:P1", "tag", "main"),
    ("set", "link:P3", "vertices", [(4.0, 0.0)]),
    ("set", "link:PU1", "efficiency", "curve:CRV_E"), ("set", "link:PU1", "energy_price", 0.0), ("set", "link:PU1", "energy_pattern", "PAT_E"), ("set", "link:PU1", "vertices", [(-1.0, 1.0)]), ("set", "link:PU1", "tag", "p"),
    ("set", "link:PU2", "energy_price", 0.12), ("set", "link:PU2", "base_speed", 1.0),
    ("set", "link:V1", "vertices", [(3.0, 0.0), (4.0, 0.5)]), ("set", "link:V1", "tag", "v"),
    ("node:J3", "add_leak", ("wn", 0.0005), dict(discharge_coeff=0.7, start_time=3600, end_time=7200)),
    # a leak that was added and removed again: the flag is False, area and coefficient remain
    ("node:J2", "add_leak", ("wn", 0.0007), dict(discharge_coeff=0.6, start_time=600)),
    ("node:J2", "remove_leak", ("wn",), {}),
    ("node:T1", "add_leak", ("wn", 0.001), dict(start_time=1800)),
    # options
    ("setopt", "time", "duration", 86400), ("setopt", "time", "hydraulic_timestep", 1800), ("setopt", "time", "pattern_timestep", 7200), ("setopt", "time", "pattern_start", 3600),
    ("setopt", "time", "report_timestep", 3600), ("setopt", "time", "start_clocktime", 21600), ("setopt", "time", "rule_timestep", 300), ("setopt", "time", "pattern_interpolation", True),
    ("setopt", "hydraulic", "demand_model", "PDD"), ("setopt", "hydraulic", "demand_multiplier", 1.2), ("setopt", "hydraulic", "minimum_pressure", 1.0),
    ("setopt", "hydraulic", "required_pressure", 21.0), ("setopt", "hydraulic", "pressure_exponent", 0.5), ("setopt", "hydraulic", "headloss", "D-W"), ("setopt", "hydraulic", "viscosity", 1.1),
    ("setopt", "hydraulic", "trials", 100), ("setopt", "hydraulic", "accuracy", 0.0005), ("setopt", "hydraulic", "emitter_exponent", 0.55), ("setopt", "hydraulic", "pattern", "PAT_A"),
    ("setopt", "quality", "parameter", "CHEMICAL"), ("setopt", "quality", "inpfile_units", "ug/L"), ("setopt", "quality", "diffusivity", 1.3), ("setopt", "quality", "tolerance", 0.02),
    ("setopt", "reaction", "bulk_order", 2.0), ("setopt", "reaction", "wall_order", 0.0), ("setopt", "reaction", "bulk_coeff", -0.3), ("setopt", "reaction", "wall_coeff", -0.01),
    ("setopt", "reaction", "limiting_potential", 0.5), ("setopt", "reaction", "roughness_correl", -0.2),
    ("setopt", "energy", "global_price", 0.1), ("setopt", "energy", "global_efficiency", 65.0), ("setopt", "energy", "demand_charge", 2.0), ("setopt", "energy", "global_pattern", "PAT_E"),
    ("setopt", "graphics", "dimensions", (0.0, 0.0, 100.0, 50.0)), ("setopt", "graphics", "units", "METERS"), ("setopt", "graphics", "offset", (1.0, 2.0)),
    ("setopt", "user", "project", "fixture"), ("setopt", "user", "version", 3),
]
# controls: (name, kind, spec)
CONTROLS = [
    ("c_time", "simple", dict(target="link:P1", attr="status", value="status:Closed", cond=("simtime", "=", 7200))),
    ("c_eq", "simple", dict(target="link:P2", attr="status", value="status:Open", cond=("simtime", "=", 5400))),
    ("c_clock", "simple", dict(target="link:PU1", attr="status", value="status:Closed", cond=("clock", "=", "22:30:00"))),
    ("c_lvl_hi", "simple", dict(target="link:PU2", attr="status", value="status:Closed", cond=("value", "node:T1", "level", ">", 4.5))),
    ("c_lvl_lo", "simple", dict(target="link:PU2", attr="status", value="status:Open", cond=("value", "node:T1", "level", "<", 1.5))),
    ("c_press", "simple", dict(target="link:V1", attr="setting", value=25.0, cond=("value", "node:J2", "pressure", "<", 12.0))),
    ("c_speed", "simple", dict(target="link:PU1", attr="base_speed", value=0.8, cond=("simtime", "=", 36000))),
    ("r1", "rule", dict(cond=("and", ("value", "node:T1", "level", ">=", 4.0), ("clock", ">", "06:00:00")), then=[("link:PU1", "status", "status:Closed"), ("link:V3", "setting", 0.015)],
                        else_=[("link:PU1", "status", "status:Open")], priority=3)),
    ("r2", "rule", dict(cond=("or", ("value", "link:P1", "flow", ">", 0.05), ("value", "node:J1", "demand", "<=", 0.001)), then=[("link:P4", "status", "status:Closed")], else_=[], priority=1)),
    ("r3", "rule", dict(cond=("simtime", "<=", 10800), then=[("link:V2", "status", "status:Active")], else_=[("link:V2", "status", "status:Open"), ("link:V4", "status", "status:Open")], priority=5)),
    ("r4", "rule", dict(cond=("value", "node:J3", "head", "=", 30.0), then=[("node:J3", "leak_status", True)], else_=[], priority=2)),
    # thresholds in the units of the file inside rule clauses (pressure, flow, setting), clock times in the noon and the midnight hour
    ("r5", "rule", dict(cond=("and", ("value", "node:J2", "pressure", ">", 15.0), ("clock", ">=", "12:30:00")), then=[("link:PU3", "status", "status:Open"), ("link:V1", "setting", 22.5)],
                        else_=[("link:V3", "setting", 0.01)], priority=4)),
    ("r6", "rule", dict(cond=("or", ("clock", "<", "00:15:00"), ("value", "node:T2", "head", "<=", 14.5)), then=[("link:V5", "setting", 2.0)], else_=[], priority=6)),
]


# ---------------------------------------------------------------------------------------------------------------------------------------------------------
# variant B: the same network under the OTHER settings of the options that steer branches of the readers / writers (Hazen-Williams instead of Darcy-Weisbach,
# demand-driven instead of pressure-driven, source tracing instead of a chemical, a reporting statistic, CONTINUE n for unbalanced steps, midnight start), plus
# elements the base recipe does not have: a junction with three demand categories, a power pump with a speed below one and a speed pattern, a tank with a
# minimum volume and no overflow, a one-multiplier pattern, a long curve, a pipe that starts CLOSED with a minor loss, clock-time controls in the midnight hour.
_B_DROP_OPTS = {("hydraulic", "demand_model"), ("hydraulic", "minimum_pressure"), ("hydraulic", "required_pressure"), ("hydraulic", "pressure_exponent"),
                ("hydraulic", "headloss"), ("hydraulic", "viscosity"), ("hydraulic", "trials"), ("hydraulic", "accuracy"), ("quality", "parameter"),
                ("quality", "inpfile_units"), ("time", "start_clocktime"), ("time", "pattern_start"), ("time", "pattern_interpolation")}
_B_EXTRA = [
    ("wn", "add_pattern", ("PAT_ONE", [0.75]), {}),
    ("wn", "add_curve", ("CRV_LONG", "HEAD", [(0.0, 60.0), (0.02, 58.0), (0.04, 54.0), (0.06, 47.0), (0.08, 37.0), (0.1, 24.0), (0.12, 8.0)]), {}),
    ("wn", "add_junction", ("J5",), dict(base_demand=0.004, demand_pattern="PAT_ONE", elevation=1.5, coordinates=(8.0, 4.0), demand_category="a")),
    ("node:J5", "add_demand", (0.001, "PAT_A", "b"), {}),
    ("node:J5", "add_demand", (0.0005, None, "c"), {}),
    ("wn", "add_tank", ("T3",), dict(elevation=15.0, init_level=3.0, min_level=1.0, max_level=8.0, diameter=4.0, min_vol=12.5, overflow=False, coordinates=(8.0, 8.0))),
    ("wn", "add_pipe", ("P5", "J5", "J1"), dict(length=60.0, diameter=0.25, roughness=110.0, minor_loss=1.5, initial_status="CLOSED")),
    ("wn", "add_pipe", ("P6", "J5", "T3"), dict(length=30.0, diameter=0.3, roughness=130.0)),
    ("wn", "add_pump", ("PU4", "R2", "J5"), dict(pump_type="POWER", pump_parameter=7500.0, speed=0.9, pattern="PAT_A")),
    ("wn", "add_pump", ("PU5", "R1", "J5"), dict(pump_type="HEAD", pump_parameter="CRV_LONG")),
    ("setopt", "hydraulic", "headloss", "H-W"), ("setopt", "hydraulic", "specific_gravity", 0.98), ("setopt", "hydraulic", "unbalanced", "CONTINUE"),
    ("setopt", "hydraulic", "unbalanced_value", 10), ("setopt", "hydraulic", "checkfreq", 3), ("setopt", "hydraulic", "maxcheck", 12), ("setopt", "hydraulic", "damplimit", 0.01),
    ("setopt", "hydraulic", "headerror", 0.001), ("setopt", "hydraulic", "flowchange", 0.0001), ("setopt", "hydraulic", "trials", 40), ("setopt", "hydraulic", "accuracy", 0.01),
    ("setopt", "time", "statistic", "AVERAGED"), ("setopt", "time", "report_start", 3600), ("setopt", "time", "quality_timestep", 300),
    ("setopt", "quality", "parameter", "TRACE"), ("setopt", "quality", "trace_node", "R1"),
    ("setopt", "reaction", "tank_order", 1.0),
]
_B_CONTROLS = [
    ("b_midnight", "simple", dict(target="link:P5", attr="status", value="status:Open", cond=("clock", "=", "00:30:00"))),
    ("b_lvl", "simple", dict(target="link:PU4", attr="status", value="status:Closed", cond=("value", "node:T3", "level", ">", 7.5))),
    ("b_speed", "simple", dict(target="link:PU4", attr="base_speed", value=0.6, cond=("value", "node:T3", "level", "<", 2.0))),
    ("rb1", "rule", dict(cond=("and", ("value", "node:T3", "level", "<", 1.5), ("simtime", ">=", 3600)), then=[("link:PU5", "status", "status:Open")],
                         else_=[("link:PU5", "status", "status:Closed"), ("link:PU4", "base_speed", 1.0)], priority=1)),
]


def recipe(variant="A"):
    """-> (steps, controls) of a fixture variant"""
    if variant == "A":
        return STEPS, CONTROLS
    if variant == "B":
        # the rule and quality steps are given values LONGER than the hydraulic step will be, and before it is shortened: the stored options do not depend
        # on the order in which they were assigned, and come back as stored
        early = [("setopt", "time", "rule_timestep", 2700), ("setopt", "time", "quality_timestep", 3000)]
        steps_of_time = {("time", "rule_timestep"), ("time", "quality_timestep")}
        steps = early + [st for st in STEPS if not (st[0] == "setopt" and (st[1], st[2]) in (_B_DROP_OPTS | steps_of_time))] + \
            [st for st in _B_EXTRA if not (st[0] == "setopt" and (st[1], st[2]) in steps_of_time)]
        return steps, CONTROLS + _B_CONTROLS
    raise ValueError(variant)
