"""helpers shared by several rule modules."""
from ..symx import SymExec, Opaque

HYD = "wntr/sim/hydraulics.py"


def final_stores(repo, fn=None):
    """path-sensitive summary of store_results_in_network: for every enumerated path and every loop context the LAST value stored
    to each attribute.  -> [(ctx, conds: dict text->bool, finals: dict target->value text or number)]"""
    fn = fn or repo.func(HYD, "store_results_in_network")
    ex = SymExec()
    outs = ex.run(fn)
    rows = []
    for o in outs:
        conds = dict(o.conds)
        per = {}
        for e in o.events:
            if e[0] != "store":
                continue
            loops = e[4] if len(e) > 4 else ()
            ctx = loops[-1] if loops else ""
            v = e[2]
            per.setdefault(ctx, {})[e[1]] = v.text if isinstance(v, Opaque) else v
        for ctx, finals in per.items():
            rows.append((ctx, conds, finals))
    return fn, rows
