"""helpers shared by several rule modules."""
from ..symx import SymExec, Opaque

HYD = "wntr/sim/hydraulics.py"


def final_stores_sym(repo, fn=None):
    """like final_stores but the values are sympy expressions (Opaque leaves become symbols named by their source text)."""
    fn = fn or repo.func(HYD, "store_results_in_network")
    ex = SymExec()
    outs = ex.run(fn)
    rows = []
    for o in outs:
        conds = dict(o.conds)
        per = {}
        for e in o.events:
            if e[0] != "store":
                continue
            loops = e[4] if len(e) > 4 else ()
            ctx = loops[-1] if loops else ""
            try:
                per.setdefault(ctx, {})[e[1]] = ex.S(e[2])
            except Exception:
                per.setdefault(ctx, {})[e[1]] = None
        for ctx, finals in per.items():
            rows.append((ctx, conds, finals))
    return fn, rows, ex


def final_stores(repo, fn=None):
    """path-sensitive summary of store_results_in_network: for every enumerated path and every loop context the LAST value stored
    to each attribute.  -> [(ctx, conds: dict text->bool, finals: dict target->value text or number)]"""
    fn = fn or repo.func(HYD, "store_results_in_network")
    ex = SymExec()
    outs = ex.run(fn)
    rows = []
    for o in outs:
        conds = dict(o.conds)
        per = {}
        for e in o.events:
            if e[0] != "store":
                continue
            loops = e[4] if len(e) > 4 else ()
            ctx = loops[-1] if loops else ""
            v = e[2]
            per.setdefault(ctx, {})[e[1]] = v.text if isinstance(v, Opaque) else v
        for ctx, finals in per.items():
            rows.append((ctx, conds, finals))
    return fn, rows


def forced(atom, conds):
    """value the path conditions force on the boolean atom (text): True / False / None (not determined on this path).
    Compound tests are decomposed: `A and B` true forces both, `A or B` false forces both false, `not A` flips."""
    import ast as _ast

    def walk_(node, val, out):
        txt = _ast.unparse(node)
        if txt == atom:
            out.append(val)
            return
        if isinstance(node, _ast.UnaryOp) and isinstance(node.op, _ast.Not):
            if val is not None:
                walk_(node.operand, not val, out)
            return
        if isinstance(node, _ast.BoolOp):
            if isinstance(node.op, _ast.And) and val is True:
                for v in node.values:
                    walk_(v, True, out)
            elif isinstance(node.op, _ast.Or) and val is False:
                for v in node.values:
                    walk_(v, False, out)
            elif len(node.values) == 1:
                walk_(node.values[0], val, out)
    res = []
    for k, v in conds.items():
        if atom not in k:
            continue
        try:
            walk_(_ast.parse(k, mode="eval").body, bool(v), res)
        except SyntaxError:
            continue
    if True in res and False in res:
        return None
    return res[0] if res else None


# ------------------------------------------------------------------ stdlib `re` on concrete strings (shared by the string-level evaluators)
_RE_FLAGS = ("I", "IGNORECASE", "M", "MULTILINE", "S", "DOTALL", "X", "VERBOSE", "A", "ASCII")
_RE_FUNCS = ("search", "match", "fullmatch", "split", "sub", "subn", "findall")
_RE_MATCH_METHODS = ("groups", "group", "groupdict", "start", "end", "span")


def re_flag(n, ev):
    """value of `re.<FLAG>` when `re` is the stdlib module (not shadowed by a local of the evaluated function), else NotImplemented."""
    import ast
    import re as _re
    if isinstance(n, ast.Attribute) and isinstance(n.value, ast.Name) and n.value.id == "re" and "re" not in ev.env and n.attr in _RE_FLAGS:
        return int(getattr(_re, n.attr))
    return NotImplemented


def re_subscript(b, i):
    """`m[i]` on a modelled match object, else NotImplemented."""
    from ..peval import Obj
    if isinstance(b, Obj) and b.name == "match" and "m" in b.attrs:
        r = b.attrs["m"][i]
        return list(r) if isinstance(r, tuple) else r
    return NotImplemented


def re_model(name, n, ev):
    """call hook fragment: the regular-expression calls small parsers use, decided by Python's own `re` on CONCRETE strings --
    re.compile(p[, flags]); re.search / match / fullmatch / split / sub / subn / findall(p, s, ...) and the same methods of a compiled
    pattern; m.groups() / m.group(..) / m.groupdict() / m.start() / m.end() / m.span() of a match.  A pattern is an Obj('pattern', {'re': ..}),
    a match an Obj('match', {'groups': tuple, 'm': the match}) (truthy), no match is None.  Returns NotImplemented for any other call; raises
    Unknown when a regex call has an argument that is not concrete (the evaluator never guesses)."""
    import ast
    import re as _re
    from ..peval import Obj, Unknown
    from ..src import unparse

    def wrap(r):
        if r is None:
            return None
        if isinstance(r, _re.Match):
            return Obj("match", {"groups": r.groups(), "m": r})
        if isinstance(r, tuple):
            return list(r)
        return r

    def argv():
        pos = []
        for a in n.args:
            if isinstance(a, ast.Starred):
                pos.extend(ev.ev(a.value))
            else:
                pos.append(ev.ev(a))
        kw = {}
        for k in n.keywords:
            if k.arg is None:
                raise Unknown("** arguments in %s" % unparse(n))
            kw[k.arg] = ev.ev(k.value)
        for v in pos + list(kw.values()):
            if isinstance(v, bool) or not isinstance(v, (str, int)):
                raise Unknown("regular-expression call with a non-concrete argument: %s" % unparse(n))
        return pos, kw

    def apply_(f):
        pos, kw = argv()
        try:
            return wrap(f(*pos, **kw))
        except (TypeError, _re.error, IndexError) as e:
            raise Unknown("regular-expression call not evaluable: %s (%s)" % (unparse(n), e))

    f = n.func
    if isinstance(f, ast.Attribute) and isinstance(f.value, ast.Name) and f.value.id == "re" and "re" not in ev.env:
        if f.attr == "compile":
            pos, kw = argv()
            try:
                return Obj("pattern", {"re": _re.compile(*pos, **kw)})
            except (TypeError, _re.error) as e:
                raise Unknown("re.compile not evaluable: %s (%s)" % (unparse(n), e))
        if f.attr in _RE_FUNCS:
            return apply_(getattr(_re, f.attr))
        if f.attr == "escape":
            return apply_(_re.escape)
        return NotImplemented
    def pure(x):
        # the receiver is evaluated here and possibly again by the caller's own string-method model: only do so when that cannot have an effect
        for c in ast.walk(x):
            if isinstance(c, ast.Call):
                g = c.func
                if not ((isinstance(g, ast.Attribute) and (g.attr in _RE_FUNCS + _RE_MATCH_METHODS or (isinstance(g.value, ast.Name) and g.value.id == "re")))
                        or (isinstance(g, ast.Name) and g.id in ("str", "int", "float", "len"))):
                    return False
        return True

    if isinstance(f, ast.Attribute) and f.attr in _RE_FUNCS + _RE_MATCH_METHODS and pure(f.value):
        try:
            base = ev.ev(f.value)
        except Unknown:
            return NotImplemented
        if isinstance(base, Obj) and base.name == "pattern" and "re" in base.attrs and f.attr in _RE_FUNCS:
            return apply_(getattr(base.attrs["re"], f.attr))
        if isinstance(base, Obj) and base.name == "match" and "m" in base.attrs and f.attr in _RE_MATCH_METHODS:
            return apply_(getattr(base.attrs["m"], f.attr))
    return NotImplemented


# ------------------------------------------------------------------ START CLOCKTIME writer / reader (shared by C12 and C03)
def clocktime_round_trip(repo):
    """finite evaluation of the START CLOCKTIME writer (12-hour conversion in InpFile._write_times) composed with the reader
    (_clock_time_to_sec): -> (list of (seconds, text written, seconds read back or error text), writer_fn, reader_fn).
    Both sides are evaluated by the partial evaluator on their AST (stdlib `re` is modelled; no repository code runs)."""
    import ast
    import re as _re
    from ..src import unparse, ExtractError, walk
    from ..peval import Evaluator, Obj, Unknown, Raised

    IO = "wntr/epanet/io.py"
    wt = repo.func(IO, "InpFile._write_times")
    rd = repo.func(IO, "_clock_time_to_sec")
    s2s = repo.func(IO, "_sec_to_string")
    # writer: statements from `hrs, mm, sec = _sec_to_string(time.start_clocktime)` to the write of 'START CLOCKTIME'
    start = end = None
    for i, st in enumerate(wt.body):
        if isinstance(st, ast.Assign) and "start_clocktime" in unparse(st.value) and "_sec_to_string" in unparse(st.value):
            start = i
        if start is not None and end is None and isinstance(st, ast.Expr) and "START CLOCKTIME" in unparse(st):
            end = i
    if start is None or end is None:
        raise ExtractError("_write_times: START CLOCKTIME writer not found")
    # the text expression of that line, in whichever of Python's three formatting spellings: '...'.format(..), '...' % (..), f'...'
    fmt_expr = None
    for n in ast.walk(wt.body[end]):
        if "START CLOCKTIME" not in unparse(n):
            continue
        if isinstance(n, ast.Call) and isinstance(n.func, ast.Attribute) and n.func.attr == "format" and isinstance(n.func.value, ast.Constant) and isinstance(n.func.value.value, str):
            fmt_expr = n
        elif isinstance(n, ast.JoinedStr) and fmt_expr is None:
            fmt_expr = n
        elif isinstance(n, ast.BinOp) and isinstance(n.op, ast.Mod) and isinstance(n.left, ast.Constant) and isinstance(n.left.value, str) and fmt_expr is None:
            fmt_expr = n
    if fmt_expr is None:
        raise ExtractError("_write_times: format of the START CLOCKTIME line not found")

    def render(e, w):
        if isinstance(e, ast.Call):
            return e.func.value.value.format(*[w.ev(a) for a in e.args], **{k.arg: w.ev(k.value) for k in e.keywords if k.arg})
        if isinstance(e, ast.BinOp):
            r = w.ev(e.right)
            return e.left.value % (tuple(r) if isinstance(r, (tuple, list)) else r)
        out = []
        for part in e.values:
            if isinstance(part, ast.Constant):
                out.append(str(part.value))
                continue
            v = w.ev(part.value)
            if part.conversion == 114:
                v = repr(v)
            elif part.conversion == 115:
                v = str(v)
            elif part.conversion == 97:
                v = ascii(v)
            spec = render(part.format_spec, w) if part.format_spec is not None else ""
            out.append(format(v, spec))
        return "".join(out)

    class Ev(Evaluator):
        def e_Subscript(self, n):
            b = self.ev(n.value)
            i = self.ev(n.slice)
            r = re_subscript(b, i)
            if r is not NotImplemented:
                return r
            return b[i]

        def e_Attribute(self, n):
            r = re_flag(n, self)
            return r if r is not NotImplemented else Evaluator.e_Attribute(self, n)

        def e_JoinedStr(self, n):
            raise Unknown("f-string")

    def hook(name, n, ev):
        if name == "int":
            v = ev.ev(n.args[0])
            return int(v)
        if name == "float":
            return float(ev.ev(n.args[0]))
        if name == "round":
            return round(ev.ev(n.args[0]))
        if name == "bool":
            return ev.ev(n.args[0]) is not None and ev.ev(n.args[0]) is not False
        r = re_model(name, n, ev)
        if r is not NotImplemented:
            return r
        if name.endswith(".upper"):
            return ev.ev(n.func.value).upper()
        if name.endswith(".startswith"):
            return ev.ev(n.func.value).startswith(ev.ev(n.args[0]))
        if name == "_sec_to_string":
            sub = Ev({s2s.args.args[0].arg: ev.ev(n.args[0])}, None, hook)
            return sub.run(s2s.body)
        return NotImplemented

    rows = []
    for h in range(24):
        for m_, s_ in ((0, 0), (30, 0), (59, 59)):
            t = h * 3600 + m_ * 60 + s_
            try:
                w = Ev({"time": Obj("time", {"start_clocktime": t})}, None, hook)
                w.block(wt.body[start:end])
                text = render(fmt_expr, w).strip()
                toks = text.split()
                # reader side: current = line.split(); time = current[2]; am/pm = current[3] (or 'AM')
                clock, ampm = toks[2], (toks[3].upper() if len(toks) > 3 else "AM")
                r = Ev({"s": clock, "am_pm": ampm}, None, hook)
                try:
                    back = r.run(rd.body)
                except Raised:
                    back = "raises"
                rows.append((t, text, back))
            except Unknown as e:
                raise ExtractError("START CLOCKTIME round trip not evaluable at %d s: %s" % (t, e))
    return rows, wt, rd


# ------------------------------------------------------------------ generic string-level evaluation helpers (stdlib modelled, no repository code runs)
def _string_evaluator(repo, siblings=None):
    """siblings: optional {call text such as 'cls._helper' or '_helper': FunctionDef} of further pure helpers the evaluated function may call
    (methods reached through self / cls / the class name, functions of its module); they are evaluated the same way."""
    import ast
    import re as _re
    from ..src import unparse
    from ..peval import Evaluator, Obj, Unknown

    IO = "wntr/epanet/io.py"
    helpers = {}
    for nm in ("_sec_to_string", "_str_time_to_sec", "_clock_time_to_sec"):
        if repo.has_func(IO, nm):
            helpers[nm] = repo.func(IO, nm)

    def modconst(d):
        # a module-level constant of io.py (e.g. a compiled pattern hoisted out of a parser) is evaluated like any other expression
        if "." not in d:
            try:
                v = repo.module_assign(IO, d)
            except Exception:
                raise Unknown("unbound name %s" % d)
            return Ev({}, None, hook).ev(v)
        raise Unknown(d)

    class Ev(Evaluator):
        def __init__(self, env=None, class_attr=None, call=None, attr=None):
            Evaluator.__init__(self, env, class_attr or modconst, call, attr)

        def e_Subscript(self, n):
            b = self.ev(n.value)
            if isinstance(n.slice, ast.Slice):
                lo = self.ev(n.slice.lower) if n.slice.lower is not None else None
                hi = self.ev(n.slice.upper) if n.slice.upper is not None else None
                return b[lo:hi]
            i = self.ev(n.slice)
            r = re_subscript(b, i)
            if r is not NotImplemented:
                return r
            return b[i]

        def e_Attribute(self, n):
            r = re_flag(n, self)
            return r if r is not NotImplemented else Evaluator.e_Attribute(self, n)

        def e_Starred(self, n):
            raise Unknown("starred")

    def hook(name, n, ev):
        def args():
            out = []
            for a in n.args:
                if isinstance(a, ast.Starred):
                    out.extend(ev.ev(a.value))
                else:
                    out.append(ev.ev(a))
            return out
        if name in ("int", "float", "round", "len", "str", "abs"):
            a = args()
            return {"int": int, "float": float, "round": round, "len": len, "str": str, "abs": abs}[name](*a)
        if name == "bool":
            v = args()[0]
            return v is not None and v is not False and v != 0
        r = re_model(name, n, ev)
        if r is not NotImplemented:
            return r
        if isinstance(n.func, ast.Attribute):
            m = n.func.attr
            if m in ("upper", "lower", "strip", "split", "startswith", "endswith", "format", "replace"):
                base = ev.ev(n.func.value)
                if isinstance(base, str):
                    return getattr(base, m)(*args(), **{k.arg: ev.ev(k.value) for k in n.keywords})
        if name in helpers:
            sub = Ev({a.arg: v for a, v in zip(helpers[name].args.args, args())}, None, hook)
            return sub.run(helpers[name].body)
        if siblings and name in siblings:
            fn = siblings[name]
            ps = [a.arg for a in fn.args.args]
            env = {}
            static = any(isinstance(d, ast.Name) and d.id == "staticmethod" for d in fn.decorator_list)
            if "." in name and ps and not static:
                env[ps[0]] = None                      # receiver (self / cls): only used to reach further siblings
                ps = ps[1:]
            for p_, d_ in zip(ps[len(ps) - len(fn.args.defaults):], fn.args.defaults):
                env[p_] = Ev({}, None, hook).ev(d_)
            env.update(zip(ps, args()))
            env.update({k.arg: ev.ev(k.value) for k in n.keywords if k.arg})
            return Ev(env, None, hook).run(fn.body)
        return NotImplemented
    return Ev, hook


def class_siblings(repo, rel, clsname):
    """{call text: FunctionDef} for the methods of a class as they are called from inside it, and the functions of its module."""
    import ast
    out = {}
    for n in repo.tree(rel).body:
        if isinstance(n, ast.FunctionDef):
            out[n.name] = n
    seen = {}
    for m in repo.cls(rel, clsname).body:
        if isinstance(m, ast.FunctionDef):
            seen[m.name] = None if m.name in seen else m          # property getter/setter pairs are not helpers
    for nm, m in seen.items():
        if m is not None:
            for pre in ("self.", "cls.", clsname + "."):
                out[pre + nm] = m
    return out


def rule_clock_round_trip(repo):
    """_sec_to_clock (used by TimeOfDayCondition.__str__, i.e. by the rule writer) composed with ControlCondition._parse_value (used by the
    rule reader): -> [(seconds, text, seconds read back)]"""
    import ast
    from ..src import ExtractError
    from ..peval import Unknown, Raised
    CTRL = "wntr/network/controls.py"
    Ev, hook = _string_evaluator(repo, class_siblings(repo, CTRL, "ControlCondition"))
    s2c = repo.func(CTRL, "ControlCondition._sec_to_clock")
    pv = repo.func(CTRL, "ControlCondition._parse_value")
    tr = [s for s in pv.body if isinstance(s, ast.Try)]
    if not tr or not tr[0].handlers:
        raise ExtractError("_parse_value: try/except ValueError not found")
    text_body = tr[0].handlers[0].body        # the branch taken for a non-numeric string
    rows = []
    for h in range(24):
        for m_, s_ in ((0, 0), (30, 0), (59, 59)):
            t = h * 3600 + m_ * 60 + s_
            try:
                text = Ev({"value": t, "cls": None}, None, hook).run(s2c.body)
                back = Ev({"value": text, "cls": None}, None, hook).run(text_body)
            except (Unknown, Raised) as e:
                raise ExtractError("rule clock-time round trip not evaluable at %d s: %s" % (t, e))
            rows.append((t, text, back))
    return rows, s2c, pv


def control_time_round_trip(repo):
    """the simple time-control writer (`... AT TIME <t>` in InpFile._write_controls) composed with the reader's conversion of that token in
    _read_control_line: -> [(seconds, token written, seconds read back)]"""
    import ast
    from ..src import ExtractError, unparse, walk
    from ..peval import Unknown, Raised, Obj
    IO = "wntr/epanet/io.py"
    Ev, hook = _string_evaluator(repo)
    wc = repo.func(IO, "InpFile._write_controls")
    rc = repo.func(IO, "_read_control_line")
    # writer: entry = '... AT {compare} {time...}' and vals = {..., 'time': <expr>}
    entry = tv = None
    for n in walk(wc):
        if isinstance(n, ast.Assign) and isinstance(n.value, ast.Constant) and isinstance(n.value.value, str) and "AT {compare}" in n.value.value:
            entry = n.value.value
        if isinstance(n, ast.Dict):
            for k, v in zip(n.keys, n.values):
                if isinstance(k, ast.Constant) and k.value == "time" and "_threshold" in unparse(v):
                    tv = v
    if entry is None or tv is None:
        raise ExtractError("_write_controls: time-control entry / 'time' value not found")
    import re as _re
    m = _re.search(r"\{time(:[^}]*)?\}", entry)
    if not m:
        raise ExtractError("_write_controls: {time} placeholder not found")
    spec = (m.group(1) or ":")[1:]
    # reader: if ':' in current[5]: run_at_time = int(_str_time_to_sec(current[5])) else: int(float(current[5]) * 3600)
    rd_if = None
    for n in walk(rc):
        if isinstance(n, ast.If) and unparse(n.test).replace('"', "'") == "':' in current[5]" and any(isinstance(s, ast.Assign) and unparse(s.targets[0]) == "run_at_time" for s in n.body):
            rd_if = n
            break
    if rd_if is None:
        raise ExtractError("_read_control_line: conversion of the time token not found")
    rows = []
    for t in (0, 1, 59, 60, 1199, 1200, 3599, 3600, 3661, 4800, 8400, 43200, 86399, 90061, 604860, 1000000):
        try:
            cond = Obj("cond", {"_threshold": t})
            ctl = Obj("ctl", {"_condition": cond})
            val = Ev({"all_control": ctl}, None, hook).ev(tv)
            token = format(val, spec).strip()
            e = Ev({"current": ["LINK", "x", "OPEN", "AT", "TIME", token]}, None, hook)
            e.block([rd_if])
            back = e.env.get("run_at_time")
        except (Unknown, Raised) as ex:
            raise ExtractError("time-control round trip not evaluable at %d s: %s" % (t, ex))
        rows.append((t, token, back))
    return rows, wc, rc


def control_type_table(repo):
    """classification of simple controls by the class of their condition: -> (table {condition class text: _ControlType member text},
    default member text, function node holding the chain, init_ok) -- tolerant of where the isinstance chain lives: directly in
    Control.__init__ (assigning self._control_type) or in a helper of class Control that returns the member and that __init__ calls."""
    import ast
    from ..src import walk, calls, last_attr, unparse, ExtractError
    CTRL = "wntr/network/controls.py"
    cls = repo.cls(CTRL, "Control")
    meths = {n.name: n for n in cls.body if isinstance(n, ast.FunctionDef)}
    ini = meths.get("__init__")
    if ini is None:
        raise ExtractError("Control.__init__ vanished")

    def chain(fn):
        table, default = {}, None
        for n in walk(fn):
            if isinstance(n, ast.If) and isinstance(n.test, ast.Call) and unparse(n.test.func) == "isinstance" and len(n.test.args) == 2:
                val = None
                for s_ in n.body:
                    if isinstance(s_, ast.Assign) and unparse(s_.targets[0]) == "self._control_type":
                        val = unparse(s_.value)
                    if isinstance(s_, ast.Return) and s_.value is not None:
                        val = unparse(s_.value)
                if val and "_ControlType." in val:
                    table[unparse(n.test.args[1])] = val
                    cur = n
                    while len(cur.orelse) == 1 and isinstance(cur.orelse[0], ast.If):
                        cur = cur.orelse[0]
                    for s_ in cur.orelse:
                        if isinstance(s_, ast.Assign) and unparse(s_.targets[0]) == "self._control_type":
                            default = unparse(s_.value)
                        if isinstance(s_, ast.Return) and s_.value is not None:
                            default = unparse(s_.value)
        return table, default
    table, default = chain(ini)
    holder = ini
    init_ok = bool(table)
    if not table:
        for c in calls(ini):
            nm = last_attr(c)
            if nm in meths and nm != "__init__":
                t2, d2 = chain(meths[nm])
                if t2:
                    table, default, holder = t2, d2, meths[nm]
                    # __init__ must store the helper's result for the condition it was given
                    init_ok = any(isinstance(a, ast.Assign) and unparse(a.targets[0]) == "self._control_type" and last_attr(a.value) == nm
                                  and a.value.args and unparse(a.value.args[0]) == "condition" for a in walk(ini))
    if not table:
        raise ExtractError("Control: classification of simple controls by condition class not found")
    holder._rel = CTRL
    holder._qual = "Control." + holder.name
    return table, default, holder, init_ok


def options_class_defaults(repo, cls):
    """constant keyword defaults of wntr/network/options.py <cls>.__init__ (read from the source), e.g. TimeOptions -> {'duration': 0.0, ...}.
    Mock worlds use them so that a repository function reading another option field of an existing group still finds the field."""
    import ast as _ast
    try:
        fn = repo.func("wntr/network/options.py", cls + ".__init__")
    except AnchorError:
        return {}
    a = fn.args
    names = [x.arg for x in a.args]
    out = {}
    for nm, dv in zip(names[len(names) - len(a.defaults):], a.defaults):
        try:
            out[nm] = _ast.literal_eval(dv)
        except (ValueError, SyntaxError):
            pass
    return out


def rule_changes_forwarded(repo, chk, rule):
    """T1 (CFG): wntr/sim/hydraulics.py update_model_for_controls forwards EVERY change the tracker reports to the model updater.

    The loop over `change_tracker.get_changes(...)` must call `<updater>.update(...)` on every way round the loop body (no `continue`,
    guard or early exit lets a reported change go by), and the reference point is reset only after the loop.  A change dropped here
    (for instance "because the element is isolated right now") leaves Params that only the updater refreshes - per-junction PDD pressures
    and exponent, leak area/coefficient, valve settings - stale when the element is used again."""
    import ast as _ast
    from ..cfg import CFG
    from ..src import walk as _walk, call_name as _cn, loc as _loc, norm as _norm
    rel = "wntr/sim/hydraulics.py"
    fn = repo.func(rel, "update_model_for_controls")
    chk.fn(fn)
    g = CFG(fn)
    loops = [n for n in _walk(fn) if isinstance(n, _ast.For) and any((_cn(c) or "").endswith("get_changes") for c in _walk(n.iter) if isinstance(c, _ast.Call))]
    if not loops:
        # the changes may be materialised first: for x in changes, with changes = <tracker>.get_changes(..)
        names = set()
        for n in _walk(fn):
            if isinstance(n, _ast.Assign) and any((_cn(c) or "").endswith("get_changes") for c in _walk(n.value) if isinstance(c, _ast.Call)):
                names |= {t.id for t in n.targets if isinstance(t, _ast.Name)}
        loops = [n for n in _walk(fn) if isinstance(n, _ast.For) and isinstance(n.iter, (_ast.Name, _ast.Call)) and ({x.id for x in _ast.walk(n.iter) if isinstance(x, _ast.Name)} & names)]
    if len(loops) != 1:
        raise ExtractError("update_model_for_controls: the loop over the tracker's changes was not identified (%d candidates)" % len(loops))
    loop = loops[0]
    head = g.loop_heads.get(loop)
    if head is None:
        raise ExtractError("update_model_for_controls: loop head not in the CFG")
    upd = [i for i in g.calling(".update") if g.g.nodes[i]["node"] is not None]
    body_first = [b for a, b, d in g.g.out_edges(head, data=True) if d.get("cond") is True] or list(g.g.successors(head))
    # from the first statement of the body, can the loop head be reached again (next change) or the function left without passing an update call?
    w = None
    for b in body_first:
        w = g.can_reach_avoiding(b, {head, g.exit}, upd)
        if w:
            break
    chk.expect(bool(upd) and w is None, rule, "update_model_for_controls hands every reported change to the model updater", _loc(rel, loop),
               "a change that is skipped (isolated element, unknown attribute ...) is lost: the reference point is reset afterwards, so the updater never hears of it",
               expected="every way round the loop over get_changes() calls <updater>.update(m, wn, obj, attr)", found=("path avoiding the update: " + g.path_text(w)) if w else ("no update call" if not upd else None))
    updater_dispatch_rules(repo, chk, rule)
    rst = g.calling("reset_reference_point")
    in_loop = [i for i in rst if any(g.g.nodes[i]["node"] is x or g.g.nodes[i].get("stmt") is x for x in _walk(loop))]
    chk.expect(bool(rst) and not in_loop, rule, "the 'model' reference point is reset after all changes were forwarded", _loc(rel, fn), found="reset inside the loop" if in_loop else ("no reset" if not rst else None))


# ------------------------------------------------------------------ adjacency view under an edit history (hosted by C01 as R-C01-2b and by C14 as R-C14-5b)
def adjacency_history_rules(repo, chk, rule):
    """T3, bounded to the fixture model (sa/props/c13_fixture.py, variant B) and a fixed edit history.  WaterNetworkModel.get_links_for_node is what the balance
    rows, the tank / reservoir demand and the isolation search read; whatever it answers must be derived from the links' CURRENT end nodes.  The model is built by
    the repository's constructors (interpreted), every (node, flag) is queried, then links are re-targeted through the public end-node setters -- a pipe reversed,
    a pump reversed, a pipe moved to another node, a valve turned into a self-loop and back -- and removed / added, and after every edit every (node, flag) is
    queried again and compared with the answer computed from the links' own start / end names.  The queries BEFORE the first edit are part of the rule: an answer
    remembered from then must not survive the edit."""
    from ..concrete import ProgramError, Unsupported
    from ..src import loc, ExtractError
    from .c13 import model_world, build_fixture_model
    MODEL = "wntr/network/model.py"
    gfn = repo.func(MODEL, "WaterNetworkModel.get_links_for_node")
    chk.fn(gfn)
    world = model_world(repo)
    try:
        import networkx as _nx
        world.overrides["networkx"] = _nx              # the real library (tooling venv): the graph view is built by the repository's to_graph on it
    except ImportError:
        _nx = None
    I = world.interp
    call = lambda o, m, *a, **k: I.call(I.getattr_(o, m), list(a), k)
    tgf = repo.func("wntr/network/io.py", "to_graph") if _nx is not None else None
    if tgf is not None:
        chk.fn(tgf)

    def graph_view(wn, step):
        """to_graph(wn): one graph node per model node, one edge start -> end keyed by the link's name per link, nothing else"""
        if tgf is None:
            return
        G = world.function("wntr/network/io.py", "to_graph")(wn)
        want_nodes = sorted(n_ for n_, _o in list(call(wn, "nodes")))
        want_edges = sorted((I.getattr_(l_, "start_node_name"), I.getattr_(l_, "end_node_name"), k_) for k_, l_ in list(call(wn, "links")))
        got_nodes, got_edges = sorted(G.nodes()), sorted(G.edges(keys=True))
        types_ok = all(G.edges[e_]["type"] == I.getattr_(call(wn, "get_link", e_[2]), "link_type") for e_ in G.edges(keys=True)) if got_edges == want_edges else True
        chk.expect(got_nodes == want_nodes and got_edges == want_edges and types_ok, rule, "to_graph gives one node per model node and one edge start -> end per link, %s" % step, loc(tgf),
                   "the graph view (topographic metrics, valve segmentation, skeletonization read it) must follow the registries and the links' current ends",
                   expected="%d nodes, %d edges" % (len(want_nodes), len(want_edges)),
                   found=None if (got_nodes == want_nodes and got_edges == want_edges) else "nodes only in one of them %s; edges only in one of them %s" % (
                       sorted(set(got_nodes) ^ set(want_nodes))[:4], sorted(set(got_edges) ^ set(want_edges))[:4]))

    def reference(wn):
        ref = {}
        for lname, link in list(call(wn, "links")):
            a, b = I.getattr_(link, "start_node_name"), I.getattr_(link, "end_node_name")
            ref.setdefault((a, "OUTLET"), []).append(lname)
            ref.setdefault((b, "INLET"), []).append(lname)
            for n_ in {a, b}:
                ref.setdefault((n_, "ALL"), []).append(lname)
        return ref

    def compare(wn, step):
        ref = reference(wn)
        bad = []
        n = 0
        for nname, _node in list(call(wn, "nodes")):
            for flag in ("ALL", "INLET", "OUTLET"):
                got = sorted(call(wn, "get_links_for_node", nname, flag))
                want = sorted(ref.get((nname, flag), []))
                n += 1
                if got != want:
                    bad.append("%s %s: %s, the links' own ends say %s" % (nname, flag, got, want))
        graph_view(wn, step)
        chk.expect(not bad, rule, "get_links_for_node agrees with the links' current end nodes for every node and flag, %s" % step, loc(gfn),
                   "balance rows, tank / reservoir demand and the isolation search read this view; an answer that does not follow an edit of a link's ends puts the link on the wrong side of a balance",
                   expected="%d (node, flag) answers equal to the reference" % n, found=bad[:4] or None)
    try:
        wn = build_fixture_model(repo, world, "B")
        node = lambda n_: call(wn, "get_node", n_)
        link = lambda n_: call(wn, "get_link", n_)

        def retarget(lname, start=None, end=None):
            l = link(lname)
            if start is not None:
                I.setattr_(l, "start_node", node(start))
            if end is not None:
                I.setattr_(l, "end_node", node(end))
            own = [(w_, I.getattr_(l, w_)) for w_ in ("start_node", "end_node")]
            foreign = [w_ for w_, o_ in own if o_ is not node(I.getattr_(o_, "name"))]
            chk.expect(not foreign, rule, "after re-targeting %s its ends are the registry's own node objects" % lname, loc(gfn), found=foreign or None)
        compare(wn, "as built")
        compare(wn, "queried a second time")
        a, b = I.getattr_(link("P1"), "start_node_name"), I.getattr_(link("P1"), "end_node_name")
        retarget("P1", start=b, end=a)
        compare(wn, "after pipe P1 was reversed through the end-node setters")
        a, b = I.getattr_(link("PU4"), "start_node_name"), I.getattr_(link("PU4"), "end_node_name")
        retarget("PU4", start=b, end=a)
        compare(wn, "after pump PU4 was reversed")
        retarget("P5", end="J3")
        compare(wn, "after the end of pipe P5 was moved to J3")
        retarget("V3", end=I.getattr_(link("V3"), "start_node_name"))
        compare(wn, "after valve V3 became a self-loop")
        retarget("V3", end="J4")
        compare(wn, "after valve V3 was opened up again")
        a, b = I.getattr_(link("P1"), "start_node_name"), I.getattr_(link("P1"), "end_node_name")
        retarget("P1", start=b, end=a)
        compare(wn, "after pipe P1 was reversed back")
        call(wn, "add_pipe", "PX", "J5", "J2", length=10.0, diameter=0.1, roughness=100.0)
        compare(wn, "after pipe PX was added")
        call(wn, "remove_link", "PX")
        call(wn, "add_pipe", "PX", "J3", "J5", length=10.0, diameter=0.1, roughness=100.0)
        compare(wn, "after pipe PX was removed and added again between other nodes")
    except ProgramError as e:
        chk.bad(rule, "the adjacency view follows the edit history of the fixture model", loc(gfn), "the repository's own code (interpreted) raised", found="%s (line %s)" % (e, e.lineno))
    except Unsupported as e:
        raise ExtractError("%s: %s" % (rule, e))
    chk.floor(rule, 9)


def updater_dispatch_rules(repo, chk, rule):
    """T3 (finite): wntr/sim/models/utils.py ModelUpdater interpreted -- an updater built by its own constructor, callbacks registered with add() for several
    (object, attribute) keys, update() called for every key and for a key nothing is registered for, with the object connected and with the object isolated.
    update(m, wn, obj, attr) must call exactly the callbacks registered for (obj, attr), once each, in registration order, with (m, wn, updater, obj, attr) --
    WHATEVER the state of the object: the parameters that only the updater refreshes (per-junction PDD pressures and exponent, leak area / coefficient, valve
    settings, roughness) are registered on their own attribute, not on `_is_isolated`, so a change dropped while the element is isolated is never replayed."""
    from ..concrete import World, stdlib_overrides, Instance, ProgramError, Unsupported
    from ..src import loc, ExtractError
    rel = "wntr/sim/models/utils.py"
    ufn = repo.func(rel, "ModelUpdater.update")
    chk.fn(ufn)
    from .c13 import model_world
    world = model_world(repo)           # provides the collections.abc mix-ins the repository's OrderedSet builds on
    I = world.interp

    class _Elem(object):
        _sa_mock = True

        def __init__(self, name, isolated):
            self.name, self._is_isolated = name, isolated

        def __repr__(self):
            return "<%s%s>" % (self.name, " (isolated)" if self._is_isolated else "")
    try:
        for isolated in (False, True):
            up = world.function(rel, "ModelUpdater")()
            a, b = _Elem("A", isolated), _Elem("B", False)
            calls = []

            def cb(tag):
                def f(m, wn, updater, obj, attr):
                    calls.append((tag, m, wn, updater is up, obj, attr))
                return f
            f1, f2, f3, f4 = cb("f1"), cb("f2"), cb("f3"), cb("f4")
            reg = [(a, "minimum_pressure", f1), (a, "minimum_pressure", f2), (a, "_is_isolated", f3), (b, "minimum_pressure", f4), (a, "setting", f1), (a, "minimum_pressure", f1)]
            for o_, at_, f_ in reg:
                I.call(I.getattr_(up, "add"), [o_, at_, f_], {})
            for o_, at_, want in ((a, "minimum_pressure", ["f1", "f2"]), (a, "_is_isolated", ["f3"]), (a, "setting", ["f1"]), (b, "minimum_pressure", ["f4"]), (a, "roughness", []), (b, "setting", [])):
                del calls[:]
                I.call(I.getattr_(up, "update"), ["M", "WN", o_, at_], {})
                got = [c[0] for c in calls]
                args_ok = all(c[1] == "M" and c[2] == "WN" and c[3] and c[4] is o_ and c[5] == at_ for c in calls)
                chk.expect(got == want and args_ok, rule, "ModelUpdater.update(%r, %r) calls exactly the callbacks registered for that key, once each, in order" % (o_, at_), loc(ufn),
                           "the per-element parameters are refreshed only through these callbacks; a change that is not dispatched (because of the element's state, or of the attribute) "
                           "is lost when the reference point of the change tracker is reset", expected=want, found="%s%s" % (got, "" if args_ok else " with other arguments"))
    except ProgramError as e:
        chk.bad(rule, "ModelUpdater dispatches the registered callbacks", loc(ufn), found="%s (line %s)" % (e, e.lineno))
    except Unsupported as e:
        import traceback
        raise ExtractError("%s (ModelUpdater): %s" % (rule, e))
