"""helpers shared by several rule modules."""
from ..symx import SymExec, Opaque

HYD = "wntr/sim/hydraulics.py"


def final_stores(repo, fn=None):
    """path-sensitive summary of store_results_in_network: for every enumerated path and every loop context the LAST value stored
    to each attribute.  -> [(ctx, conds: dict text->bool, finals: dict target->value text or number)]"""
    fn = fn or repo.func(HYD, "store_results_in_network")
    ex = SymExec()
    outs = ex.run(fn)
    rows = []
    for o in outs:
        conds = dict(o.conds)
        per = {}
        for e in o.events:
            if e[0] != "store":
                continue
            loops = e[4] if len(e) > 4 else ()
            ctx = loops[-1] if loops else ""
            v = e[2]
            per.setdefault(ctx, {})[e[1]] = v.text if isinstance(v, Opaque) else v
        for ctx, finals in per.items():
            rows.append((ctx, conds, finals))
    return fn, rows


def forced(atom, conds):
    """value the path conditions force on the boolean atom (text): True / False / None (not determined on this path).
    Compound tests are decomposed: `A and B` true forces both, `A or B` false forces both false, `not A` flips."""
    import ast as _ast

    def walk_(node, val, out):
        txt = _ast.unparse(node)
        if txt == atom:
            out.append(val)
            return
        if isinstance(node, _ast.UnaryOp) and isinstance(node.op, _ast.Not):
            if val is not None:
                walk_(node.operand, not val, out)
            return
        if isinstance(node, _ast.BoolOp):
            if isinstance(node.op, _ast.And) and val is True:
                for v in node.values:
                    walk_(v, True, out)
            elif isinstance(node.op, _ast.Or) and val is False:
                for v in node.values:
                    walk_(v, False, out)
            elif len(node.values) == 1:
                walk_(node.values[0], val, out)
    res = []
    for k, v in conds.items():
        if atom not in k:
            continue
        try:
            walk_(_ast.parse(k, mode="eval").body, bool(v), res)
        except SyntaxError:
            continue
    if True in res and False in res:
        return None
    return res[0] if res else None


# ------------------------------------------------------------------ START CLOCKTIME writer / reader (shared by C12 and C03)
def clocktime_round_trip(repo):
    """finite evaluation of the START CLOCKTIME writer (12-hour conversion in InpFile._write_times) composed with the reader
    (_clock_time_to_sec): -> (list of (seconds, text written, seconds read back or error text), writer_fn, reader_fn).
    Both sides are evaluated by the partial evaluator on their AST (stdlib `re` is modelled; no repository code runs)."""
    import ast
    import re as _re
    from ..src import unparse, ExtractError, walk
    from ..peval import Evaluator, Obj, Unknown, Raised

    IO = "wntr/epanet/io.py"
    wt = repo.func(IO, "InpFile._write_times")
    rd = repo.func(IO, "_clock_time_to_sec")
    s2s = repo.func(IO, "_sec_to_string")
    # writer: statements from `hrs, mm, sec = _sec_to_string(time.start_clocktime)` to the write of 'START CLOCKTIME'
    start = end = None
    for i, st in enumerate(wt.body):
        if isinstance(st, ast.Assign) and "start_clocktime" in unparse(st.value) and "_sec_to_string" in unparse(st.value):
            start = i
        if start is not None and end is None and isinstance(st, ast.Expr) and "START CLOCKTIME" in unparse(st):
            end = i
    if start is None or end is None:
        raise ExtractError("_write_times: START CLOCKTIME writer not found")
    fmt_call = None
    for n in ast.walk(wt.body[end]):
        if isinstance(n, ast.Call) and isinstance(n.func, ast.Attribute) and n.func.attr == "format" and isinstance(n.func.value, ast.Constant) and "START CLOCKTIME" in unparse(n):
            fmt_call = n
    if fmt_call is None:
        raise ExtractError("_write_times: format of the START CLOCKTIME line not found")

    class Ev(Evaluator):
        def e_Subscript(self, n):
            b = self.ev(n.value)
            i = self.ev(n.slice)
            return b[i]

        def e_JoinedStr(self, n):
            raise Unknown("f-string")

    def hook(name, n, ev):
        if name == "int":
            v = ev.ev(n.args[0])
            return int(v)
        if name == "float":
            return float(ev.ev(n.args[0]))
        if name == "round":
            return round(ev.ev(n.args[0]))
        if name == "bool":
            return ev.ev(n.args[0]) is not None and ev.ev(n.args[0]) is not False
        if name == "re.compile":
            return Obj("pattern", {"re": _re.compile(ev.ev(n.args[0]))})
        if name.endswith(".search") or name == "?.search":
            pat = ev.ev(n.func.value)
            m = pat.attrs["re"].search(ev.ev(n.args[0]))
            return None if m is None else Obj("match", {"groups": m.groups()})
        if name.endswith(".groups") or name == "?.groups":
            return list(ev.ev(n.func.value).attrs["groups"])
        if name.endswith(".upper"):
            return ev.ev(n.func.value).upper()
        if name.endswith(".startswith"):
            return ev.ev(n.func.value).startswith(ev.ev(n.args[0]))
        if name == "_sec_to_string":
            sub = Ev({"sec": ev.ev(n.args[0])}, None, hook)
            return sub.run(s2s.body)
        return NotImplemented

    rows = []
    for h in range(24):
        for m_, s_ in ((0, 0), (30, 0), (59, 59)):
            t = h * 3600 + m_ * 60 + s_
            try:
                w = Ev({"time": Obj("time", {"start_clocktime": t})}, None, hook)
                w.block(wt.body[start:end])
                args = [w.ev(a) for a in fmt_call.args]
                text = fmt_call.func.value.value.format(*args).strip()
                toks = text.split()
                # reader side: current = line.split(); time = current[2]; am/pm = current[3] (or 'AM')
                clock, ampm = toks[2], (toks[3].upper() if len(toks) > 3 else "AM")
                r = Ev({"s": clock, "am_pm": ampm}, None, hook)
                try:
                    back = r.run(rd.body)
                except Raised:
                    back = "raises"
                rows.append((t, text, back))
            except Unknown as e:
                raise ExtractError("START CLOCKTIME round trip not evaluable at %d s: %s" % (t, e))
    return rows, wt, rd
