"""helpers shared by several rule modules."""
from ..symx import SymExec, Opaque

HYD = "wntr/sim/hydraulics.py"


def final_stores(repo, fn=None):
    """path-sensitive summary of store_results_in_network: for every enumerated path and every loop context the LAST value stored
    to each attribute.  -> [(ctx, conds: dict text->bool, finals: dict target->value text or number)]"""
    fn = fn or repo.func(HYD, "store_results_in_network")
    ex = SymExec()
    outs = ex.run(fn)
    rows = []
    for o in outs:
        conds = dict(o.conds)
        per = {}
        for e in o.events:
            if e[0] != "store":
                continue
            loops = e[4] if len(e) > 4 else ()
            ctx = loops[-1] if loops else ""
            v = e[2]
            per.setdefault(ctx, {})[e[1]] = v.text if isinstance(v, Opaque) else v
        for ctx, finals in per.items():
            rows.append((ctx, conds, finals))
    return fn, rows


def forced(atom, conds):
    """value the path conditions force on the boolean atom (text): True / False / None (not determined on this path).
    Compound tests are decomposed: `A and B` true forces both, `A or B` false forces both false, `not A` flips."""
    import ast as _ast

    def walk_(node, val, out):
        txt = _ast.unparse(node)
        if txt == atom:
            out.append(val)
            return
        if isinstance(node, _ast.UnaryOp) and isinstance(node.op, _ast.Not):
            if val is not None:
                walk_(node.operand, not val, out)
            return
        if isinstance(node, _ast.BoolOp):
            if isinstance(node.op, _ast.And) and val is True:
                for v in node.values:
                    walk_(v, True, out)
            elif isinstance(node.op, _ast.Or) and val is False:
                for v in node.values:
                    walk_(v, False, out)
            elif len(node.values) == 1:
                walk_(node.values[0], val, out)
    res = []
    for k, v in conds.items():
        if atom not in k:
            continue
        try:
            walk_(_ast.parse(k, mode="eval").body, bool(v), res)
        except SyntaxError:
            continue
    if True in res and False in res:
        return None
    return res[0] if res else None
