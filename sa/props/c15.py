"""C15 -- the compiled model evaluator returns true residuals and Jacobian (Python front end vs C++ stack machine).

Techniques (DESIGN 2b).  The Python side is analysed by symbolic path enumeration (T2, sa/symx.py) and AST patterns (T1).  The C++ side
is NOT parsed or interpreted: sa/cxx.py extracts `const int NAME = n;` and the `if (ndx == NAME) {...}` branches by regular expressions
on comment-stripped text, and each branch's whitespace-normalised text is compared with a fixed template (`res=a+b`, `::pow(a,b)` ..);
sa/cint.py is not used here.  Rules emitted: R-C15-1, -2, -3, -4, -5, -7, -8, -9, -10, -11 (there is no R-C15-6); see EXPLANATION.
Bounded (T3) parts: sign() on 8 and InequalityOperator.evaluate on 14 sample points (R-C15-2); the arithmetic overloads with `other`
only at 2.5, 7, 0, 1, 0.0, 1.0 (R-C15-3); numpy-scalar probes 2.5 / 3 with a hand-written type table (R-C15-11).
"""
import ast
import re

import sympy as sp

from ..src import walk, calls, call_name, dotted, const, loc, unparse, norm, AnchorError, ExtractError, last_attr
from ..symx import SymExec, Opaque, State, is_zero
from .. import cxx

EXPR = "wntr/sim/aml/expr.py"
AML = "wntr/sim/aml/aml.py"
CPP = "wntr/sim/aml/evaluator.cpp"
HPP = "wntr/sim/aml/evaluator.hpp"

EXPLANATION = (
    "R-C15-1 (T1 sibling tables; C++ side by regex on the source text): OperationEnum values equal the C++ const-int opcodes, every emitted opcode "
    "has exactly one _evaluate branch and vice versa; a throw for unknown opcodes is present. R-C15-2 (T2 symbolic execution of get_rpn "
    "over all leaf/non-leaf operand cases and of the unary operation(); C++ branches compared as normalised TEXT with fixed templates; sign / "
    "inequality only on 8 / 14 sample points, T3): operands are emitted in constructor order then the opcode, the C++ branch pops in reverse order "
    "and computes the same operation. R-C15-3 (T2; overloads with `other` at a few concrete probes, T3): diff_down adds der * d(operation)/d(operand) "
    "(sympy differentiation of its own operation); forward/reflected overloads keep operand order, 0/1 short-cuts are identities. "
    "R-C15-4 (mostly AST pattern on local and attribute names; the reference count per path by T2): _increment_K/_decrement_K touch only K's own "
    "leaf map; leaves incremented on registration are recorded for removal. R-C15-5 (AST pattern: `type(val) <op> X` compares "
    "only): Model.__delattr__ mirrors __setattr__. R-C15-7 (T2 over class x operand kind; 'folded' = substring '.operation(' in the result): only "
    "Float with native/Float operands folds eagerly. R-C15-8 (AST pattern + get_rpn events): merged operator lists are de-duplicated, get_rpn leaves "
    "operand programs unchanged. R-C15-9 (T1, CFG must-pass; store found by its text): the Leaf.value setter always reaches self._c_obj.value = val. "
    "R-C15-10 (T2 on both leaf states): evaluate() returns what the value property returns. R-C15-11 (T2 path signatures at "
    "concrete numpy-scalar probes, hand-written type table, T3): numpy scalars take the same paths as python numbers. "
    "Decides symbolic / textual agreement, not floating-point behaviour.")
RULE_TEXT = "one instance = one opcode / operator class / operand / bookkeeping site"
ASSUMPTIONS = ["the SWIG wrapper passes vectors unchanged; memory safety and the CSR index arithmetic of set_structure are not decided",
               "C++ edits only take effect after rebuilding the extension; the sources are what is analysed",
               "the C++ stack machine is read by regular expressions and compared with fixed branch templates; a semantically equal branch in another spelling is reported, a different one hidden in a helper is not seen",
               "R-C15-2 (sign, inequality), R-C15-3 (overloads) and R-C15-11 are decided on the sample points / probe values named in the module only"]

BIN_CPP = {"add": "{a}+{b}", "sub": "{a}-{b}", "mul": "{a}*{b}", "div": "{a}/{b}", "pow": "::pow({a},{b})"}
UN_CPP = {"abs": "std::abs({a})", "exp": "::exp({a})", "log": "::log({a})", "negation": "-{a}", "sin": "::sin({a})", "cos": "::cos({a})", "tan": "::tan({a})",
          "asin": "::asin({a})", "acos": "::acos({a})", "atan": "::atan({a})"}
PY_BIN_OP = {"operator.add": "add", "operator.sub": "sub", "operator.mul": "mul", "operator.truediv": "div", "operator.pow": "pow"}


def enum_table(repo):
    c = repo.cls(EXPR, "OperationEnum")
    out = {}
    for n in c.body:
        if isinstance(n, ast.Assign) and isinstance(n.targets[0], ast.Name) and const(n.value) is not None:
            out[n.targets[0].id] = const(n.value)
    if len(out) < 10:
        raise AnchorError("OperationEnum members not found")
    return out, c


def operator_classes(repo):
    """{class: (base, opcode_name, classdef)} for concrete Operator subclasses."""
    out = {}
    for name, c in repo.classes(EXPR).items():
        bases = [b.id for b in c.bases if isinstance(b, ast.Name)]
        if not bases or bases[0] not in ("BinaryOperator", "UnaryOperator", "Operator"):
            continue
        if name in ("BinaryOperator", "UnaryOperator"):
            continue
        op = None
        for n in c.body:
            if isinstance(n, ast.Assign) and dotted(n.targets[0]) == "operation_enum":
                m = re.match(r"OperationEnum\.(\w+)\.value", unparse(n.value))
                op = m.group(1) if m else unparse(n.value)
        if op is None:
            for cc in ast.walk(c):
                if isinstance(cc, ast.Attribute) and cc.attr == "value" and isinstance(cc.value, ast.Attribute) and dotted(cc.value.value) == "OperationEnum":
                    op = cc.value.attr
        out[name] = (bases[0], op, c)
    return out


def ctor_fields(repo, cname):
    """the attribute each constructor parameter of an Operator class is stored in, in parameter order (inherited __init__ included)."""
    ms = _class_methods(repo, cname)
    if "__init__" not in ms:
        raise AnchorError("%s has no __init__ in expr.py" % cname)
    init = ms["__init__"][1]
    out = []
    for a in init.args.args[1:]:
        tg = [unparse(t)[5:] for s in walk(init) if isinstance(s, ast.Assign) and isinstance(s.value, ast.Name) and s.value.id == a.arg
              for t in s.targets if isinstance(t, ast.Attribute) and dotted(t.value) == "self"]
        if len(tg) != 1:
            raise ExtractError("%s.__init__: parameter %s is not stored in exactly one attribute" % (cname, a.arg))
        out.append(tg[0])
    return out


def rpn_programs(repo, clsname):
    """abstract interpretation of <clsname>.get_rpn for every leaf / non-leaf combination of its operands.

    A leaf operand k has the index 'Xk' in leaf_ndx_map; a non-leaf operand k has the two-entry program ['Xk.a', 'Xk.b'] in rpn_map.
    -> fn, operands (constructor order), variable (operands whose leafness get_rpn asks for), {combo: dict(got, want, mutated, aliased)}
    where `mutated` lists the operands whose program in rpn_map was changed by the call and `aliased` those whose list object IS the new program."""
    import itertools
    fn = repo.func(EXPR, clsname + ".get_rpn")
    operands = ctor_fields(repo, clsname)
    res = {}
    asked = set()
    for combo in itertools.product([True, False], repeat=len(operands)):
        leafness = dict(zip(operands, combo))

        def call_hook(name, node, args, kwargs, st, ex, recv):
            if isinstance(node.func, ast.Attribute) and node.func.attr == "is_leaf" and not args:
                r = recv if recv is not None else ex.ev(node.func.value, st)
                if isinstance(r, Opaque) and r.text.startswith("self.") and r.text[5:] in leafness:
                    asked.add(r.text[5:])
                    return leafness[r.text[5:]]
            return NotImplemented
        ex = SymExec(call_hook=call_hook)
        ex.unroll_opaque = True
        prog = {o: ["X%d.a" % (i + 1), "X%d.b" % (i + 1)] for i, o in enumerate(operands)}
        rpn_map = {"self.%s" % o: list(prog[o]) for o, lf in leafness.items() if not lf}
        leaf_map = {"self.%s" % o: "X%d" % (i + 1) for i, o in enumerate(operands) if leafness[o]}
        try:
            outs = [o for o in ex.run(fn, {"rpn_map": rpn_map, "leaf_ndx_map": leaf_map, "self": Opaque("self")}) if o.raised is None]
        except ExtractError as e:
            if "not in abstract dict" in str(e):
                # looks an operand up in the wrong table for this combination (KeyError at run time)
                res[combo] = dict(got=("KeyError: %s" % e,), want=None, mutated=[], aliased=[])
                continue
            raise
        if len(outs) != 1:
            raise ExtractError("%s.get_rpn: %d paths for leafness %s" % (clsname, len(outs), combo))
        final = outs[0].env["rpn_map"]
        got = final.get("self")
        if not isinstance(got, list):
            raise ExtractError("%s.get_rpn did not store rpn_map[self]" % clsname)
        want = []
        for i, o in enumerate(operands):
            want += ["X%d" % (i + 1)] if leafness[o] else prog[o]
        nonleaf = [o for o in operands if not leafness[o]]
        res[combo] = dict(got=tuple("OP" if isinstance(x, Opaque) else x for x in got), want=tuple(want + ["OP"]),
                          mutated=[o for o in nonleaf if final.get("self." + o) != prog[o]],
                          aliased=[o for o in nonleaf if final.get("self." + o) is got])
    variable = [o for o in operands if o in asked]
    # operands get_rpn never asks about are leaves by construction (bounds of an inequality): only their leaf case is meaningful
    res = {c: r for c, r in res.items() if all(lf or o in asked for o, lf in zip(operands, c))}
    for r in res.values():
        if r["want"] is None:
            r["want"] = ("<operands in constructor order>", "OP")
    return fn, operands, variable, res


def py_calls(name, node, args, kwargs, st, ex, recv):
    """expression-module functions used inside diff_down."""
    S = ex.S
    if name in ("exp", "log", "sin", "cos", "tan", "asin", "acos", "atan") and len(args) == 1:
        return getattr(sp, name)(S(args[0]))
    if name == "Float" and len(args) == 1:
        return args[0]
    if name == "inequality":
        body = kwargs.get("body", args[0] if args else None)
        lb, ub = kwargs.get("lb"), kwargs.get("ub")
        conds = []
        if lb is not None:
            conds.append(sp.Ge(S(body), S(lb)))
        if ub is not None:
            conds.append(sp.Le(S(body), S(ub)))
        return sp.And(*conds) if conds else sp.true
    if name == "if_else":
        c = kwargs.get("if_statement", args[0] if args else None)
        a = kwargs.get("then_statement", args[1] if len(args) > 1 else None)
        b = kwargs.get("else_statement", args[2] if len(args) > 2 else None)
        if isinstance(c, Opaque):
            c = sp.Eq(ex.sym(c.text), 1)
        elif isinstance(c, sp.Symbol):
            c = sp.Eq(c, 1)
        return sp.Piecewise((S(a), c), (S(b), True))
    if name in ("abs",) and len(args) == 1:
        return sp.Abs(S(args[0]))
    if name == "sign" and len(args) == 1:
        return sp.sign(S(args[0]))
    return NotImplemented


# ------------------------------------------------------------------ model of the constant types (python and numpy scalars)
_NUM = ["numbers.Real", "numbers.Complex", "numbers.Number", "object"]
_INT = ["numbers.Integral", "numbers.Rational"] + _NUM
_NPF = ["numpy.floating", "numpy.inexact", "numpy.number", "numpy.generic"]
_NPI = ["numpy.signedinteger", "numpy.integer", "numpy.number", "numpy.generic"]
TYPE_MRO = {        # the classes isinstance() accepts for a value of the type (its MRO plus the numbers ABCs it is registered with)
    "float": ["float"] + _NUM,
    "int": ["int"] + _INT,
    "bool": ["bool", "int"] + _INT,
    "str": ["str", "object"],
    "numpy.float64": ["numpy.float64", "numpy.double", "numpy.float_"] + _NPF + ["float"] + _NUM,
    "numpy.float32": ["numpy.float32", "numpy.single"] + _NPF + _NUM,
    "numpy.int64": ["numpy.int64", "numpy.int_", "numpy.intp", "numpy.longlong"] + _NPI + _INT,
    "numpy.int32": ["numpy.int32", "numpy.intc"] + _NPI + _INT,
}
NUMPY_SCALARS = {"numpy.float64": "float", "numpy.float32": "float", "numpy.int64": "int", "numpy.int32": "int"}   # -> the python type of the same values


class _PF(float):
    """a float constant whose type is `tname` (python float or a numpy floating scalar)."""


class _PI(int):
    """an int constant whose type is `tname`."""


def probe(tname):
    v = _PI(3) if TYPE_MRO[tname][-len(_INT):] == _INT else _PF(2.5)
    v.tname = tname
    return v


def _type_tag(v):
    if getattr(v, "tname", None):
        return v.tname
    if isinstance(v, bool):
        return "bool"
    if isinstance(v, int):
        return "int"
    if isinstance(v, float):
        return "float"
    if isinstance(v, str):
        return "str"
    return "<expression node>"


def _is_type_name(t):
    return t in ("float", "int", "bool", "str", "complex", "object") or t.startswith("numpy.") or t.startswith("numbers.")


def module_aliases(tree):
    """local name -> canonical dotted name, for the imports found anywhere at module level (also inside try / if)."""
    al = {}
    for n in ast.walk(tree):
        if isinstance(n, (ast.FunctionDef, ast.ClassDef)):
            continue
        if isinstance(n, ast.Import):
            for a in n.names:
                al[a.asname or a.name.split(".")[0]] = a.name if a.asname else a.name.split(".")[0]
        elif isinstance(n, ast.ImportFrom) and n.module and not n.level:
            for a in n.names:
                al[a.asname or a.name] = n.module + "." + a.name
    return al


def canonical(text, aliases):
    head, _, rest = text.partition(".")
    if head in aliases:
        return aliases[head] + ("." + rest if rest else "")
    return text


def type_sets(repo):
    """module-level names of expr.py bound to collections of types -> ({name: [canonical type names]}, import aliases).

    The binding is followed through the module body in order (also inside try / if / with): literal set / tuple / list / frozenset(...) / set(...),
    unions (|, +, .union()), |= and += , .update(...) and .add(...)."""
    if getattr(repo, "_c15_type_sets", None) is not None:
        return repo._c15_type_sets
    tree = repo.tree(EXPR)
    al = module_aliases(tree)
    sets = {}

    class No(Exception):
        pass

    def ev(e):
        if isinstance(e, (ast.Set, ast.Tuple, ast.List)):
            out = []
            for x in e.elts:
                if isinstance(x, ast.Starred):
                    out += ev(x.value)
                    continue
                d = dotted(x)
                if d is None:
                    raise No()
                out.append(canonical(d, al))
            if not all(_is_type_name(t) for t in out):
                raise No()
            return out
        if isinstance(e, ast.Name) and e.id in sets:
            return list(sets[e.id])
        if isinstance(e, ast.BinOp) and isinstance(e.op, (ast.BitOr, ast.Add)):
            return ev(e.left) + ev(e.right)
        if isinstance(e, ast.Call) and isinstance(e.func, ast.Name) and e.func.id in ("set", "frozenset", "tuple", "list") and len(e.args) <= 1 and not e.keywords:
            return ev(e.args[0]) if e.args else []
        if isinstance(e, ast.Call) and isinstance(e.func, ast.Attribute) and e.func.attr == "union" and not e.keywords:
            out = ev(e.func.value)
            for a in e.args:
                out = out + ev(a)
            return out
        raise No()

    def visit(body):
        for n in body:
            try:
                if isinstance(n, ast.Assign) and all(isinstance(t, ast.Name) for t in n.targets):
                    try:
                        v = ev(n.value)
                    except No:
                        for t in n.targets:
                            sets.pop(t.id, None)
                        continue
                    for t in n.targets:
                        sets[t.id] = v
                elif isinstance(n, ast.AugAssign) and isinstance(n.target, ast.Name) and n.target.id in sets and isinstance(n.op, (ast.BitOr, ast.Add)):
                    sets[n.target.id] = sets[n.target.id] + ev(n.value)
                elif isinstance(n, ast.Expr) and isinstance(n.value, ast.Call) and isinstance(n.value.func, ast.Attribute) \
                        and isinstance(n.value.func.value, ast.Name) and n.value.func.value.id in sets and n.value.func.attr in ("update", "add"):
                    c = n.value
                    for a in c.args:
                        sets[c.func.value.id] = sets[c.func.value.id] + (ev(a) if c.func.attr == "update" else ev(ast.Tuple(elts=[a], ctx=ast.Load())))
            except No:
                raise ExtractError("%s line %d: cannot follow the update of a set of types: %s" % (EXPR, n.lineno, unparse(n)))
            if isinstance(n, ast.Try):
                visit(n.body)
                visit(n.orelse)
                visit(n.finalbody)
            elif isinstance(n, (ast.If, ast.With)):
                visit(n.body)
    visit(tree.body)
    repo._c15_type_sets = (sets, al)
    return sets, al


def native_env(repo):
    """the module's sets of native types as lists of canonical type names ({float, int} -> ['float', 'int'])."""
    return dict(type_sets(repo)[0])


def type_name_hooks(aliases, attr_inner=None):
    """(name_hook, attr_hook): `float`, `int`, `_np.float64`, `numbers.Real` ... evaluate to their canonical type name (a string), so that literal
    type collections such as `(float, int)` are decided like the named module-level sets."""
    def name_hook(nm, st):
        if nm in ("float", "int", "bool", "str", "complex", "object"):
            return nm
        if aliases.get(nm, nm) in ("numpy", "numbers"):
            return Opaque(aliases.get(nm, nm))
        if _is_type_name(aliases.get(nm, "")):
            return aliases[nm]            # from numpy import float64
        return NotImplemented

    def attr_hook(base, attr, st):
        if isinstance(base, Opaque) and base.text in ("numpy", "numbers"):
            return base.text + "." + attr
        if attr_inner is not None:
            return attr_inner(base, attr, st)
        return NotImplemented
    return name_hook, attr_hook


def native_hook(inner=None, aliases=None):
    """call hook deciding type(x) / isinstance(x, T) for constants (python numbers, numpy scalar probes) and expression nodes (never a native type)."""
    aliases = aliases or {}

    def hook(name, node, args, kwargs, st, ex, recv):
        if name == "type" and len(args) == 1:
            return _type_tag(args[0])
        if name == "isinstance" and len(args) == 2:
            ts = list(args[1]) if isinstance(args[1], (list, tuple)) else [args[1]]
            names = [canonical(t.text, aliases) if isinstance(t, Opaque) else t for t in ts]
            if names and all(isinstance(t, str) and _is_type_name(t) for t in names):
                tag = _type_tag(args[0])
                return any(t in TYPE_MRO.get(tag, [tag]) for t in names)
        if inner is not None:
            return inner(name, node, args, kwargs, st, ex, recv)
        return NotImplemented
    return hook


def eval_native(repo, fn, env, hook=None):
    """value returned by a small function for concrete python inputs (single path; 'raise' if that path raises)."""
    tsets, aliases = type_sets(repo)
    e = dict(tsets)
    e.update(env)
    nh, ah = type_name_hooks(aliases)
    ex = SymExec(call_hook=native_hook(hook, aliases), attr_hook=ah, name_hook=nh)
    outs = ex.run(fn, e)
    if len(outs) != 1:
        raise ExtractError("%s: %d paths for the concrete inputs %s" % (fn.name, len(outs), env))
    return "raise" if outs[0].raised is not None else outs[0].ret


def method_of(repo, cdef, name):
    """method `name` of a class; a class-level alias `name = other_method` is followed."""
    seen = set()
    while name not in seen:
        seen.add(name)
        for n in cdef.body:
            if isinstance(n, ast.FunctionDef) and n.name == name:
                n._rel = getattr(cdef, "_rel", EXPR)
                n._qual = "%s.%s" % (cdef.name, name)
                return n
        for n in cdef.body:
            if isinstance(n, ast.Assign) and isinstance(n.value, ast.Name) and any(isinstance(t, ast.Name) and t.id == name for t in n.targets):
                name = n.value.id
                break
    return None


def run(repo, chk):
    py_enum, enum_cls = enum_table(repo)
    hpp = repo.source(HPP)
    cpp = repo.source(CPP)
    c_enum = cxx.const_ints(hpp)
    c_enum.update({k: v for k, v in cxx.const_ints(cpp).items() if k not in c_enum})

    # ---------------------------------------------------------------- R-C15-1 opcode tables
    with chk.part("R-C15-1 opcode tables"):
        for name, val in sorted(py_enum.items(), key=lambda kv: -kv[1]):
            cv = c_enum.get(name.upper())
            chk.expect(cv == val, "R-C15-1", "opcode %s has the same value in OperationEnum and in the C++ table" % name, loc(EXPR, enum_cls),
                       "the Python front end writes these integers into the RPN that the C++ stack machine decodes", expected=val, found=cv)
        for name in c_enum:
            if name.lower() not in py_enum and c_enum[name] < 0:
                chk.bad("R-C15-1", "C++ opcode %s exists in OperationEnum" % name, HPP, found=c_enum[name])
        chk.expect(len(set(py_enum.values())) == len(py_enum) and all(v < 0 for v in py_enum.values()), "R-C15-1", "opcodes are distinct negative integers (non-negative entries are leaf indices)", loc(EXPR, enum_cls))
        body = cxx.function_body(cpp, r"double\s+_evaluate\s*\(")
        branches = cxx.opcode_branches(body)
        ops = operator_classes(repo)
        used = {op for (_, op, _) in ops.values() if op}
        for op in sorted(used):
            chk.expect(op.upper() in branches, "R-C15-1", "opcode %s emitted by the Python front end has a branch in _evaluate" % op, CPP, found=sorted(branches))
        for b in sorted(branches):
            chk.expect(b.lower() in used, "R-C15-1", "C++ branch %s corresponds to an Operator class" % b, CPP, found=sorted(used))
        chk.expect("throw" in body and "Operation not recognized" in body, "R-C15-1", "_evaluate rejects unknown opcodes", CPP)
        chk.floor("R-C15-1", 18 * 3)

    # ---------------------------------------------------------------- R-C15-2 opcode semantics
    with chk.part("R-C15-2 opcode semantics"):
        # emission order of every get_rpn(self, rpn_map, leaf_ndx_map): the operands in constructor order (leaf -> its index, non-leaf -> its whole
        # program), then the opcode; decided by abstract interpretation over all leaf / non-leaf combinations
        what = {"BinaryOperator": "operand1, operand2, opcode", "UnaryOperator": "operand, opcode", "IfElseOperator": "condition, then, else, opcode",
                "InequalityOperator": "body, lb, ub, opcode"}
        n_variable = {"BinaryOperator": 2, "UnaryOperator": 1, "IfElseOperator": 3, "InequalityOperator": 1}
        rpn_info = {}
        for cname_, cdef_ in sorted(repo.classes(EXPR).items()):
            g_ = [n for n in cdef_.body if isinstance(n, ast.FunctionDef) and n.name == "get_rpn" and len(n.args.args) == 3]
            if not g_ or cname_ == "Operator":
                continue
            fnr, operands_, variable_, progs = rpn_programs(repo, cname_)
            chk.fn(fnr)
            rpn_info[cname_] = (fnr, operands_, progs)
            if cname_ in n_variable:
                chk.expect(variable_ == operands_[:n_variable[cname_]], "R-C15-2", "%s.get_rpn distinguishes leaf and non-leaf for each of its expression operands" % cname_, loc(fnr),
                           "a leaf has no program in rpn_map and a non-leaf no index in leaf_ndx_map", expected=operands_[:n_variable[cname_]], found=variable_)
            for combo, r in sorted(progs.items()):
                shown = tuple(lf for o, lf in zip(operands_, combo) if o in variable_)
                chk.expect(r["got"] == r["want"], "R-C15-2", "%s.get_rpn emits %s [leaf=%s]" % (cname_, what.get(cname_, "its operands in constructor order, opcode"), shown if len(shown) != 1 else shown[0]),
                           loc(fnr), expected=r["want"], found=r["got"])
        for cname_ in what:
            if cname_ not in rpn_info:
                raise AnchorError("%s.get_rpn vanished" % cname_)
        # C++ branches: pops are in reverse emission order
        for cname, (base, op, cdef) in sorted(ops.items()):
            if op is None or op.upper() not in branches:
                continue
            br = cxx.analyse_branch(branches[op.upper()])
            pops, result = br["pops"], br["result"]
            where = "%s (branch %s)" % (CPP, op.upper())
            if base == "BinaryOperator":
                pyop = None
                for n in cdef.body:
                    if isinstance(n, ast.Assign) and dotted(n.targets[0]) == "operation":
                        pyop = PY_BIN_OP.get(unparse(n.value))
                chk.expect(pyop == op, "R-C15-2", "%s: Python operation matches its opcode %s" % (cname, op), loc(EXPR, cdef), found=pyop)
                ok2 = len(pops) == 2 and op in BIN_CPP and result == "res=" + BIN_CPP[op].format(a=pops[1], b=pops[0])
                chk.expect(ok2, "R-C15-2", "C++ %s pops the right operand first and computes operand1 %s operand2" % (op.upper(), op), where,
                           "operand2 is on top of the stack", expected="res=" + (BIN_CPP.get(op, "?").format(a="<2nd pop>", b="<1st pop>")), found="pops=%s %s" % (pops, result))
            elif base == "UnaryOperator":
                if op == "sign":
                    ok1 = len(pops) == 1 and re.sub(r"\s", "", result) in ("if(%s>=0)res=1.0;elseres=-1.0" % pops[0],)
                    # Python side: sign() evaluated on native numbers on both sides of and at the boundary
                    pyf = repo.func(EXPR, "sign")
                    pvals = {x: eval_native(repo, pyf, {pyf.args.args[0].arg: x}) for x in (-3, -0.5, -1e-300, 0, 0.0, 1e-300, 2, 1.5)}
                    okpy = all(isinstance(r, (int, float)) and not isinstance(r, bool) and r == (1 if x >= 0 else -1) for x, r in pvals.items())
                    chk.expect(ok1 and okpy, "R-C15-2", "SIGN: +1 for arg >= 0 else -1 on both sides", where, found="cpp: %s ; py: %s" % (result, "ok" if okpy else pvals))
                    opf = method_of(repo, cdef, "operation")
                    if opf is not None and opf.args.args:
                        vv = sp.Symbol("v", real=True)
                        o_ = SymExec(call_hook=py_calls).run(opf, {opf.args.args[0].arg: vv})
                        chk.expect(len(o_) == 1 and isinstance(o_[0].ret, sp.Basic) and o_[0].ret == sp.sign(vv), "R-C15-2", "%s.operation is sign(val)" % cname, loc(EXPR, opf),
                                   found=str(o_[0].ret) if o_ else None)
                else:
                    ok1 = len(pops) == 1 and op in UN_CPP and result == "res=" + UN_CPP[op].format(a=pops[0])
                    chk.expect(ok1, "R-C15-2", "C++ %s computes %s(arg)" % (op.upper(), op), where, expected="res=" + UN_CPP.get(op, "?").format(a="arg"), found="pops=%s %s" % (pops, result))
                    opf = method_of(repo, cdef, "operation")
                    if opf is not None and opf.args.args:
                        # the operation applied to a symbol denotes the function of its opcode (whatever the parameter / temporaries are called)
                        vv = sp.Symbol("v", real=True)
                        wantf = {"negation": -vv, "abs": sp.Abs(vv)}.get(op, getattr(sp, op)(vv) if hasattr(sp, op) else None)
                        o_ = [x for x in SymExec(call_hook=py_calls).run(opf, {opf.args.args[0].arg: vv})]
                        gotf = o_[0].ret if len(o_) == 1 and o_[0].raised is None else None
                        want = "-val" if op == "negation" else "%s(val)" % op
                        chk.expect(wantf is not None and isinstance(gotf, sp.Basic) and is_zero(gotf - wantf), "R-C15-2", "%s.operation is %s" % (cname, want), loc(EXPR, opf),
                                   expected=str(wantf), found=str(gotf))
            elif cname == "IfElseOperator":
                ok3 = len(pops) == 3 and result == "if(%s==1){res=%s;}else{res=%s;}" % (pops[2], pops[1], pops[0])
                ok3 = ok3 or (len(pops) == 3 and re.sub(r"[{}]", "", result) == "if(%s==1)res=%s;elseres=%s" % (pops[2], pops[1], pops[0]))
                chk.expect(ok3, "R-C15-2", "C++ IF_ELSE pops else, then, condition and selects `then` iff condition == 1", where, found="pops=%s %s" % (pops, result))
            elif cname == "InequalityOperator":
                r = re.sub(r"[{}]", "", result)
                ok3 = len(pops) == 3 and r == "if(%s>=%s&&%s<=%s)res=1.0;elseres=0.0" % (pops[2], pops[1], pops[2], pops[0])
                chk.expect(ok3, "R-C15-2", "C++ INEQUALITY pops ub, lb, body and yields 1.0 iff lb <= body <= ub", where, found="pops=%s %s" % (pops, result))
                # Python side: evaluate() run on concrete bounds 1, 3 and body values below / at / between / at / above them, body leaf or not
                ev = repo.func(EXPR, "InequalityOperator.evaluate")
                f_body, f_lb, f_ub = ctor_fields(repo, "InequalityOperator")
                bad_pts = []
                for leaf in (True, False):
                    for b in (0, 1, 2, 3, 4, 0.999, 3.001):
                        vals = {"self.%s.value" % f_lb: 1, "self.%s.value" % f_ub: 3}
                        if leaf:
                            vals["self.%s.value" % f_body] = b

                        def ch(name, node, args, kwargs, st, ex, recv, leaf=leaf):
                            if name == "self.%s.is_leaf" % f_body:
                                return leaf
                            return NotImplemented

                        def ah(base, attr, st, vals=vals):
                            if isinstance(base, Opaque) and (base.text + "." + attr) in vals:
                                return vals[base.text + "." + attr]
                            return NotImplemented
                        ex = SymExec(call_hook=ch, attr_hook=ah)
                        vd = {} if leaf else {"self.%s" % f_body: b}
                        outs = ex.run(ev, {ev.args.args[1].arg: vd, "self": Opaque("self")})
                        r_ = outs[0].env[ev.args.args[1].arg].get("self") if len(outs) == 1 else None
                        if not (isinstance(r_, bool) and r_ == (1 <= b <= 3)):
                            bad_pts.append((leaf, b, r_))
                chk.expect(not bad_pts, "R-C15-2", "InequalityOperator.evaluate is lb <= body <= ub", loc(ev), expected="True exactly for 1 <= body <= 3 (bounds 1, 3)",
                           found=["body %s=%s -> %s" % ("leaf" if l else "expr", b, r) for l, b, r in bad_pts])
        chk.expect("stack[stack_ndx]=res" in cxx.norm(body) and "++stack_ndx" in cxx.norm(body), "R-C15-2", "_evaluate pushes the result of every operation", CPP)
        chk.floor("R-C15-2", 4 + 4 + 2 + 8 + 2 + 18)

    # ---------------------------------------------------------------- R-C15-3 derivative rules
    with chk.part("R-C15-3 derivative rules"):
        D = sp.Symbol("der", real=True)
        v1, v2, v = sp.Symbol("v1", positive=True), sp.Symbol("v2", real=True), sp.Symbol("v", real=True)
        bin_ops = {"add": v1 + v2, "sub": v1 - v2, "mul": v1 * v2, "div": v1 / v2, "pow": v1 ** v2}
        un_ops = {"negation": -v, "exp": sp.exp(v), "log": sp.log(v), "sin": sp.sin(v), "cos": sp.cos(v), "tan": sp.tan(v), "asin": sp.asin(v),
                  "acos": sp.acos(v), "atan": sp.atan(v)}
        for cname, (base, op, cdef) in sorted(ops.items()):
            dfn = [n for n in cdef.body if isinstance(n, ast.FunctionDef) and n.name == "diff_down"]
            if not dfn:
                chk.bad("R-C15-3", "%s defines diff_down" % cname, loc(EXPR, cdef))
                continue
            dfn = dfn[0]
            dfn._rel, dfn._qual = EXPR, cname + ".diff_down"
            chk.fn(dfn)
            if base == "BinaryOperator":
                f = bin_ops.get(op)
                combos = [(False, False), (False, True), (True, True), (True, False)] if op == "pow" else [None]
                for combo in combos:
                    def ch(name, node, args, kwargs, st, ex, recv, combo=combo):
                        if combo is not None and name == "self._operand2.is_leaf":
                            return combo[0]
                        if combo is not None and name == "self._operand2.is_variable_type":
                            return combo[1]
                        return py_calls(name, node, args, kwargs, st, ex, recv)
                    ex = SymExec(call_hook=ch)
                    val = {"self._operand1": v1, "self._operand2": v2, "self": f}
                    der = {"self": D, "self._operand1": sp.Integer(0), "self._operand2": sp.Integer(0)}
                    outs = ex.run(dfn, {"val_dict": val, "der_dict": der, "self": Opaque("self")})
                    if len(outs) != 1:
                        raise ExtractError("%s.diff_down: %d paths" % (cname, len(outs)))
                    o = outs[0]
                    d1, d2 = o.env["der_dict"]["self._operand1"], o.env["der_dict"]["self._operand2"]
                    tag = "" if combo is None else " [exponent %s, %s]" % ("leaf" if combo[0] else "expression", "variable type" if combo[1] else "constant type")
                    chk.expect(is_zero(sp.sympify(d1) - D * sp.diff(f, v1)), "R-C15-3", "%s.diff_down: operand1 receives der * d(op)/d(operand1)%s" % (cname, tag), loc(dfn),
                               expected=str(D * sp.diff(f, v1)), found=str(d1))
                    full = D * sp.diff(f, v2)
                    if combo == (True, False):
                        okd = is_zero(sp.sympify(d2)) or is_zero(sp.sympify(d2) - full)     # constant exponent: derivative not needed
                    else:
                        okd = is_zero(sp.sympify(d2) - full)
                    chk.expect(okd, "R-C15-3", "%s.diff_down: operand2 receives der * d(op)/d(operand2)%s" % (cname, tag), loc(dfn),
                               "every variable reached through the exponent needs v1**v2*log(v1) propagated, else its Jacobian entry is silently 0", expected=str(full), found=str(d2))
                # the same rule with BOTH operands the same node (x*x, e*e with a shared sub-expression): one key in both dictionaries, the adjoint
                # dictionary a real mapping (a value read before the first store is stale for the second), the node's adjoint starting at a symbol A
                fa1, fa2 = ctor_fields(repo, "BinaryOperator")[:2]
                u, A0 = sp.Symbol("u", positive=True), sp.Symbol("A", real=True)
                fu = f.subs({v1: u, v2: u}, simultaneous=True)
                for combo in combos:
                    def ch(name, node, args, kwargs, st, ex, recv, combo=combo):
                        if combo is not None and name == "self.%s.is_leaf" % fa2:
                            return combo[0]
                        if combo is not None and name == "self.%s.is_variable_type" % fa2:
                            return combo[1]
                        return py_calls(name, node, args, kwargs, st, ex, recv)

                    def same_node(base_, attr, st):
                        if isinstance(base_, Opaque) and base_.text == "self" and attr in (fa1, fa2):
                            return Opaque("u")
                        return NotImplemented
                    ex = SymExec(call_hook=ch, attr_hook=same_node)
                    outs = [o for o in ex.run(dfn, {"val_dict": {"u": u, "self": fu}, "der_dict": {"self": D, "u": A0}, "self": Opaque("self")}) if o.raised is None]
                    if len(outs) != 1:
                        raise ExtractError("%s.diff_down (operands aliased): %d paths" % (cname, len(outs)))
                    got = sp.sympify(outs[0].env["der_dict"]["u"])
                    want = A0 + D * sp.diff(fu, u)
                    oka = is_zero(got - want)
                    if combo == (True, False):       # a constant leaf to its own power: only the base term is required
                        oka = oka or is_zero(got - (A0 + D * sp.diff(f, v1).subs({v1: u, v2: u}, simultaneous=True)))
                    tag = "" if combo is None else " [exponent %s, %s]" % ("leaf" if combo[0] else "expression", "variable type" if combo[1] else "constant type")
                    chk.expect(oka, "R-C15-3", "%s.diff_down with both operands the same node accumulates der * d op(u,u)/du%s" % (cname, tag), loc(dfn),
                               "when operand1 is operand2 (x*x, e*e) both contributions go to ONE adjoint entry: reading both entries before writing them makes the second "
                               "store overwrite the first and a term of the derivative is lost", expected=str(want), found=str(got))
            elif base == "UnaryOperator":
                ex = SymExec(call_hook=py_calls)
                val = {"self._operand": v, "self": un_ops.get(op, sp.Symbol("f"))}
                der = {"self": D, "self._operand": sp.Integer(0)}
                outs = ex.run(dfn, {"val_dict": val, "der_dict": der, "self": Opaque("self")})
                d_ = sp.sympify(outs[0].env["der_dict"]["self._operand"])
                if op in un_ops:
                    want = D * sp.diff(un_ops[op], v)
                    chk.expect(is_zero(sp.simplify(d_ - want)), "R-C15-3", "%s.diff_down adds der * d(%s)/d(operand)" % (cname, op), loc(dfn), expected=str(want), found=str(d_))
                elif op == "abs":
                    want = D * sp.Piecewise((1, v >= 0), (-1, True))
                    chk.expect(sp.simplify(d_ - want) == 0, "R-C15-3", "AbsOperator.diff_down adds der * (+1 if operand >= 0 else -1)", loc(dfn), expected=str(want), found=str(d_))
                elif op == "sign":
                    chk.expect(d_ == 0, "R-C15-3", "SignOperator.diff_down adds nothing (piecewise constant)", loc(dfn), found=str(d_))
            elif cname == "IfElseOperator":
                ex = SymExec(call_hook=py_calls)
                c = sp.Symbol("cond")
                val = {"self._if_arg": c, "self._then_arg": sp.Symbol("t"), "self._else_arg": sp.Symbol("e")}
                der = {"self": D, "self._if_arg": sp.Integer(0), "self._then_arg": sp.Integer(0), "self._else_arg": sp.Integer(0)}
                outs = ex.run(dfn, {"val_dict": val, "der_dict": der, "self": Opaque("self")})
                dd = outs[0].env["der_dict"]
                wt = sp.Piecewise((D, sp.Eq(c, 1)), (0, True))
                we = sp.Piecewise((0, sp.Eq(c, 1)), (D, True))
                chk.expect(sp.simplify(dd["self._then_arg"] - wt) == 0 and sp.simplify(dd["self._else_arg"] - we) == 0 and dd["self._if_arg"] == 0, "R-C15-3",
                           "IfElseOperator.diff_down routes der to the selected branch only", loc(dfn), found=str(dd))
            elif cname == "InequalityOperator":
                f_body = ctor_fields(repo, "InequalityOperator")[0]
                der = {"self": D, "self." + f_body: sp.Integer(0)}
                outs = SymExec(call_hook=py_calls).run(dfn, {"val_dict": {"self." + f_body: v, "self": sp.Symbol("f")}, "der_dict": der, "self": Opaque("self")})
                chk.expect(all(is_zero(sp.sympify(o.env["der_dict"]["self." + f_body])) and not o.stores() for o in outs if o.raised is None), "R-C15-3",
                           "InequalityOperator.diff_down adds nothing", loc(dfn), found=[str(o.env["der_dict"]) for o in outs])
        # forward sweep: a leaf's adjoint that is already in the dictionary (the leaf is used by an earlier operator, or is the other operand of this one)
        # is kept, a missing one starts at 0 -- decided on the adjoint dictionary as a real mapping, operands distinct and aliased
        fb1, fb2 = ctor_fields(repo, "BinaryOperator")[:2]
        A0 = sp.Symbol("A", real=True)
        for mname in ("diff_up", "diff_up_symbolic"):
            ufn = repo.func(EXPR, "BinaryOperator." + mname)
            chk.fn(ufn)
            for aliased in (False, True):
                keys = {fb1: "u", fb2: "u" if aliased else "w"}

                def ch(name, node, args, kwargs, st, ex, recv):
                    if isinstance(node.func, ast.Attribute) and node.func.attr == "is_leaf" and not args:
                        return True
                    return NotImplemented

                def node_of(base_, attr, st, keys=keys):
                    if isinstance(base_, Opaque) and base_.text == "self" and attr in keys:
                        return Opaque(keys[attr])
                    return NotImplemented
                ex = SymExec(call_hook=ch, attr_hook=node_of)

                def member(txt, test, st, ex=ex):
                    neg = False
                    while isinstance(test, ast.UnaryOp) and isinstance(test.op, ast.Not):
                        test = test.operand
                    if isinstance(test, ast.Compare) and len(test.ops) == 1 and isinstance(test.ops[0], (ast.In, ast.NotIn)):
                        a_, b_ = ex.ev(test.left, st), ex.ev(test.comparators[0], st)
                        if isinstance(b_, dict) and isinstance(a_, Opaque):
                            return (a_.text in b_) == isinstance(test.ops[0], ast.In)
                    return None
                ex.test_hook = member
                outs = [o for o in ex.run(ufn, {"val_dict": {}, "der_dict": {"u": A0}, "self": Opaque("self")}) if o.raised is None]
                dd = outs[0].env["der_dict"] if len(outs) == 1 else {}
                oku = len(outs) == 1 and dd.get("u") == A0 and (aliased or (dd.get("w") is not None and is_zero(sp.sympify(dd.get("w")))))
                chk.expect(oku, "R-C15-3", "BinaryOperator.%s keeps the adjoint a leaf operand already has and starts a new one at 0 [%s]" % (mname, "operands the same leaf" if aliased else "distinct leaves"),
                           loc(ufn), "a leaf shared by several operators (or used twice by one) accumulates its adjoint over all of them: resetting it drops the earlier contributions",
                           expected="u: A" + ("" if aliased else ", w: 0"), found=str(dd))
        chk.floor("R-C15-3", (4 + 4) * 2 + 11 + 2 + (4 + 4) + 4)
        # operator overloads: the value denoted by each method of ExpressionBase, for `other` = 0, 1 and two other numbers, obtained by running the
        # method (whatever its statement shape) with  self._binary_operation_helper(x, K) := self <op of K> x  and  Float(x) := x
        eb = repo.cls(EXPR, "ExpressionBase")
        SELF = sp.Symbol("self", positive=True)
        cls_op = {c: o for c, (b, o, _) in ops.items() if b == "BinaryOperator"}
        sym_op = {"add": lambda a, b: a + b, "sub": lambda a, b: a - b, "mul": lambda a, b: a * b, "div": lambda a, b: a / b, "pow": lambda a, b: a ** b}

        def overload_hook(name, node, args, kwargs, st, ex, recv):
            if isinstance(node.func, ast.Attribute) and node.func.attr == "_binary_operation_helper" and len(args) == 2:
                r = recv if recv is not None else ex.ev(node.func.value, st)
                k = args[1].text if isinstance(args[1], Opaque) else None
                if isinstance(r, sp.Basic) and cls_op.get(k) in sym_op:
                    return sym_op[cls_op[k]](r, ex.S(args[0]))
                raise ExtractError("cannot interpret %s" % unparse(node))
            if isinstance(node.func, ast.Attribute) and node.func.attr == "_unary_operation_helper" and len(args) == 1 and isinstance(args[0], Opaque) \
                    and ops.get(args[0].text, (None, None))[1] == "negation":
                r = recv if recv is not None else ex.ev(node.func.value, st)
                return -ex.S(r)
            if name == "Float" and len(args) == 1:
                return args[0]
            return NotImplemented

        def denotes(f, x):
            r = eval_native(repo, f, {f.args.args[0].arg: SELF, f.args.args[1].arg: x}, overload_hook)
            return r if isinstance(r, str) else sp.sympify(r)

        probes = (sp.Rational(5, 2), 7)
        for nm, cls_, refl in (("__rsub__", "SubtractOperator", True), ("__rtruediv__", "DivideOperator", True), ("__rpow__", "PowerOperator", True),
                               ("__radd__", "AddOperator", True), ("__rmul__", "MultiplyOperator", True),
                               ("__sub__", "SubtractOperator", False), ("__truediv__", "DivideOperator", False), ("__pow__", "PowerOperator", False),
                               ("__add__", "AddOperator", False), ("__mul__", "MultiplyOperator", False)):
            f = method_of(repo, eb, nm)
            if f is None:
                chk.bad("R-C15-3", "ExpressionBase.%s exists" % nm, loc(EXPR, eb))
                continue
            if cls_op.get(cls_) not in sym_op:
                raise AnchorError("binary operator class %s vanished" % cls_)
            op_ = sym_op[cls_op[cls_]]
            want = (lambda x: op_(sp.sympify(x), SELF)) if refl else (lambda x: op_(SELF, sp.sympify(x)))
            got = {x: denotes(f, x if not isinstance(x, sp.Rational) or x.is_Integer else float(x)) for x in probes}
            ok_r = all(not isinstance(g, str) and is_zero(g - want(x)) for x, g in got.items())
            if refl:
                chk.expect(ok_r, "R-C15-3", "ExpressionBase.%s computes Float(other) <op> self (foreign value on the LEFT)" % nm, loc(f),
                           "a reflected operator must keep the operand order of the source expression", expected=str(want(probes[0])), found=str(got[probes[0]]))
            else:
                chk.expect(ok_r, "R-C15-3", "ExpressionBase.%s builds %s(self, other)" % (nm, cls_), loc(f), expected=str(want(probes[0])), found=str(got[probes[0]]))
            # short-cuts for 0 / 1 must be algebraic identities (raising is right only where the operation is undefined)
            bad_sc = {}
            for x in (0, 1, 0.0, 1.0):
                g, w = denotes(f, x), want(int(x))
                undefined = w.has(sp.zoo, sp.nan, sp.oo)
                if (g == "raise") != undefined or (g != "raise" and not is_zero(g - w)):
                    bad_sc[x] = (str(g), str(w))
            chk.expect(not bad_sc, "R-C15-3", "ExpressionBase.%s constant short-cuts are identities" % nm, loc(f), expected={k: v[1] for k, v in bad_sc.items()},
                       found={k: v[0] for k, v in bad_sc.items()})
    # ---------------------------------------------------------------- R-C15-4 sibling bookkeeping
    with chk.part("R-C15-4 sibling bookkeeping"):
        model = repo.cls(AML, "Model")
        mm = repo.methods(model)
        maps = {"var": "_var_cvar_map", "param": "_param_cparam_map", "float": "_float_cfloat_map"}
        for kind, own in maps.items():
            for pre in ("_increment_", "_decrement_"):
                f = mm.get(pre + kind)
                if f is None:
                    raise AnchorError("Model.%s%s vanished" % (pre, kind))
                chk.fn(f)
                usedmaps = {n.attr for n in walk(f) if isinstance(n, ast.Attribute) and n.attr.endswith("_map") and dotted(n.value) == "self"}
                chk.expect(usedmaps == {own}, "R-C15-4", "Model.%s%s touches only its own leaf map %s" % (pre, kind, own), loc(f),
                           "the three sibling methods differ only by the systematic renaming var/param/float; reading a sibling's map raises KeyError for a shared leaf",
                           expected=[own], found=sorted(usedmaps))
                if pre == "_increment_":
                    addc = [c for c in calls(f) if last_attr(c) == "add_" + kind]
                    chk.expect(len(addc) == 1, "R-C15-4", "Model._increment_%s creates the C++ leaf with add_%s" % (kind, kind), loc(f), found=[call_name(c) for c in calls(f)])
                    # per path of the method: the path that creates the C++ leaf leaves the count at 1, every other path at <old count> + 1
                    pn = f.args.args[1].arg
                    ex_ = SymExec()
                    outs_ = [o for o in ex_.run(f, {"self": Opaque("self")}) if o.raised is None]
                    okc, seen_ = bool(outs_), set()
                    for o in outs_:
                        creates = any(e[2][0].endswith(".add_" + kind) for e in o.calls())
                        stv = [e[2] for e in o.stores("self._refcounts[%s]" % pn)]
                        seen_.add(creates)
                        try:
                            want_ = sp.Integer(1) if creates else ex_.sym("self._refcounts[%s]" % pn) + 1
                            okc = okc and bool(stv) and is_zero(ex_.S(stv[-1]) - want_)
                        except ExtractError:
                            okc = False
                    chk.expect(okc and seen_ == {True, False}, "R-C15-4", "Model._increment_%s counts references (1 on creation, +1 afterwards)" % kind, loc(f),
                               found=[(o.label(), [str(e[2]) for e in o.stores("self._refcounts")]) for o in outs_])
                else:
                    rm = [c for c in calls(f) if last_attr(c) == "remove_" + kind]
                    chk.expect(len(rm) == 1, "R-C15-4", "Model._decrement_%s removes the C++ leaf with remove_%s when the count reaches zero" % (kind, kind), loc(f))
        # (which leaves a constraint registers, records and releases is decided on histories by R-C15-12: reference counts equal the number of recording constraints,
        #  the evaluator holds exactly the referenced leaves, nothing dangles)
        chk.floor("R-C15-4", 6 * 2)

    # ---------------------------------------------------------------- R-C15-5 dispatch parity
    with chk.part("R-C15-5 dispatch parity"):
        sa_, da_ = mm.get("__setattr__"), mm.get("__delattr__")
        if sa_ is None or da_ is None:
            raise AnchorError("Model.__setattr__/__delattr__ vanished")

        def type_tests(f):
            out = set()
            for n in walk(f):
                if isinstance(n, ast.Compare) and isinstance(n.left, ast.Call) and call_name(n.left) == "type" and unparse(n.left.args[0]) == "val":
                    out.add((type(n.ops[0]).__name__, unparse(n.comparators[0])))
            return out
        ts, td = type_tests(sa_), type_tests(da_)
        chk.expect(ts == td, "R-C15-5", "Model.__delattr__ dispatches on the same type tests as __setattr__", loc(da_),
                   "what __setattr__ registers with the evaluator, __delattr__ must un-register (a test that can never be true leaves constraints registered)",
                   expected=sorted(ts), found=sorted(td))
        for n in walk(da_):
            if isinstance(n, ast.Compare) and isinstance(n.left, ast.Call) and call_name(n.left) == "type":
                rhs = n.comparators[0]
                chk.expect(not isinstance(rhs, ast.Call), "R-C15-5", "type test `%s` compares with a class, not an instance" % unparse(n), loc(da_, n))
        reg_s = {unparse(t[1]) if not isinstance(t[1], str) else t[1] for t in ts}
        chk.expect(any(last_attr(c) == "_register_constraint" for c in calls(sa_)) and any(last_attr(c) == "_remove_constraint" for c in calls(da_)), "R-C15-5",
                   "setattr registers / delattr removes constraints", loc(da_))
        chk.floor("R-C15-5", 3)

    # ---------------------------------------------------------------- R-C15-7 constant folding only folds constants
    with chk.part("R-C15-7 constant folding only folds constants"):
        # building an expression may evaluate eagerly (return a number instead of an operator) only when EVERY operand is a constant
        # (a Float or a native number): a Param or Var read at build time freezes a value that "changing values" later must affect.
        fold_rules(repo, chk)

    # ---------------------------------------------------------------- R-C15-10 direct evaluation reads the live value
    with chk.part("R-C15-10 direct evaluation reads the live value"):
        live_value_rules(repo, chk)

    # ---------------------------------------------------------------- R-C15-11 numpy scalar constants build like python numbers
    with chk.part("R-C15-11 numpy scalar constants build like python numbers"):
        constant_type_rules(repo, chk)
        chk.note("known, unrepaired (outside the simulator's models): the Jacobian of if_else does not mask the inactive branch - IfElseOperator.diff_down "
                 "propagates if_else(cond, der, 0) into the branch not taken, so an undefined partial there (nan / inf) gives 0*nan = nan in the compiled Jacobian; noted, not a rule")

    # ---------------------------------------------------------------- R-C15-8 expression DAG discipline
    with chk.part("R-C15-8 expression DAG discipline"):
        # (a) wherever the operators of another expression are merged into an operator list, operators already present are skipped (a shared
        #     sub-expression is listed once: reverse differentiation visits every listed operator once);
        # (b) get_rpn builds each operator's program in a NEW list: an operand's program may be needed again by another parent.
        dag_rules(repo, chk, rpn_info)
        pipeline_rules(repo, chk)

    # ---------------------------------------------------------------- R-C15-9 "changing values": an assignment always reaches the compiled object
    with chk.part("R-C15-9 'changing values': an assignment always reaches the compiled object"):
        # Leaf._value is only a Python-side cache; the solver writes the live value into the compiled object without updating the cache, so the
        # setter may never skip the write-through on the strength of the cache
        from ..cfg import CFG
        vs = repo.func(EXPR, "Leaf.value", kind="setter")
        chk.fn(vs)
        g = CFG(vs)
        stores = g.nodes_where(lambda node, d: isinstance(node, ast.Assign) and unparse(node.targets[0]) in ("self._c_obj.value",))
        tests = g.nodes_where(lambda node, d: d["kind"] == "test" and "_c_obj" in unparse(node) and "None" in unparse(node))
        if not stores:
            raise ExtractError("Leaf.value setter: write-through to the compiled object not found")
        # edges that legitimately skip the store: the 'no compiled object' outcome of the _c_obj test
        skip_edges = []
        for t in tests:
            txt = unparse(g.node_ast(t))
            outcome = False if "is not None" in txt else True
            skip_edges += g.branch_edges(t, outcome)
        w = g.can_reach_avoiding(g.entry, {g.exit}, stores, drop_edges=skip_edges)
        chk.expect(w is None, "R-C15-9", "Leaf.value = v writes v into the compiled object on every path that has one", loc(vs),
                   "a path returns before `self._c_obj.value = val`: after a solve (which loads values into the compiled object only) assigning a value equal to the stale Python-side "
                   "cache is dropped and residuals / Jacobian stay at the solver's point", expected="no exit that bypasses the write-through", found=g.path_text(w) if w else None)



# ------------------------------------------------------------------ R-C15-10
def _class_property(repo, cname, name):
    """the getter of property `name` visible on class cname (single inheritance, most derived first)."""
    classes = repo.classes(EXPR)
    cur, seen = cname, set()
    while cur in classes and cur not in seen:
        seen.add(cur)
        for n in classes[cur].body:
            if isinstance(n, ast.FunctionDef) and n.name == name and any(dotted(d) == "property" for d in n.decorator_list):
                n._rel, n._qual = EXPR, "%s.%s" % (cur, name)
                return n
        nxt = None
        for b in classes[cur].bases:
            for a in ([b] if isinstance(b, ast.Name) else (b.args if isinstance(b, ast.Call) else [])):
                if isinstance(a, ast.Name) and a.id in classes:
                    nxt = a.id
        cur = nxt
    return None


def _run_on_mock(repo, cname, fn, mock, depth=0):
    """values a zero-argument method / property getter of class cname can return for the mock instance `mock` (a dict of attributes);
    other methods and properties of the class reached through self are evaluated the same way."""
    if depth > 6:
        raise ExtractError("%s: recursion while evaluating on a mock leaf" % cname)
    me = fn.args.args[0].arg
    ms = _class_methods(repo, cname)

    def attr_hook(base, attr, st):
        if base is st.env.get(me) and isinstance(base, dict) and attr not in base:
            g = _class_property(repo, cname, attr)
            if g is not None:
                vals = _run_on_mock(repo, cname, g, base, depth + 1)
                if len(vals) != 1:
                    raise ExtractError("%s.%s: %d values on a mock leaf" % (cname, attr, len(vals)))
                return vals[0]
        return NotImplemented

    def call_hook(name, node, args, kwargs, st, ex, recv):
        if isinstance(node.func, ast.Attribute) and isinstance(node.func.value, ast.Name) and node.func.value.id == me and not args and not kwargs \
                and node.func.attr in ms and len(ms[node.func.attr][1].args.args) == 1:
            vals = _run_on_mock(repo, cname, ms[node.func.attr][1], st.env[me], depth + 1)
            if len(vals) != 1:
                raise ExtractError("%s.%s(): %d values on a mock leaf" % (cname, node.func.attr, len(vals)))
            return vals[0]
        return NotImplemented
    ex = SymExec(call_hook=call_hook, attr_hook=attr_hook)
    outs = [o for o in ex.run(fn, {me: mock}) if o.raised is None]
    vals = []
    for o in outs:
        if not any(ex.same(o.ret, v) for v in vals):
            vals.append(o.ret)
    return vals


def live_value_rules(repo, chk):
    """direct evaluation of a bare leaf reads the live value: Leaf.evaluate() returns what the `value` property returns, not registered (cache) and
    registered (the compiled object's value; the solver writes only there)."""
    cache, live = sp.Symbol("python_side_cache"), sp.Symbol("compiled_object_value")
    states = (("not registered (_c_obj is None)", {"_value": cache, "_c_obj": None}, cache),
              ("registered (_c_obj set)", {"_value": cache, "_c_obj": {"value": live}}, live))
    n = 0
    for cname in ("Float", "Param", "Var"):
        ms = _class_methods(repo, cname)
        getter = _class_property(repo, cname, "value")
        if "evaluate" not in ms or getter is None:
            raise AnchorError("%s.evaluate / value property vanished" % cname)
        owner, fn = ms["evaluate"]
        fn._rel, fn._qual = EXPR, "%s.evaluate" % owner
        chk.fn(fn, getter)
        for label, mock, want in states:
            gv = _run_on_mock(repo, cname, getter, dict(mock))
            evv = _run_on_mock(repo, cname, fn, dict(mock))
            n += 1
            chk.expect(len(gv) == 1 and gv[0] == want, "R-C15-10", "%s.value reads %s when %s" % (cname, "the compiled object" if want is live else "the Python-side value", label),
                       loc(getter), expected=str(want), found=[str(x) for x in gv])
            chk.expect(len(evv) == 1 and len(gv) == 1 and evv[0] == gv[0], "R-C15-10", "%s.evaluate() returns what the value property returns when %s" % (cname, label), loc(fn),
                       "direct evaluation of a constraint that is a bare Var / Param reads the Python-side cache, which the solver does not update: it disagrees with "
                       "the compiled residual after a solve / load_var_values_from_x", expected=[str(x) for x in gv], found=[str(x) for x in evv])
    chk.floor("R-C15-10", 12)


# ------------------------------------------------------------------ R-C15-11
_ATTR_ERR = "<AttributeError: node method called on a native number>"


class _AssertExec(SymExec):
    """an assertion whose test is decided False ends the path (AssertionError)."""

    def stmt(self, s, st):
        if isinstance(s, ast.Assert) and self.decide(s.test, st) is False:
            st.raised = "AssertionError: " + unparse(s.test)
            st.done = True
            return [st]
        return SymExec.stmt(self, s, st)


def constant_outcome(fn, probes, tsets, aliases, is_method):
    """signature of what <fn> does when the parameters in `probes` ({param: constant}) are constants of a given type: per path
    (raised exception | returned value, conditions, whether the path asks a node method / attribute of the constant -> AttributeError)."""
    env = dict(tsets)
    args = fn.args.args
    defaults = dict(zip([a.arg for a in args[len(args) - len(fn.args.defaults):]], fn.args.defaults))
    for i, a in enumerate(args):
        if i == 0 and is_method:
            env[a.arg] = Opaque("self")
        elif a.arg in defaults and isinstance(defaults[a.arg], ast.Constant):
            env[a.arg] = defaults[a.arg].value
        else:
            env[a.arg] = Opaque(a.arg)
    env.update(probes)
    isprobe = lambda v: getattr(v, "tname", None) is not None

    def hook(name, node, args_, kwargs, st, ex, recv):
        if isinstance(node.func, ast.Attribute) and recv is not None and isprobe(recv):
            if node.func.attr in PREDS:
                return Opaque(_ATTR_ERR)         # only an error if the value is needed (and / or may short-circuit)
            st.conds.append((_ATTR_ERR, True))
            return Opaque(_ATTR_ERR)
        return NotImplemented

    def attr_hook(base, attr, st):
        if isprobe(base):
            st.conds.append((_ATTR_ERR, True))
            return Opaque(_ATTR_ERR)
        return NotImplemented
    nh, ah = type_name_hooks(aliases, attr_hook)
    ex = _AssertExec(call_hook=native_hook(hook, aliases), attr_hook=ah, name_hook=nh)
    sig = []
    for o in ex.run(fn, env):
        err = any(_ATTR_ERR in t for t, _ in o.conds)
        sig.append(("AttributeError" if err else (o.raised if o.raised is not None else "returns " + ex.text(o.ret)),
                    tuple(c for c in o.conds if _ATTR_ERR not in c[0])))
    return sorted(sig, key=str)


def constant_type_rules(repo, chk):
    """a numpy scalar constant (what numpy's own operator dispatch hands to the right-hand operand's forward operator) is treated exactly like the
    python number of the same value by every entry point of expression building that accepts python constants."""
    tsets, aliases = type_sets(repo)
    classes = repo.classes(EXPR)
    entries = []      # (label, fn, is_method)
    for n in repo.tree(EXPR).body:
        if isinstance(n, ast.FunctionDef):
            n._rel, n._qual = EXPR, n.name
            entries.append((n.name, n, False))
    fwd = ("__add__", "__sub__", "__mul__", "__truediv__", "__div__", "__pow__")
    for cname, c in sorted(classes.items()):
        for nm in fwd + ("_binary_operation_helper",):
            f = method_of(repo, c, nm)
            if f is not None and not any(dotted(d) == "abc.abstractmethod" for d in f.decorator_list):
                entries.append(("%s.%s" % (cname, nm), f, True))
    accepted = set()
    for label, fn, is_method in entries:
        params = [a.arg for a in fn.args.args][1 if is_method else 0:]
        combos = [(p,) for p in params]
        if len(params) >= 3:
            combos.append(tuple(params[1:]))
        for combo in combos:
            base = {}
            try:
                for py in ("float", "int"):
                    base[py] = constant_outcome(fn, {p: probe(py) for p in combo}, tsets, aliases, is_method)
            except ExtractError:
                continue          # not evaluable even for python numbers: not an entry point for constants
            if any(x[0] == "AttributeError" or x[0].startswith("AssertionError") for sig in base.values() for x in sig):
                continue          # the parameter does not take python constants (a class, a dict ...)
            accepted.add(label)
            chk.fn(fn)
            bad = {}
            for np_t, py in sorted(NUMPY_SCALARS.items()):
                got = constant_outcome(fn, {p: probe(np_t) for p in combo}, tsets, aliases, is_method)
                if got != base[py]:
                    bad[np_t] = [x[0] for x in got]
            chk.expect(not bad, "R-C15-11", "%s(%s) treats numpy scalar constants like python numbers" % (label, ", ".join(combo)), loc(fn),
                       "numpy hands np.float64 / float32 / int64 / int32 scalars to the forward operator of the right-hand operand: a constant test that admits only the exact "
                       "python types sends them down the expression-node path (AttributeError), although the same number as a python float builds",
                       expected={k: [x[0] for x in base[v]] for k, v in NUMPY_SCALARS.items() if k in bad}, found=bad)
    need = {"inequality", "if_else", "abs", "sign", "value", "Leaf._binary_operation_helper", "Float._binary_operation_helper", "expression._binary_operation_helper",
            "ExpressionBase.__add__", "ExpressionBase.__mul__"}
    if not need <= accepted:
        raise ExtractError("R-C15-11: entry points that no longer accept python constants (anchors moved?): %s" % sorted(need - accepted))
    chk.floor("R-C15-11", 25)


# ------------------------------------------------------------------ R-C15-7
KINDS = ("native", "Float", "Param", "Var", "expression")
PREDS = ("is_leaf", "is_float_type", "is_parameter_type", "is_variable_type", "is_expression_type")


def _class_methods(repo, cname):
    """methods visible on class cname of expr.py through single inheritance (most derived first)."""
    out = {}
    classes = repo.classes(EXPR)
    cur = cname
    seen = set()
    while cur in classes and cur not in seen:
        seen.add(cur)
        c = classes[cur]
        for n in c.body:
            if isinstance(n, ast.FunctionDef):
                out.setdefault(n.name, (cur, n))
        nxt = None
        for b in c.bases:
            if isinstance(b, ast.Name) and b.id in classes:
                nxt = b.id
            elif isinstance(b, ast.Call):
                for a in b.args:
                    if isinstance(a, ast.Name) and a.id in classes:
                        nxt = a.id
        cur = nxt
    return out


def _pred_table(repo):
    tab = {}
    for k in KINDS[1:]:
        ms = _class_methods(repo, k)
        for p in PREDS:
            if p in ms:
                rets = [r for r in walk(ms[p][1]) if isinstance(r, ast.Return)]
                v = const(rets[0].value, None) if rets else None
                if isinstance(v, bool):
                    tab[(k, p)] = v
    return tab




def _fold_outcome(repo, fn, kind, tab):
    """does <fn> (a _binary_operation_helper / _unary_operation_helper) return an eagerly evaluated number when the other operand is of `kind`?

    The method is run abstractly: type tests and the is_*_type()/is_leaf() predicates of the operand are answered from its kind (predicate table read
    from the classes), `Float(x)` is an operand of kind Float.  Folded = the returned value is (built from) the result of calling `<class>.operation(...)`
    rather than an expression node.  True / False; ExtractError if paths disagree."""
    params = [a.arg for a in fn.args.args]
    other = params[1] if kind is not None else None

    def kind_of(v):
        if isinstance(v, (int, float)) and not isinstance(v, bool):
            return "native"
        if isinstance(v, Opaque):
            if v.text == other:
                return kind
            m = re.match(r"^(Float|Param|Var|expression)\(", v.text)
            if m:
                return m.group(1)
        return None

    def hook(name, node, args, kwargs, st, ex, recv):
        if isinstance(node.func, ast.Attribute) and node.func.attr in PREDS and not args:
            r = recv if recv is not None else ex.ev(node.func.value, st)
            k = kind_of(r)
            if k == "native":
                return Opaque(_ATTR_ERR)     # AttributeError at build time if this value is ever needed (and/or short-circuits may skip it)
            if (k, node.func.attr) in tab:
                return tab[(k, node.func.attr)]
        if isinstance(node.func, ast.Attribute) and recv is not None and kind_of(recv) == "native":
            st.conds.append((_ATTR_ERR, True))      # any other method of a native number: this path raises
            return Opaque(_ATTR_ERR)
        if name == "isinstance" and len(args) == 2:
            k = kind_of(args[0])
            names = [t.text for t in (args[1] if isinstance(args[1], (list, tuple)) else [args[1]]) if isinstance(t, Opaque)]
            if k == "native":
                return False
            if k is not None and names:
                return k in names or (k in ("Float", "Param", "Var") and "Leaf" in names) or "ExpressionBase" in names or "Node" in names
        return NotImplemented

    env = dict(native_env(repo))
    env[params[0]] = Opaque("self")
    if kind is not None:
        env[other] = 2.5 if kind == "native" else Opaque(other)
    def attr_hook(base, attr, st):
        if kind_of(base) == "native":
            st.conds.append((_ATTR_ERR, True))
            return Opaque(_ATTR_ERR)
        return NotImplemented

    aliases = type_sets(repo)[1]
    nh, ah = type_name_hooks(aliases, attr_hook)
    ex = SymExec(call_hook=native_hook(hook, aliases), attr_hook=ah, name_hook=nh)
    outs = [o for o in ex.run(fn, env) if o.raised is None and not any(_ATTR_ERR in t for t, _ in o.conds)]
    if not outs:
        return False               # would raise at build time: no silent folding
    res = set()
    for o in outs:
        res.add(".operation(" in ex.text(o.ret) if o.ret is not None else False)
    if len(res) != 1:
        raise ExtractError("%s: folding not decidable for an operand of kind %s (%d paths)" % (getattr(fn, "_qual", fn.name), kind, len(outs)))
    return res.pop()


def fold_rules(repo, chk):
    tab = _pred_table(repo)
    if len(tab) < 12:
        raise ExtractError("type predicate table of expr.py incomplete: %s" % sorted(tab))
    n = 0
    for cname in ("Float", "Param", "Var", "expression"):
        ms = _class_methods(repo, cname)
        if "_binary_operation_helper" not in ms:
            raise AnchorError("%s._binary_operation_helper vanished" % cname)
        owner, fn = ms["_binary_operation_helper"]
        fn._rel = EXPR
        fn._qual = "%s._binary_operation_helper" % owner
        chk.fn(fn)
        for kind in KINDS:
            folded = _fold_outcome(repo, fn, kind, tab)
            want = cname == "Float" and kind in ("native", "Float")
            n += 1
            chk.expect(folded == want or (not folded and want), "R-C15-7",
                       "%s <op> %s is %s at build time" % (cname, kind, "folded to a number" if want else "kept as an operator (never folded)"), loc(fn),
                       "expression building evaluates %s <op> %s eagerly with the operand's current value: a later change of that value is not seen by the "
                       "compiled residual / Jacobian" % (cname, kind), expected="operator node" if not want else "number or operator", found="folded" if folded else "operator")
        owner, fn = ms["_unary_operation_helper"]
        fn._rel = EXPR
        fn._qual = "%s._unary_operation_helper" % owner
        folded = _fold_outcome(repo, fn, None, tab)
        n += 1
        chk.expect(folded == (cname == "Float") or not folded, "R-C15-7", "unary operators on a %s are %s" % (cname, "folded" if cname == "Float" else "kept as operators"), loc(fn),
                   found="folded" if folded else "operator")
    chk.floor("R-C15-7", 24)


def _expr_world(repo):
    from ..concrete import World, stdlib_overrides, Namespace
    ov, _state = stdlib_overrides()
    ov["six"] = Namespace("six", with_metaclass=lambda meta, *bases: (bases[0] if bases else object), string_types=(str,), integer_types=(int,))
    world = World(repo, ov, fuel=20000000)
    # collections.abc mix-ins (OrderedSet is a MutableSet): classes of the interpreted world, as in C14
    from .c14 import ABC_MIXINS
    from ..concrete import ClassRef
    for cd in ast.parse(ABC_MIXINS).body:
        world.overrides["collections.abc." + cd.name] = ClassRef(world.interp, cd, world.ctx(EXPR))
    return world


# expression DAGs with shared sub-expressions in every position (front / middle / end of the left operand's list, both sides, nested, through unary
# functions); each is a function of an `ops` object so that the same recipe builds the repository's expression (interpreted) and the sympy reference
def _dag_recipes():
    def r_front(o, x, y, z):        # documented case: the shared part leads the left operand's list
        e = o.add(o.mul(x, y), 1.0)
        return o.mul(e, o.add(e, y))

    def r_both(o, x, y, z):
        e = o.mul(x, y)
        return o.mul(o.add(e, 1.0), o.add(e, 2.0))

    def r_not_leading(o, x, y, z):  # the shared part is NOT at the front of the left operand's list
        e = o.mul(x, y)
        return o.mul(o.add(o.mul(2.0, x), e), e)

    def r_middle(o, x, y, z):
        e = o.sub(x, z)
        left = o.add(o.add(o.mul(y, y), e), o.div(z, y))
        return o.div(left, o.mul(e, e))

    def r_nested(o, x, y, z):
        a_ = o.mul(x, y)
        b_ = o.add(a_, x)
        c_ = o.mul(b_, a_)
        return o.add(o.sub(c_, o.mul(b_, z)), o.pow(a_, 2.0))

    def r_unary(o, x, y, z):
        e = o.fn("exp", o.mul(x, 0.5))
        s_ = o.fn("sin", o.add(e, y))
        return o.add(o.mul(s_, e), o.mul(o.fn("log", o.add(e, z)), s_))

    def r_twice_right(o, x, y, z):  # the right operand shares TWO separate parts with the left one, in the other order
        e1 = o.mul(x, z)
        e2 = o.add(y, z)
        left = o.add(o.mul(e1, 3.0), o.mul(e2, e2))
        right = o.sub(e2, e1)
        return o.mul(left, right)

    def r_power(o, x, y, z):
        e = o.add(x, y)
        return o.add(o.pow(e, o.mul(z, 0.5)), o.mul(e, z))
    def r_extended_first(o, x, y, z):   # other expressions were built ON TOP of this one before it is differentiated / registered itself
        base = o.add(o.mul(x, y), z)
        ext = o.sub(base, o.fn("exp", y))
        o.mul(ext, base)
        return base

    def r_extended_first_unary(o, x, y, z):
        base = o.mul(o.fn("sin", x), y)
        o.fn("exp", o.add(base, z))
        o.div(base, o.add(z, 2.0))
        return base
    return [("base used after it was extended", r_extended_first), ("base of a unary extension", r_extended_first_unary), ("e*(e + y)", r_front), ("(e + 1)*(e + 2)", r_both), ("(2x + e)*e", r_not_leading), ("(y*y + e + z/y) / (e*e)", r_middle),
            ("nested shares", r_nested), ("shared exp / sin", r_unary), ("two shared parts, other order", r_twice_right), ("shared base of a power", r_power)]


# ------------------------------------------------------------------------------------------------ R-C15-12 the Python side, end to end, on fixtures
def pipeline_rules(repo, chk):
    """R-C15-12 (T3, bounded to the fixture history): an aml.Model is built, edited and evaluated by the repository's own Python code (aml.py / expr.py run by
    sa/concrete.py) against sa/mockeval.py, a Python model of the compiled evaluator's protocol whose stack machine has the documented opcode semantics
    (R-C15-1/-2 tie those to the C++ text).  After every step of a history -- build, values set through Var.value and through the x vector, a constraint removed
    and another added, a parameter changed, constraints removed until a variable is released -- residual i equals the constraint reported at index i evaluated
    by sympy, and Jacobian entry (i, j) its partial derivative by the variable reported at index j; the evaluator is never left with a dangling or a leaked leaf."""
    import sympy as sp
    from ..concrete import ProgramError, Instance, NDArr
    from ..mockeval import MockEvaluator, MockEvaluatorError
    world = _expr_world(repo)
    for key in ("wntr.sim.aml.evaluator.Evaluator", "wntr.sim.aml.aml.Evaluator"):
        world.overrides[key] = MockEvaluator
    I = world.interp
    V, P, Con, Model = (world.function(*a) for a in ((EXPR, "Var"), (EXPR, "Param"), (AML, "Constraint"), (AML, "Model")))
    CE, ineq = world.function(EXPR, "ConditionalExpression"), world.function(EXPR, "inequality")
    mfn = repo.cls(AML, "Model")
    mfn._rel = AML

    def b(node, a, c):
        return I.binop(I._BIN, node, a, c, None)
    add, sub, mul, div, pw = (lambda a, c, n=n: b(n(), a, c) for n in (ast.Add, ast.Sub, ast.Mult, ast.Div, ast.Pow))
    fn = lambda name, a: I.call(world.function(EXPR, name), [a], {})
    call = lambda obj, meth, *a, **k: I.call(I.getattr_(obj, meth), list(a), k)
    sx, sy, sz, sp_, sq = sp.symbols("x y z p q", real=True)
    state = {"n": 0}

    def check(step, m, leaves, ref, values):
        """ref: {constraint name: sympy expression or [(condition, expr), ..., (True, expr)]}"""
        try:
            call(m, "set_structure")
            r = call(m, "evaluate_residuals")
            J = call(m, "evaluate_jacobian")
            dense = call(J, "toarray") if hasattr(J, "toarray") or isinstance(J, Instance) else J
        except MockEvaluatorError as e:
            chk.bad("R-C15-12", "model history, %s: the evaluator protocol is respected" % step, loc(mfn), "the compiled evaluator would read outside a leaf list / use a freed object here", found=str(e))
            return
        except ProgramError as e:
            if isinstance(e.exc, MockEvaluatorError):
                chk.bad("R-C15-12", "model history, %s: the evaluator protocol is respected" % step, loc(mfn), found="%s (line %s)" % (e, e.lineno))
                return
            raise ExtractError("R-C15-12 %s: the interpreted model code raised %s (line %s)" % (step, e, e.lineno))
        r = list(r.v) if isinstance(r, NDArr) else list(r)
        rows = [list(x.v) if isinstance(x, NDArr) else list(x) for x in (dense.v if isinstance(dense, NDArr) else dense)]
        sub_ = {sym: values[nm] for nm, sym in (("x", sx), ("y", sy), ("z", sz), ("p", sp_), ("q", sq))}
        bad_ = []
        vidx = {nm: I.getattr_(leaf, "index") for nm, leaf in leaves.items() if nm in ("x", "y", "z")}
        live = {nm: i for nm, i in vidx.items() if i is not None}
        if sorted(live.values()) != list(range(len(live))) or len(rows) != len(ref) or any(len(rw) != len(live) for rw in rows):
            bad_.append("indices %s for a %dx%d Jacobian" % (vidx, len(rows), len(rows[0]) if rows else 0))
        else:
            for cname, e in ref.items():
                i = I.getattr_(I.getattr_(m, cname), "index")
                if isinstance(e, list):
                    e = next(ex for cond, ex in e if cond is True or bool(cond.subs(sub_)))
                want = float(e.subs(sub_))
                if not (isinstance(i, int) and 0 <= i < len(r)) or abs(r[i] - want) > 1e-9 * max(1.0, abs(want)):
                    bad_.append("residual of %s (row %s): %r, direct evaluation %r" % (cname, i, r[i] if isinstance(i, int) and 0 <= i < len(r) else None, want))
                    continue
                for nm, sym in (("x", sx), ("y", sy), ("z", sz)):
                    if nm not in live:
                        continue
                    wd = float(sp.diff(e, sym).subs(sub_))
                    got = rows[i][live[nm]]
                    if abs(got - wd) > 1e-9 * max(1.0, abs(wd)):
                        bad_.append("d %s / d %s (row %s, column %s): %r, true derivative %r" % (cname, nm, i, live[nm], got, wd))
        # bookkeeping: the evaluator holds exactly the variables / parameters the remaining constraints mention; every reference count is the number of
        # constraints that recorded the leaf (a leaf incremented but not recorded is never released; one recorded twice is released too early)
        ev_ = I.getattr_(m, "_evaluator")
        mentioned = set()
        for e in ref.values():
            for ex_ in ([x_[1] for x_ in e] + [x_[0] for x_ in e if x_[0] is not True] if isinstance(e, list) else [e]):
                mentioned |= {str(s_) for s_ in ex_.free_symbols}
        held = {k_: len(v_) for k_, v_ in ev_.leaves.items()}
        want_held = {"var": len(mentioned & {"x", "y", "z"}), "param": len(mentioned & {"p", "q"})}
        if held["var"] != want_held["var"] or held["param"] != want_held["param"]:
            bad_.append("the evaluator holds %d variables / %d parameters, the constraints mention %d / %d" % (held["var"], held["param"], want_held["var"], want_held["param"]))
        counts = I.getattr_(m, "_refcounts")
        recs = [I.getattr_(m, a_) for a_ in ("_vars_referenced_by_con", "_params_referenced_by_con", "_floats_referenced_by_con")]
        for leaf, cnt in list(counts.items()):
            n_rec = sum(1 for rec in recs for con_, set_ in rec.items() if any(l_ is leaf for l_ in I.iterate(set_)))
            if cnt != n_rec:
                bad_.append("reference count %r of %s but %d constraint(s) recorded it" % (cnt, I.getattr_(leaf, "name") or "a constant", n_rec))
        if held["float"] != len(I.getattr_(m, "_float_cfloat_map")):
            bad_.append("the evaluator holds %d constants, the model maps %d" % (held["float"], len(I.getattr_(m, "_float_cfloat_map"))))
        state["n"] += 1
        chk.expect(not bad_, "R-C15-12", "model history, %s: residuals and Jacobian equal direct evaluation at the reported indices" % step, loc(mfn),
                   "aml.py / expr.py interpreted against a Python model of the compiled evaluator (sa/mockeval.py)", expected="%d residuals, %dx%d Jacobian as computed by sympy" % (len(ref), len(ref), len(live)),
                   found=bad_[:4])

    def setv(leaves, values, **new):
        for nm, v in new.items():
            values[nm] = v
            I.setattr_(leaves[nm], "value", v)
    try:
        m = Model()
        leaves = {"x": V(1.0), "y": V(2.0), "z": V(0.5), "p": P(1.5), "q": P(-0.75)}
        values = {"x": 1.0, "y": 2.0, "z": 0.5, "p": 1.5, "q": -0.75}
        for nm, leaf in leaves.items():
            I.setattr_(m, nm, leaf)
        x, y, z, p_, q = (leaves[k] for k in "xyzpq")
        I.setattr_(m, "c1", Con(sub(add(mul(x, y), mul(2.0, p_)), 3.0)))          # 2.0*p: a constant times a parameter must stay a function of the parameter
        I.setattr_(m, "c2", Con(sub(div(pw(add(x, z), 2.0), y), mul(fn("sin", z), q))))
        ce = CE()
        d_ = sub(x, y)
        call(ce, "add_condition", ineq(d_, ub=0.0), add(mul(x, x), mul(z, p_)))
        call(ce, "add_condition", ineq(d_, ub=2.0), sub(mul(fn("abs", x), z), y))
        call(ce, "add_final_expr", add(fn("exp", mul(z, 0.1)), x))
        I.setattr_(m, "c3", Con(ce))
        ref = {"c1": sx * sy + 2 * sp_ - 3, "c2": (sx + sz) ** 2 / sy - sp.sin(sz) * sq,
               "c3": [(sx - sy <= 0, sx * sx + sz * sp_), (sx - sy <= 2, sp.Abs(sx) * sz - sy), (True, sp.exp(sz / 10) + sx)]}
        check("as built (first branch of the conditional constraint)", m, leaves, ref, values)
        setv(leaves, values, x=3.0)
        check("x changed through Var.value (second branch)", m, leaves, ref, values)
        setv(leaves, values, x=6.5, z=-0.25)
        check("x, z changed through Var.value (final branch, negative z)", m, leaves, ref, values)
        # values loaded through the x vector, in the evaluator's own variable order
        call(m, "set_structure")
        order = sorted(("x", "y", "z"), key=lambda nm: I.getattr_(leaves[nm], "index"))
        newv = {"x": 0.75, "y": 1.25, "z": 2.0}
        call(m, "load_var_values_from_x", [newv[nm] for nm in order])
        values.update(newv)
        got = {nm: I.getattr_(leaves[nm], "value") for nm in order}
        chk.expect(got == newv, "R-C15-12", "model history: values loaded from x are what Var.value reports", loc(mfn), expected=newv, found=got)
        check("values loaded through the x vector", m, leaves, ref, values)
        # the Python-side cache of x still holds 6.5 (the solver / load path writes the compiled object only): assigning that very value must reach the evaluator
        setv(leaves, values, x=6.5)
        check("x assigned the value its stale Python-side cache holds", m, leaves, ref, values)
        setv(leaves, values, x=0.75)
        # remove a constraint, add another one on the same variables
        I.delattr_(m, "c2")
        I.setattr_(m, "c4", Con(add(div(z, y), q)))
        ref.pop("c2")
        ref["c4"] = sz / sy + sq
        check("c2 removed, c4 added", m, leaves, ref, values)
        setv(leaves, values, p=-2.0, q=4.0)
        check("parameters changed", m, leaves, ref, values)
        # remove until x is no longer referenced: the evaluator must drop it, the Python object keeps its last value
        I.delattr_(m, "c1")
        I.delattr_(m, "c3")
        I.setattr_(m, "c5", Con(sub(add(y, z), 1.0)))
        ref = {"c4": sz / sy + sq, "c5": sy + sz - 1}
        ev = I.getattr_(m, "_evaluator")
        released = I.getattr_(x, "_c_obj") is None and len(ev.leaves["var"]) == 2
        chk.expect(released and I.getattr_(x, "value") == values["x"], "R-C15-12", "model history: a variable no constraint refers to any more is released and keeps its value", loc(mfn),
                   expected="x without a compiled object, 2 variables in the evaluator, x.value = %r" % values["x"], found="compiled object: %r, %d variables, x.value = %r" % (I.getattr_(x, "_c_obj"), len(ev.leaves["var"]), I.getattr_(x, "value")))
        check("c1 and c3 removed, c5 added (x released)", m, {k: v for k, v in leaves.items() if k != "x"}, ref, values)
        # and back: x is used again after its release
        I.delattr_(m, "c5")
        I.setattr_(m, "c6", Con(sub(mul(x, z), y)))
        I.setattr_(m, "c7", Con(add(pw(x, 2.0), mul(y, p_))))
        ref = {"c4": sz / sy + sq, "c6": sx * sz - sy, "c7": sx ** 2 + sy * sp_}
        check("x used again after its release", m, leaves, ref, values)
        # ONE expression object registered twice under DIFFERENT leaf numberings: a condition shared by two piecewise constraints whose branches mention
        # different leaves first, and an expression used as a plain constraint, removed, and used again as a branch of a piecewise constraint.  The
        # reverse-Polish program refers to positions in the leaf list of the constraint being registered: it must be compiled for each registration.
        shared_cond = ineq(sub(z, y), ub=0.0)
        ce8, ce9 = CE(), CE()
        call(ce8, "add_condition", shared_cond, add(mul(x, p_), mul(y, z)))
        call(ce8, "add_final_expr", sub(x, mul(2.0, z)))
        call(ce9, "add_condition", shared_cond, sub(mul(q, q), mul(z, y)))
        call(ce9, "add_final_expr", add(q, y))
        I.delattr_(m, "c6")
        I.delattr_(m, "c7")
        ref.pop("c6")
        ref.pop("c7")
        I.setattr_(m, "c8", Con(ce8))
        I.setattr_(m, "c9", Con(ce9))
        ref["c8"] = [(sz - sy <= 0, sx * sp_ + sy * sz), (True, sx - 2 * sz)]
        ref["c9"] = [(sz - sy <= 0, sq * sq - sz * sy), (True, sq + sy)]
        check("a condition object shared by two piecewise constraints (branch taken)", m, leaves, ref, values)
        setv(leaves, values, z=5.0)
        check("a condition object shared by two piecewise constraints (final branch)", m, leaves, ref, values)
        setv(leaves, values, z=2.0)
        e_sh = add(mul(x, z), q)
        I.delattr_(m, "c4")
        ref.pop("c4")
        I.setattr_(m, "c10", Con(e_sh))
        ref["c10"] = sx * sz + sq
        check("an expression used as a plain constraint", m, leaves, ref, values)
        I.delattr_(m, "c10")
        ref.pop("c10")
        ce11 = CE()
        call(ce11, "add_condition", ineq(mul(y, p_), ub=100.0), e_sh)
        call(ce11, "add_final_expr", sub(y, x))
        I.setattr_(m, "c11", Con(ce11))
        ref["c11"] = [(sy * sp_ <= 100, sx * sz + sq), (True, sy - sx)]
        check("the same expression object re-used as a branch of a piecewise constraint", m, leaves, ref, values)
        # an expression that was EXTENDED first (other expressions built on top of it) and is then registered itself
        base = add(mul(x, y), z)
        ext = sub(base, fn("exp", y))
        I.delattr_(m, "c11")
        ref.pop("c11")
        I.setattr_(m, "c12", Con(ext))
        ref["c12"] = sx * sy + sz - sp.exp(sy)
        check("an extension of a base expression registered", m, leaves, ref, values)
        I.delattr_(m, "c8")
        ref.pop("c8")
        I.setattr_(m, "c13", Con(base))
        ref["c13"] = sx * sy + sz
        check("the base expression registered after its extension", m, leaves, ref, values)
        left = {k: len(v) for k, v in ev.leaves.items()}
        floats_needed = len(I.getattr_(m, "_float_cfloat_map"))
        syms = set()
        for e_ in ref.values():
            for ex_ in ([x_[1] for x_ in e_] + [x_[0] for x_ in e_ if x_[0] is not True] if isinstance(e_, list) else [e_]):
                syms |= {str(s_) for s_ in ex_.free_symbols}
        n_var, n_par = len(syms & {"x", "y", "z"}), len(syms & {"p", "q"})
        chk.expect(left["var"] == n_var and left["param"] == n_par and left["float"] == floats_needed, "R-C15-12", "model history: the evaluator holds exactly the leaves the remaining constraints refer to", loc(mfn),
                   expected="%d variables, %d parameter(s), %d constants" % (n_var, n_par, floats_needed), found=left)
    except MockEvaluatorError as e:
        chk.bad("R-C15-12", "model history: the evaluator protocol is respected", loc(mfn), "the compiled evaluator would read outside a leaf list / use a freed object here", found=str(e))
    except ProgramError as e:
        if isinstance(e.exc, MockEvaluatorError):
            chk.bad("R-C15-12", "model history: the evaluator protocol is respected", loc(mfn), found="%s (line %s)" % (e, e.lineno))
        else:
            raise ExtractError("R-C15-12: the interpreted model code raised %s (line %s)" % (e, e.lineno))
    chk.floor("R-C15-12", 17)


def dag_rules(repo, chk, rpn_info):
    # (a) T3, bounded to the recipes above: expressions with shared sub-expressions are BUILT by the repository's own operator overloads (interpreted by
    #     sa/concrete.py) and differentiated by its own reverse_ad / reverse_sd; value and every partial derivative are compared with sympy's at two points,
    #     and no operator may be listed twice (each listed operator is evaluated and differentiated once)
    import sympy as sp
    from ..concrete import ProgramError, Instance
    world = _expr_world(repo)
    I = world.interp
    Var = world.function(EXPR, "Var")
    exprcls = repo.cls(EXPR, "expression")
    exprcls._rel = EXPR

    class RepoOps(object):
        def _b(self, node, a, b):
            return I.binop(I._BIN, node, a, b, None)

        def add(self, a, b): return self._b(ast.Add(), a, b)
        def sub(self, a, b): return self._b(ast.Sub(), a, b)
        def mul(self, a, b): return self._b(ast.Mult(), a, b)
        def div(self, a, b): return self._b(ast.Div(), a, b)
        def pow(self, a, b): return self._b(ast.Pow(), a, b)
        def fn(self, name, a): return I.call(world.function(EXPR, name), [a], {})

    class SymOps(object):
        def add(self, a, b): return a + b
        def sub(self, a, b): return a - b
        def mul(self, a, b): return a * b
        def div(self, a, b): return a / b
        def pow(self, a, b): return a ** b
        def fn(self, name, a): return getattr(sp, name)(a)
    sx, sy, sz = sp.symbols("x y z", positive=True)
    n_a = 0
    for label, recipe in _dag_recipes():
        sym = recipe(SymOps(), sx, sy, sz)
        for pt in ((1.3, 0.7, 2.1), (0.4, 2.5, 0.9)):
            try:
                vs_ = [Var(v) for v in pt]
                f = recipe(RepoOps(), *vs_)
                ops_ = list(I.iterate(I.call(I.getattr_(f, "operators"), [], {})))
                val = I.call(I.getattr_(f, "evaluate"), [], {})
                ad = I.call(I.getattr_(f, "reverse_ad"), [], {})
                sd = I.call(I.getattr_(f, "reverse_sd"), [], {})
                ders, sders = [], []
                for v in vs_:
                    ders.append(ad[v] if v in ad else 0.0)
                    d_ = sd[v] if v in sd else 0.0
                    if isinstance(d_, Instance):
                        d_ = I.call(I.getattr_(d_, "evaluate"), [], {})
                    sders.append(d_)
            except ProgramError as e:
                raise ExtractError("R-C15-8 %s: the interpreted expression code raised %s (line %s)" % (label, e, e.lineno))
            sub = dict(zip((sx, sy, sz), pt))
            want = float(sym.subs(sub))
            wder = [float(sp.diff(sym, s_).subs(sub)) for s_ in (sx, sy, sz)]
            dup = len(ops_) - len({id(o) for o in ops_})

            def close(u, w):
                return isinstance(u, (int, float)) and abs(u - w) <= 1e-9 * max(1.0, abs(w))
            n_a += 1
            okv = close(val, want) and all(close(u, w) for u, w in zip(ders, wder)) and all(close(u, w) for u, w in zip(sders, wder)) and dup == 0
            if pt == (1.3, 0.7, 2.1) or not okv:
                chk.expect(okv, "R-C15-8", "expression with a shared sub-expression, %s: value, reverse_ad and reverse_sd agree with the analytic derivative; no operator listed twice" % label,
                           loc(exprcls), "built by the repository's own overloads and differentiated by its own reverse sweep (interpreted); a shared sub-expression listed twice has its adjoint "
                           "pushed down twice: residuals stay right, the Jacobian entries are wrong", expected="value %.12g, d/d(x,y,z) %s" % (want, ["%.12g" % w for w in wder]),
                           found="value %r, reverse_ad %s, reverse_sd %s, %d duplicate operator(s) among %d" % (val, ders, sders, dup, len(ops_)))
    if n_a < 16:
        chk.error("R-C15-8: only %d of the shared sub-expression fixtures were evaluated" % n_a)
    # (b) decided on the abstract runs of get_rpn (rpn_programs): for every combination with a non-leaf operand, the program stored for the
    #     operator is a list object of its own and the operand's program in rpn_map is what it was before the call
    for owner, (fn, operands, progs) in sorted(rpn_info.items()):
        for combo, r in sorted(progs.items()):
            nonleaf = [o for o, lf in zip(operands, combo) if not lf]
            if not nonleaf:
                continue
            chk.expect(not r["mutated"] and not r["aliased"], "R-C15-8", "%s.get_rpn builds the program of an operator in a new list [non-leaf: %s]" % (owner, ", ".join(nonleaf)), loc(fn),
                       "rpn_map[self] aliases the operand's list or the operand's list is mutated (append/extend/insert): a second use of that operand "
                       "(shared sub-expression, or the exponent in the power rule's derivative) reads a corrupted program", expected="list(rpn_map[operand]) left untouched",
                       found="operand program changed: %s; same list object: %s" % (r["mutated"] or "-", r["aliased"] or "-"))
    chk.floor("R-C15-8", 8 + 3 + 1 + 7 + 1)

WITNESSES = [
    dict(name="rpn-program-cached-per-expression-object", file=EXPR, old="    def get_rpn(self, leaf_ndx_map):\n        rpn_map = dict()\n        for oper in self.operators():\n            oper.get_rpn(rpn_map, leaf_ndx_map)\n        return rpn_map[self.last_node()]\n",
         new="    def get_rpn(self, leaf_ndx_map):\n        if id(self) in _RPN_CACHE:\n            return _RPN_CACHE[id(self)]\n        rpn_map = dict()\n        for oper in self.operators():\n            oper.get_rpn(rpn_map, leaf_ndx_map)\n        _RPN_CACHE[id(self)] = rpn_map[self.last_node()]\n        return _RPN_CACHE[id(self)]\n",
         also=[("class expression(ExpressionBase):\n", "_RPN_CACHE = {}\n\n\nclass expression(ExpressionBase):\n")], rule="R-C15-12"),
    dict(name="conditional-constraint-jacobian-of-the-wrong-branch", file=AML, old="                jac = derivs[i][v]\n", new="                jac = derivs[0][v]\n", rule="R-C15-12"),
    dict(name="removed-constraint-keeps-its-variables", file=AML, old="        for v in self._vars_referenced_by_con[con]:\n            self._decrement_var(v)\n        for p in self._params_referenced_by_con[con]:\n            self._decrement_param(p)\n        for f in self._floats_referenced_by_con[con]:\n            self._decrement_float(f)\n        del self._vars_referenced_by_con[con]\n        del self._params_referenced_by_con[con]\n        del self._floats_referenced_by_con[con]\n\n    def evaluate_residuals",
         new="        for p in self._params_referenced_by_con[con]:\n            self._decrement_param(p)\n        for f in self._floats_referenced_by_con[con]:\n            self._decrement_float(f)\n        del self._vars_referenced_by_con[con]\n        del self._params_referenced_by_con[con]\n        del self._floats_referenced_by_con[con]\n\n    def evaluate_residuals", rule="R-C15-12"),
    dict(name="leaf-indices-start-at-one", file=AML, old="        referenced_floats = OrderedSet()\n        ndx = 0\n        for v in con.expr.get_vars():", new="        referenced_floats = OrderedSet()\n        ndx = 1\n        for v in con.expr.get_vars():", rule="R-C15-12"),
    dict(name="merge-assumes-shared-operators-lead-the-list", file=EXPR, old="        present = None\n        for oper in other.operators():\n            if present is None:\n                present = set(self.operators())\n            if oper not in present:\n                present.add(oper)\n                self.append_operator(oper)\n",
         new="        n_shared = 0\n        for mine, theirs in zip(self.operators(), other.operators()):\n            if mine is not theirs:\n                break\n            n_shared += 1\n        for oper in itertools.islice(other.operators(), n_shared, None):\n            self.append_operator(oper)\n", rule="R-C15-8"),
    dict(name="merge-by-identity-list-preserving", file=EXPR, silent=True, old="        present = None\n        for oper in other.operators():\n            if present is None:\n                present = set(self.operators())\n            if oper not in present:\n                present.add(oper)\n                self.append_operator(oper)\n",
         new="        mine = list(self.operators())\n        fresh = [oper for oper in other.operators() if not any(oper is m for m in mine)]\n        for oper in fresh:\n            self.append_operator(oper)\n"),
    dict(name="setter-skips-unchanged-cache", file=EXPR, old="    def value(self, val):\n        self._value = val\n", new="    def value(self, val):\n        if val == self._value:\n            return\n        self._value = val\n", rule="R-C15-9"),
    dict(name="rpn-aliases-operand-program", file=EXPR, old="            rpn_map[self] = _rpn = list(rpn_map[self._operand])\n", new="            rpn_map[self] = _rpn = rpn_map[self._operand]\n", rule="R-C15-8"),
    dict(name="merge-appends-duplicates", file=EXPR, old="            if oper not in present:\n                present.add(oper)\n                self.append_operator(oper)",
         new="            self.append_operator(oper)", rule="R-C15-8"),
    dict(name="float-folds-params", file=EXPR, old="        elif other.is_float_type():\n            return cls.operation(self.value, other.value)",
         new="        elif other.is_leaf() and not other.is_variable_type():\n            return cls.operation(self.value, other.value)", rule="R-C15-7"),
    dict(name="enum-drift", file=EXPR, old="    sign = -7\n    if_else = -8", new="    sign = -8\n    if_else = -7", rule="R-C15-1"),
    dict(name="cpp-sub-operand-order", file=CPP, old="\t      res = arg1 - arg2;", new="\t      res = arg2 - arg1;", rule="R-C15-2"),
    dict(name="cpp-inequality-strict", file=CPP, old="if (arg >= arg1 && arg <= arg2)", new="if (arg > arg1 && arg <= arg2)", rule="R-C15-2"),
    dict(name="rpn-insert-order", file=EXPR, old="            _rpn.insert(0, leaf_ndx_map[self._operand1])", new="            _rpn.append(leaf_ndx_map[self._operand1])", rule="R-C15-2"),
    dict(name="div-derivative-sign", file=EXPR, old="        der_dict[self._operand2] -= der * val_dict[self._operand1] / val_dict[self._operand2]**2", new="        der_dict[self._operand2] += der * val_dict[self._operand1] / val_dict[self._operand2]**2", rule="R-C15-3"),
    dict(name="cos-derivative-sign", file=EXPR, old="        der_dict[self._operand] -= der * sin(val_dict[self._operand])", new="        der_dict[self._operand] += der * sin(val_dict[self._operand])", rule="R-C15-3"),
    dict(name="pow-exponent-rule", file=EXPR, old="            der_dict[self._operand2] += der * val1**val2 * log(val1)", new="            der_dict[self._operand2] += der * val1**val2 * log(val2)", rule="R-C15-3"),
    dict(name="rsub-order", file=EXPR, old="        return Float(other) - self", new="        return self - Float(other)", rule="R-C15-3"),
    dict(name="rsub-zero-shortcut", file=EXPR, old="        if other == 0:\n            return -self\n        return Float(other) - self", new="        if other == 0:\n            return self\n        return Float(other) - self", rule="R-C15-3"),
    dict(name="param-not-recorded", file=AML, old="            ccon.add_leaf(cparam)\n            referenced_params.add(p)", new="            ccon.add_leaf(cparam)", rule="R-C15-12"),
    dict(name="decrement-wrong-map", file=AML, old="            cparam = self._param_cparam_map[p]\n            p._c_obj = None", new="            cparam = self._var_cvar_map[p]\n            p._c_obj = None", rule="R-C15-4"),
    dict(name="abs-derivative-preserving", file=EXPR, old="        der = der_dict[self]\n        der_dict[self._operand1] += der * val_dict[self._operand2]\n        der_dict[self._operand2] += der * val_dict[self._operand1]",
         new="        der = der_dict[self]\n        der_dict[self._operand2] += val_dict[self._operand1] * der\n        der_dict[self._operand1] += val_dict[self._operand2] * der", silent=True),
    # --- shape tolerance (silent=True: behaviour-preserving rewrites that must stay quiet) and the teeth of the semantic extractions
    dict(name='rpn-alias-through-temporary', file=EXPR, old='        if self._operand.is_leaf():\n            rpn_map[self] = [leaf_ndx_map[self._operand], self.operation_enum]\n        else:\n            rpn_map[self] = _rpn = list(rpn_map[self._operand])\n            _rpn.append(self.operation_enum)\n', new='        if self._operand.is_leaf():\n            prog = [leaf_ndx_map[self._operand]]\n        else:\n            prog = rpn_map[self._operand]\n        prog.append(self.operation_enum)\n        rpn_map[self] = prog\n', rule='R-C15-8'),
    dict(name='rpn-operand-helper-preserving', file=EXPR, old='        if self._operand.is_leaf():\n            rpn_map[self] = [leaf_ndx_map[self._operand], self.operation_enum]\n        else:\n            rpn_map[self] = _rpn = list(rpn_map[self._operand])\n            _rpn.append(self.operation_enum)\n', new='        def operand_rpn(operand):\n            if operand.is_leaf():\n                return [leaf_ndx_map[operand]]\n            return list(rpn_map[operand])\n        prog = operand_rpn(self._operand)\n        prog.append(self.operation_enum)\n        rpn_map[self] = prog\n', silent=True),
    dict(name='rpn-ifelse-loop-preserving', file=EXPR, old='        if self._then_arg.is_leaf():\n            _rpn.append(leaf_ndx_map[self._then_arg])\n        else:\n            _rpn.extend(rpn_map[self._then_arg])\n        if self._else_arg.is_leaf():\n            _rpn.append(leaf_ndx_map[self._else_arg])\n        else:\n            _rpn.extend(rpn_map[self._else_arg])\n', new='        for arg in (self._then_arg, self._else_arg):\n            _rpn += [leaf_ndx_map[arg]] if arg.is_leaf() else rpn_map[arg]\n', silent=True),
    dict(name='rpn-ifelse-then-else-swapped', file=EXPR, old='            _rpn.extend(rpn_map[self._then_arg])\n        if self._else_arg.is_leaf():\n            _rpn.append(leaf_ndx_map[self._else_arg])', new='            _rpn.extend(rpn_map[self._then_arg])\n        if self._else_arg.is_leaf():\n            _rpn.insert(1, leaf_ndx_map[self._else_arg])', rule='R-C15-2'),
    dict(name='py-sign-strict-at-zero', file=EXPR, old='        if val >= 0:\n            return 1\n', new='        if val > 0:\n            return 1\n', rule='R-C15-2'),
    dict(name='py-sign-conditional-expression-preserving', file=EXPR, old='        if val >= 0:\n            return 1\n        else:\n            return -1\n', new='        return 1 if val >= 0 else -1\n', silent=True),
    dict(name='py-inequality-evaluate-strict', file=EXPR, old='        val_dict[self] = (self._lb.value <= body_val <= self._ub.value)\n\n    def operands', new='        val_dict[self] = (self._lb.value < body_val <= self._ub.value)\n\n    def operands', rule='R-C15-2'),
    dict(name='py-inequality-evaluate-split-preserving', file=EXPR, old='        val_dict[self] = (self._lb.value <= body_val <= self._ub.value)\n\n    def operands', new='        lo = self._lb.value\n        val_dict[self] = (body_val >= lo and body_val <= self._ub.value)\n\n    def operands', silent=True),
    dict(name='log-operation-is-exp', file=EXPR, old='    def operation(val):\n        return log(val)', new='    def operation(val):\n        return exp(val)', rule='R-C15-2'),
    dict(name='negation-operation-renamed-preserving', file=EXPR, old='    def operation(val):\n        return -val', new='    def operation(x):\n        y = -x\n        return y', silent=True),
    dict(name='rpow-order', file=EXPR, old='        return Float(other) ** self', new='        return self ** Float(other)', rule='R-C15-3'),
    dict(name='pow-zero-shortcut', file=EXPR, old='        if other == 0:\n            return 1\n        elif other == 1:\n            return self\n        return self._binary_operation_helper(other, PowerOperator)', new='        if other == 0:\n            return self\n        elif other == 1:\n            return self\n        return self._binary_operation_helper(other, PowerOperator)', rule='R-C15-3'),
    dict(name='sub-builds-add', file=EXPR, old='        return self._binary_operation_helper(other, SubtractOperator)', new='        return self._binary_operation_helper(other, AddOperator)', rule='R-C15-3'),
    dict(name='radd-commuted-preserving', file=EXPR, old='        return Float(other) + self', new='        return self + Float(other)', silent=True),
    dict(name='mul-shortcut-conditional-expression-preserving', file=EXPR, old='        if other == 0:\n            return 0\n        elif other == 1:\n            return self\n        return self._binary_operation_helper(other, MultiplyOperator)', new='        if other == 0:\n            return 0\n        res = self if other == 1 else self._binary_operation_helper(other, MultiplyOperator)\n        return res', silent=True),
    dict(name='truediv-class-level-alias-preserving', file=EXPR, old="    def __truediv__(self, other):\n        if other == 0:\n            raise ValueError('Divide by 0')\n        elif other == 1:\n            return self\n        return self._binary_operation_helper(other, DivideOperator)\n\n    def __div__(self, other):", new="    def __div__(self, other):\n        if other == 0:\n            raise ValueError('Divide by 0')\n        elif other == 1:\n            return self\n        return self._binary_operation_helper(other, DivideOperator)\n\n    __truediv__ = __div__\n\n    def __old_div__(self, other):", silent=True),
    dict(name='leaf-folds-native-operand', file=EXPR, old='        if type(other) in native_numeric_types:\n            other = Float(other)\n        new_operator = cls(self, other.last_node())', new='        if type(other) in native_numeric_types:\n            return cls.operation(self.value, other)\n        new_operator = cls(self, other.last_node())', rule='R-C15-7'),
    dict(name='float-folds-params-through-temporaries', file=EXPR, old='        elif other.is_float_type():\n            return cls.operation(self.value, other.value)', new='        elif not other.is_variable_type() and other.is_leaf():\n            a = self.value\n            b = other.value\n            res = cls.operation(a, b)\n            return res', rule='R-C15-7'),
    dict(name='float-fold-merged-guard-preserving', file=EXPR, old='        if type(other) in native_numeric_types:\n            return cls.operation(self.value, other)\n        elif other.is_float_type():\n            return cls.operation(self.value, other.value)\n', new='        if type(other) in native_numeric_types or other.is_float_type():\n            rhs = other if type(other) in native_numeric_types else other.value\n            folded = cls.operation(self.value, rhs)\n            return folded\n', silent=True),
    dict(name='float-helper-conditional-expression-preserving', file=EXPR, old='        new_operator = cls(self, other.last_node())\n        if other.is_leaf():\n            expr = expression()\n        else:\n            expr = expression(other)\n        expr.append_operator(new_operator)\n        return expr\n\n    def _unary_operation_helper(self, cls):\n        return cls.operation(self.value)', new='        new_operator = cls(self, other.last_node())\n        expr = expression() if other.is_leaf() else expression(other)\n        expr.append_operator(new_operator)\n        return expr\n\n    def _unary_operation_helper(self, cls):\n        v = self.value\n        return cls.operation(v)', silent=True),
    dict(name='inequality-diff-down-adds', file=EXPR, old='        val_dict[self] = inequality(body_val, self._lb.value, self._ub.value)\n\n    def diff_down(self, val_dict, der_dict):\n        pass', new='        val_dict[self] = inequality(body_val, self._lb.value, self._ub.value)\n\n    def diff_down(self, val_dict, der_dict):\n        der_dict[self._body] += der_dict[self]', rule='R-C15-3'),
    dict(name='inequality-diff-down-return-none-preserving', file=EXPR, old='        val_dict[self] = inequality(body_val, self._lb.value, self._ub.value)\n\n    def diff_down(self, val_dict, der_dict):\n        pass', new='        val_dict[self] = inequality(body_val, self._lb.value, self._ub.value)\n\n    def diff_down(self, val_dict, der_dict):\n        return None', silent=True),
    dict(name='refcount-created-at-zero', file=AML, old='            self._refcounts[var] = 1\n', new='            self._refcounts[var] = 0\n', rule='R-C15-4'),
    dict(name='refcount-early-return-preserving', file=AML, old='            self._refcounts[f] = 1\n        else:\n            self._refcounts[f] += 1\n            cfloat = self._float_cfloat_map[f]\n        return cfloat', new='            n = 1\n            self._refcounts[f] = n\n            return cfloat\n        cfloat = self._float_cfloat_map[f]\n        self._refcounts[f] = self._refcounts[f] + 1\n        return cfloat', silent=True),
    # --- R-C15-10 / R-C15-11: repaired defects (reverting the repair must fire; an equivalent correct spelling must stay quiet)
    dict(name="leaf-evaluate-reads-cache", file=EXPR, old="    def evaluate(self):\n        return self.value\n", new="    def evaluate(self):\n        return self._value\n", rule="R-C15-10"),
    dict(name="leaf-evaluate-spelled-out-preserving", file=EXPR, old="    def evaluate(self):\n        return self.value\n",
         new="    def evaluate(self):\n        cobj = self._c_obj\n        if cobj is None:\n            return self._value\n        live = cobj.value\n        return live\n", silent=True),
    dict(name="leaf-value-getter-ignores-compiled-object", file=EXPR, old="        if self._c_obj is not None:\n            return self._c_obj.value\n        return self._value\n",
         new="        return self._value\n", rule="R-C15-10"),
    dict(name="numpy-scalars-not-constants", file=EXPR, old="    native_numeric_types |= {_np.float64, _np.float32, _np.int64, _np.int32}\n", new="    pass\n", rule="R-C15-11"),
    dict(name="numpy-scalars-only-float64", file=EXPR, old="    native_numeric_types |= {_np.float64, _np.float32, _np.int64, _np.int32}\n", new="    native_numeric_types.add(_np.float64)\n", rule="R-C15-11"),
    dict(name="numpy-scalars-union-spelling-preserving", file=EXPR, old="    native_numeric_types |= {_np.float64, _np.float32, _np.int64, _np.int32}\n",
         new="    _np_scalars = (_np.float64, _np.float32, _np.float16)\n    native_numeric_types = native_numeric_types.union(_np_scalars, [_np.int64, _np.int32])\n", silent=True),
    dict(name="value-isinstance-real-preserving", file=EXPR, old="def value(obj):\n    if type(obj) in native_numeric_types:\n",
         new="def value(obj):\n    if isinstance(obj, numbers.Real) and not isinstance(obj, bool):\n", silent=True),
    dict(name="value-isinstance-python-types-only", file=EXPR, old="def value(obj):\n    if type(obj) in native_numeric_types:\n",
         new="def value(obj):\n    if isinstance(obj, (float, int)):\n", rule="R-C15-11"),
    dict(name="leaf-helper-exact-python-types", file=EXPR, old="    def _binary_operation_helper(self, other, cls):\n        if type(other) in native_numeric_types:\n            other = Float(other)\n        new_operator = cls(self, other.last_node())",
         new="    def _binary_operation_helper(self, other, cls):\n        if type(other) in (float, int):\n            other = Float(other)\n        new_operator = cls(self, other.last_node())", rule="R-C15-11"),
    # --- R-C15-3 with both operands the same node (x*x): read-both-then-write-both loses a contribution
    dict(name='mul-aliased-operands-read-both-then-write', file=EXPR, old='        der_dict[self._operand1] += der * val_dict[self._operand2]\n        der_dict[self._operand2] += der * val_dict[self._operand1]', new='        op1 = self._operand1\n        op2 = self._operand2\n        val1, der1 = val_dict[op1], der_dict[op1]\n        val2, der2 = val_dict[op2], der_dict[op2]\n        der_dict[op1] = der1 + der * val2\n        der_dict[op2] = der2 + der * val1', rule='R-C15-3'),
    dict(name='mul-products-in-temporaries-preserving', file=EXPR, old='        der_dict[self._operand1] += der * val_dict[self._operand2]\n        der_dict[self._operand2] += der * val_dict[self._operand1]', new='        op1, op2 = self._operand1, self._operand2\n        t1 = der * val_dict[op2]\n        t2 = der * val_dict[op1]\n        der_dict[op1] += t1\n        der_dict[op2] += t2', silent=True),
    dict(name='mul-read-then-write-per-operand-preserving', file=EXPR, old='        der_dict[self._operand1] += der * val_dict[self._operand2]\n        der_dict[self._operand2] += der * val_dict[self._operand1]', new='        d1 = der_dict[self._operand1]\n        der_dict[self._operand1] = d1 + der * val_dict[self._operand2]\n        d2 = der_dict[self._operand2]\n        der_dict[self._operand2] = d2 + val_dict[self._operand1] * der', silent=True),
    dict(name='sub-aliased-operands-read-both-then-write', file=EXPR, old='        der_dict[self._operand1] += der\n        der_dict[self._operand2] -= der', new='        a, b = der_dict[self._operand1], der_dict[self._operand2]\n        der_dict[self._operand1] = a + der\n        der_dict[self._operand2] = b - der', rule='R-C15-3'),
    dict(name='pow-aliased-operands-read-both-then-write', file=EXPR, old='        der_dict[self._operand1] += der * val2 * val1**(val2 - 1)\n        if not self._operand2.is_leaf() or self._operand2.is_variable_type():\n            der_dict[self._operand2] += der * val1**val2 * log(val1)', new='        d1, d2 = der_dict[self._operand1], der_dict[self._operand2]\n        der_dict[self._operand1] = d1 + der * val2 * val1**(val2 - 1)\n        if not self._operand2.is_leaf() or self._operand2.is_variable_type():\n            der_dict[self._operand2] = d2 + der * val1**val2 * log(val1)', rule='R-C15-3'),
    dict(name='diff-up-symbolic-resets-leaf-adjoint', file=EXPR, old='            val1 = self._operand1\n            val_dict[self._operand1] = val1\n            if self._operand1 not in der_dict:\n                der_dict[self._operand1] = 0', new='            val1 = self._operand1\n            val_dict[self._operand1] = val1\n            der_dict[self._operand1] = 0', rule='R-C15-3'),
    dict(name='diff-up-membership-spelling-preserving', file=EXPR, old='            val1 = self._operand1\n            val_dict[self._operand1] = val1\n            if self._operand1 not in der_dict:\n                der_dict[self._operand1] = 0', new='            val1 = self._operand1\n            val_dict[self._operand1] = val1\n            if not (self._operand1 in der_dict):\n                der_dict[self._operand1] = 0', silent=True),
]
