"""C18 -- valve segmentation: the structural clauses only.

That valve_segments computes THE partition induced by the valve layer on every multigraph is a fact about graph reachability through
networkx at run time; it is not decided here (MANIFEST level_note says so).  Four clauses of the statement are visible in the shape of the
code and are necessary for it:

R-C18-1  every label handed out is positive: a fresh label is the counter AFTER an increment (the counter starts at 0), on every path;
R-C18-2  the reported sizes count the members of the reported labelling: segment_size is computed from the value counts of the very two
         series that are returned (not from an earlier copy, not from one series twice);
R-C18-3  valve_segment_attributes reports one row per valve, addressed by valve NUMBER: rows of the valve layer are read by label
         (.loc / .at with a variable ranging over the layer's index) or by position (.iloc with a range), never a position through .loc --
         "any subset of link-node pairs" includes layers whose index has gaps (valve_segments itself drops duplicate rows in place);
R-C18-4  zero when both sides are the same segment: in each of the three criticality helpers the value stored for a valve is 0 on every path
         on which the node-side label equals the link-side label, and the three helpers are wired to num_surround / demand_increase /
         length_increase with the arguments in the helper's own parameter order.
"""
import ast

import sympy as sp

from ..src import walk, calls, call_name, dotted, loc, unparse, norm, AnchorError, ExtractError
from ..cfg import CFG
from ..symx import SymExec, Opaque

TOPO = "wntr/metrics/topographic.py"

EXPLANATION = (
    "Structural clauses (T1) of valve segmentation in wntr/metrics/topographic.py: (R-C18-1) CFG dominance: every store of the running label counter into the "
    "label array is dominated by an increment of the counter, which is initialised to 0 (labels are positive); copies of an existing label are listed, not "
    "decided; (R-C18-2) name-based, flow-insensitive def-use (that nothing is rebound after counting is judged by line number): the returned segment_size "
    "derives from value_counts of both returned series; (R-C18-3) row addressing, an AST pattern match on how the loop iterable is spelled (a closed list of "
    "spellings, anything else is an analysis error; the parameter must be named valve_layer): every .loc/.at/.iloc/.iat access to the valve layer in "
    "valve_segment_attributes' helpers uses an index variable whose source (the layer's index vs a range of positions) matches the accessor, and the per-valve "
    "result is keyed by the valve number; (R-C18-4) T2, symbolic path enumeration of the three criticality helpers: the stored value is 0 on the path where "
    "node-side and link-side labels are equal (that path is selected by a substring match on the path-condition text: `==`, node_segments[, link_segments[; "
    "first such test and last store only), and (AST match of call arguments against parameter names) valve_segment_attributes passes its arguments in each "
    "helper's parameter order. The partition itself (reachability without passing a valve on every multigraph) is NOT decided.")
RULE_TEXT = "one instance = one label store, one size input, one row access, one same-segment path or one helper call binding"
ASSUMPTIONS = ["that the labelling is the partition induced by the valve layer (graph reachability at run time) is not decided by any rule of this check",
               "R-C18-1 does not decide that a COPIED label (link takes the label of its node) is non-zero; it lists those stores"]

HELPERS = ("_valve_criticality", "_valve_criticality_demand", "_valve_criticality_length")


# ------------------------------------------------------------------------------------------------ small def-use helpers
def top_assignments(fn):
    """name -> list of (stmt, value) for every simple-name assignment anywhere in fn (nested blocks included, nested defs excluded)"""
    out = {}
    for n in walk(fn):
        if isinstance(n, ast.Assign):
            for t in n.targets:
                for x in ([t] if isinstance(t, ast.Name) else (t.elts if isinstance(t, (ast.Tuple, ast.List)) else [])):
                    if isinstance(x, ast.Name):
                        out.setdefault(x.id, []).append((n, n.value))
        elif isinstance(n, ast.AugAssign) and isinstance(n.target, ast.Name):
            out.setdefault(n.target.id, []).append((n, n.value))
    return out


def names_in(e):
    return {x.id for x in ast.walk(e) if isinstance(x, ast.Name)}


def depends(fn, name, seen=None):
    """transitive set of names a local's definitions read, and the definition expressions met on the way"""
    defs = top_assignments(fn)
    seen = set() if seen is None else seen
    exprs = []
    todo = [name]
    while todo:
        n = todo.pop()
        if n in seen:
            continue
        seen.add(n)
        for st, v in defs.get(n, []):
            exprs.append((n, v))
            # attribute stores on the name (x.index = ...) do not redefine it
            todo.extend(names_in(v) - seen)
    return seen, exprs


# ------------------------------------------------------------------------------------------------ R-C18-1
def label_rules(repo, chk):
    fn = repo.func(TOPO, "valve_segments")
    chk.fn(fn)
    g = CFG(fn)
    defs = top_assignments(fn)
    # the counter: a name initialised to the constant 0 and only ever changed by `+= 1` / `= x + 1`
    counters = []
    for nm, ds in defs.items():
        inits = [v for st, v in ds if isinstance(st, ast.Assign) and isinstance(v, ast.Constant) and v.value == 0 and type(v.value) is int]
        incs = [st for st, v in ds if (isinstance(st, ast.AugAssign) and isinstance(st.op, ast.Add) and isinstance(v, ast.Constant) and v.value == 1)
                or (isinstance(st, ast.Assign) and isinstance(v, ast.BinOp) and isinstance(v.op, ast.Add) and nm in names_in(v)
                    and any(isinstance(x, ast.Constant) and x.value == 1 for x in (v.left, v.right)))]
        if len(inits) == 1 and incs and len(inits) + len(incs) == len(ds):
            counters.append((nm, incs))
    # the label container: the subscripted name that receives the counter
    stores = []
    for n in walk(fn):
        if isinstance(n, ast.Assign) and len(n.targets) == 1 and isinstance(n.targets[0], ast.Subscript) and isinstance(n.targets[0].value, ast.Name):
            stores.append(n)
    cand = [(nm, incs) for nm, incs in counters if any(isinstance(s.value, ast.Name) and s.value.id == nm for s in stores)]
    if len(cand) != 1:
        raise ExtractError("valve_segments: running label counter not identified (candidates %s)" % [c[0] for c in cand])
    counter, incs = cand[0]
    arrays = {s.targets[0].value.id for s in stores if isinstance(s.value, ast.Name) and s.value.id == counter}
    if len(arrays) != 1:
        raise ExtractError("valve_segments: label array not unique: %s" % sorted(arrays))
    arr = arrays.pop()
    dom = g.dominators()
    inc_nodes = set(g.nodes_where(lambda nd, d: d.get("node") in incs or d.get("stmt") in incs))
    if not inc_nodes:
        # statements are stored under 'node' for simple statements
        inc_nodes = {i for i, d in g.g.nodes(data=True) if d.get("node") is not None and any(d["node"] is s for s in incs)}
    nfresh = ncopy = 0
    for s in stores:
        if s.targets[0].value.id != arr:
            continue
        sn = [i for i, d in g.g.nodes(data=True) if d.get("node") is s]
        if not sn:
            continue          # unreachable
        sn = sn[0]
        if isinstance(s.value, ast.Name) and s.value.id == counter:
            nfresh += 1
            doms = set()
            cur = sn
            while cur in dom and dom[cur] != cur:
                cur = dom[cur]
                doms.add(cur)
            chk.expect(bool(doms & inc_nodes), "R-C18-1", "fresh segment label at `%s` is the counter after an increment" % norm(s), loc(TOPO, s),
                       "the counter starts at 0: a label taken before the first increment on some path is 0, not a positive segment number",
                       expected="%s += 1 dominates the store" % counter, found="no increment of %s dominates it" % counter)
        elif isinstance(s.value, ast.Subscript) and isinstance(s.value.value, ast.Name) and s.value.value.id == arr:
            ncopy += 1
            chk.note("label copied from another element at line %d (%s): non-zero only if the source was labelled (not decided)" % (s.lineno, norm(s)))
        elif isinstance(s.value, ast.Constant):
            chk.expect(isinstance(s.value.value, int) and s.value.value > 0, "R-C18-1", "constant label at `%s` is positive" % norm(s), loc(TOPO, s), found=s.value.value)
            nfresh += 1
        else:
            raise ExtractError("valve_segments: label store with an unrecognised value: %s" % norm(s))
    chk.extra["label_stores"] = {"fresh": nfresh, "copied": ncopy, "counter": counter, "array": arr}
    chk.floor("R-C18-1", 3)
    return fn


# ------------------------------------------------------------------------------------------------ R-C18-2
def size_rules(repo, chk, fn):
    rets = [n for n in walk(fn) if isinstance(n, ast.Return) and n.value is not None]
    if len(rets) != 1 or not isinstance(rets[0].value, ast.Tuple) or len(rets[0].value.elts) != 3 or not all(isinstance(e, ast.Name) for e in rets[0].value.elts):
        raise ExtractError("valve_segments: expected one `return node_segments, link_segments, sizes` of three names")
    a, b, c = (e.id for e in rets[0].value.elts)
    deps, exprs = depends(fn, c)
    counted = set()
    for nm, v in exprs:
        for call in calls(v):
            if isinstance(call.func, ast.Attribute) and call.func.attr in ("value_counts", "groupby") and isinstance(call.func.value, ast.Name):
                counted.add(call.func.value.id)
            if isinstance(call.func, ast.Attribute) and call.func.attr in ("value_counts",) and isinstance(call.func.value, ast.Call):
                counted |= names_in(call.func.value)
            if call_name(call) in ("collections.Counter", "Counter", "np.unique", "numpy.unique", "np.bincount") and call.args:
                counted |= names_in(call.args[0])
    for nm, what in ((a, "node"), (b, "link")):
        chk.expect(nm in counted, "R-C18-2", "segment sizes count the members of the returned %s labelling `%s`" % (what, nm), loc(TOPO, rets[0]),
                   "the size table must be the value counts of the series that is returned", expected="%s.value_counts() feeds %s" % (nm, c),
                   found="counted: %s" % sorted(counted))
    # the returned series are not re-labelled after they were counted
    count_line = max([v.lineno for nm, v in exprs] or [0])
    for n in walk(fn):
        if isinstance(n, ast.Assign) and n.lineno > count_line:
            for t in n.targets:
                if isinstance(t, ast.Name) and t.id in (a, b):
                    chk.bad("R-C18-2", "returned labelling `%s` is not rebound after its members were counted" % t.id, loc(TOPO, n), found=norm(n))
    chk.floor("R-C18-2", 2)


# ------------------------------------------------------------------------------------------------ R-C18-3
LABEL_ACC = ("loc", "at")
POS_ACC = ("iloc", "iat")


def index_source(fn, name, layer):
    """'label' | 'position' | None for a loop variable"""
    for n in walk(fn):
        if isinstance(n, ast.For):
            tg = n.target
            names = [tg.id] if isinstance(tg, ast.Name) else [e.id for e in getattr(tg, "elts", []) if isinstance(e, ast.Name)]
            if name not in names:
                continue
            it = n.iter
            if isinstance(it, ast.Name):
                # a local holding the index labels of a (filtered) view of the layer: filtering keeps the labels
                ds = [v for st, v in top_assignments(fn).get(it.id, [])]
                if ds and all(isinstance(d, ast.Attribute) and d.attr == "index" and layer in names_in(d) for d in ds):
                    return "label"
                return None
            if isinstance(it, ast.Attribute) and it.attr == "index" and dotted(it.value) == layer:
                return "label"
            if isinstance(it, ast.Call) and isinstance(it.func, ast.Attribute) and dotted(it.func.value) == layer and it.func.attr in ("iterrows", "itertuples", "keys"):
                return "label" if (not isinstance(tg, ast.Name) and names and names[0] == name) or it.func.attr == "keys" else None
            if isinstance(it, ast.Call) and call_name(it) in ("list", "sorted", "iter") and it.args and unparse(it.args[0]) == layer + ".index":
                return "label"
            if isinstance(it, ast.Call) and call_name(it) == "range":
                arg = it.args[-1] if len(it.args) <= 2 else it.args[1]
                defs = top_assignments(fn)
                t = unparse(arg)
                if isinstance(arg, ast.Name) and len(defs.get(arg.id, [])) == 1:
                    t = unparse(defs[arg.id][0][1])
                if t in ("len(%s)" % layer, "%s.shape[0]" % layer, "len(%s.index)" % layer):
                    return "position"
            if isinstance(it, ast.Call) and call_name(it) == "enumerate":
                return "position" if names and names[0] == name else ("label" if it.args and unparse(it.args[0]) == layer + ".index" else None)
            return None
    return None


def addressing_rules(repo, chk):
    n_acc = 0
    for h in HELPERS:
        fn = repo.func(TOPO, h)
        chk.fn(fn)
        params = [a.arg for a in fn.args.args]
        layer = "valve_layer" if "valve_layer" in params else None
        if layer is None:
            raise ExtractError("%s: no valve_layer parameter (%s)" % (h, params))
        for n in walk(fn):
            if isinstance(n, ast.Subscript) and isinstance(n.value, ast.Attribute) and n.value.attr in LABEL_ACC + POS_ACC and dotted(n.value.value) == layer:
                idx = n.slice.elts[0] if isinstance(n.slice, ast.Tuple) and n.slice.elts else n.slice
                if not isinstance(idx, ast.Name):
                    continue       # a mask or a slice: selects rows by content, not by number
                src = index_source(fn, idx.id, layer)
                if src is None:
                    raise ExtractError("%s: cannot tell whether `%s` in `%s` is a valve number or a position" % (h, idx.id, norm(n)))
                want = "label" if n.value.attr in LABEL_ACC else "position"
                n_acc += 1
                chk.expect(src == want, "R-C18-3", "%s: `%s` addresses a row of the valve layer by %s with a %s" % (h, norm(n), "number" if want == "label" else "position", "valve number" if src == "label" else "position"),
                           loc(TOPO, n), "a valve layer whose index is not 0..n-1 (a subset, or after valve_segments dropped a duplicate row) is read at the wrong row or raises KeyError",
                           expected="index variable from %s.index" % layer if want == "label" else "index variable from range(len(%s))" % layer, found="%s ranges over %ss" % (idx.id, src))
        # the per-valve result is keyed by the valve number
        rets = [r for r in walk(fn) if isinstance(r, ast.Return) and r.value is not None]
        keyed = None
        for st in walk(fn):
            if isinstance(st, ast.Assign) and isinstance(st.targets[0], ast.Subscript) and isinstance(st.targets[0].value, ast.Name) and isinstance(st.targets[0].slice, ast.Name):
                res = st.targets[0].value.id
                if any(res in names_in(r.value) for r in rets) or any(res in depends(fn, x)[0] for r in rets for x in names_in(r.value)):
                    keyed = (st, index_source(fn, st.targets[0].slice.id, layer))
        if keyed is not None:
            chk.expect(keyed[1] == "label", "R-C18-3", "%s: the result is indexed by valve number" % h, loc(TOPO, keyed[0]), found="keyed by a %s" % keyed[1])
    chk.floor("R-C18-3", 6)


# ------------------------------------------------------------------------------------------------ R-C18-4
def same_segment_rules(repo, chk):
    for h in HELPERS:
        fn = repo.func(TOPO, h)
        params = [a.arg for a in fn.args.args]
        if "node_segments" not in params or "link_segments" not in params:
            raise ExtractError("%s: label parameters not found (%s)" % (h, params))
        def hook(name, node, args, kwargs, st, ex_, recv):
            # a local dict literal filled in the loop and then wrapped (pd.Series(d)): its entries are the per-valve values
            for a in list(args) + list(kwargs.values()):
                if isinstance(a, dict):
                    for k, v in a.items():
                        st.events.append(("store", "<result>[%s]" % k, v, getattr(node, "lineno", 0), ()))
            return NotImplemented
        ex = SymExec(call_hook=hook)
        paths = ex.run(fn)
        seen_same = 0
        for p in paths:
            if p.raised is not None:
                continue
            same = None
            for t, v in p.conds:
                if same is None and "==" in t and "node_segments[" in t and "link_segments[" in t and "|" not in t and "&" not in t:
                    same = v        # the first such test on the path is the one on the valve itself (inner loops come later)
            if same is not True:
                continue
            # the per-valve value: a subscript store event, or an entry of a local dict literal filled in the loop
            vals = [e[2] for e in p.events if e[0] == "store" and "[" in e[1] and not e[1].startswith(("node_segments", "link_segments"))]
            for nm, val in p.env.items():
                if isinstance(val, dict) and val:
                    vals.extend(val.values())
            if not vals:
                chk.bad("R-C18-4", "%s: a value is stored for a valve whose two sides are one segment" % h, loc(fn), found="no store on the path")
                continue
            seen_same += 1
            v = vals[-1]
            try:
                z = sp.simplify(ex.S(v)) == 0
            except ExtractError:
                z = False
            chk.expect(bool(z), "R-C18-4", "%s: zero when node side and link side are the same segment" % h, loc(TOPO, fn), found=str(v))
        if not seen_same:
            chk.bad("R-C18-4", "%s: the same-segment case is distinguished" % h, loc(fn), "no path compares the node-side label with the link-side label")
    # wiring in valve_segment_attributes
    fn = repo.func(TOPO, "valve_segment_attributes")
    chk.fn(fn)
    want = {"num_surround": "_valve_criticality", "demand_increase": "_valve_criticality_demand", "length_increase": "_valve_criticality_length"}
    got = {}
    for st in walk(fn):
        if isinstance(st, ast.Assign) and isinstance(st.targets[0], ast.Subscript) and isinstance(st.targets[0].slice, ast.Constant) and isinstance(st.value, ast.Call):
            got[st.targets[0].slice.value] = st
    apar = [a.arg for a in fn.args.args]
    for col, helper in sorted(want.items()):
        st = got.get(col)
        if st is None:
            chk.bad("R-C18-4", "valve_segment_attributes fills column %r" % col, loc(fn), found=sorted(got))
            continue
        c = st.value
        okh = call_name(c) == helper
        hp = [a.arg for a in repo.func(TOPO, helper).args.args]
        bound = dict(zip(hp, [unparse(a) for a in c.args]))
        bound.update({k.arg: unparse(k.value) for k in c.keywords})
        oka = all(bound.get(p) == p for p in ("valve_layer", "node_segments", "link_segments")) and all(v in apar for v in bound.values())
        chk.expect(okh and oka, "R-C18-4", "column %r comes from %s with the layer and the two labellings in the helper's parameter order" % (col, helper), loc(TOPO, st),
                   found="%s(%s)" % (call_name(c), ", ".join("%s=%s" % kv for kv in bound.items())))
    chk.floor("R-C18-4", 6)


# ------------------------------------------------------------------------------------------------ R-C18-5
def dedup_rules(repo, chk, fn):
    """duplicates allowed: when valve_segments works on a de-duplicated COPY of the layer, every later read of the layer goes through that copy
    (a pass that still reads the caller's frame sees a one-valve link as a two-valve link and leaves it unlabelled)."""
    params = [a.arg for a in fn.args.args]
    if len(params) < 2:
        raise ExtractError("valve_segments: expected (G, valve_layer)")
    layer = params[1]
    copies = {}          # name -> line of the statement that makes it a de-duplicated copy
    aliases = {layer}
    inplace = False
    for n in walk(fn):
        if isinstance(n, ast.Assign) and len(n.targets) == 1 and isinstance(n.targets[0], ast.Name):
            v = n.value
            if isinstance(v, ast.Name) and v.id in aliases:
                aliases.add(n.targets[0].id)
            if isinstance(v, ast.Call) and isinstance(v.func, ast.Attribute) and v.func.attr == "drop_duplicates" and isinstance(v.func.value, ast.Name) and v.func.value.id in aliases | set(copies):
                if not any(k.arg == "inplace" and getattr(k.value, "value", None) is True for k in v.keywords):
                    copies[n.targets[0].id] = n.lineno
        if isinstance(n, ast.Expr) and isinstance(n.value, ast.Call) and isinstance(n.value.func, ast.Attribute) and n.value.func.attr == "drop_duplicates":
            if any(k.arg == "inplace" and getattr(k.value, "value", None) is True for k in n.value.keywords):
                inplace = True
    copies.pop(layer, None) if inplace else None
    dedup_names = set(copies) - ({layer} if layer in copies and not inplace else set())
    if layer in copies:
        # the parameter name itself is rebound to the copy: one name, nothing to confuse
        chk.ok("R-C18-5", "the valve layer is read through one name after de-duplication", loc(TOPO, fn), "parameter rebound to the de-duplicated frame")
        return
    if not copies:
        chk.expect(inplace, "R-C18-5", "duplicate valve rows are dropped before the labelling passes", loc(TOPO, fn),
                   "the statement allows duplicated (link, node) rows; the passes count rows per link", found="no drop_duplicates on the layer")
        return
    first = min(copies.values())
    stale = []
    for n in walk(fn):
        if isinstance(n, ast.Name) and isinstance(n.ctx, ast.Load) and n.id == layer and n.lineno > first:
            par = getattr(n, "_parent", None)
            # reading rows / columns of the caller's frame (subscript, attribute, call argument); `valves = valve_layer` style aliasing before the copy is not a read
            if isinstance(par, (ast.Subscript, ast.Attribute, ast.Compare, ast.Call)):
                stale.append(n)
    chk.expect(not stale, "R-C18-5", "after de-duplication every pass reads the de-duplicated valve layer", loc(TOPO, stale[0]) if stale else loc(TOPO, fn),
               "a pass that still reads the caller's frame counts a duplicated row twice: a link with one valve listed twice is taken for a link with two valves and keeps label 0",
               expected="reads through %s" % sorted(copies), found=["line %d: %s" % (x.lineno, norm(getattr(x, "_parent", x))) for x in stale[:4]])


def run(repo, chk):
    fn = label_rules(repo, chk)
    dedup_rules(repo, chk, fn)
    size_rules(repo, chk, fn)
    addressing_rules(repo, chk)
    same_segment_rules(repo, chk)


WITNESSES = [
    dict(name="later-pass-reads-the-callers-frame", file=TOPO, old="    if valve_layer.duplicated().any():\n        valve_layer.drop_duplicates(inplace = True)\n", new="    valves = valve_layer\n    if valves.duplicated().any():\n        valves = valves.drop_duplicates()\n",
         also=[("        link_valves = valve_layer[valve_layer['link']==link_name]\n        if set(link_valves['node'])", "        link_valves = valves[valves['link']==link_name]\n        if set(link_valves['node'])")], rule="R-C18-5"),
    dict(name="layer-rebound-to-its-copy-preserving", file=TOPO, old="    if valve_layer.duplicated().any():\n        valve_layer.drop_duplicates(inplace = True)\n", new="    if valve_layer.duplicated().any():\n        valve_layer = valve_layer.drop_duplicates()\n", silent=True),
    dict(name="label-before-increment", file=TOPO, old="        seg_index += 1\n        for node in component:", new="        for node in component:", rule="R-C18-1"),
    dict(name="sizes-from-one-series-twice", file=TOPO, old="seg_node_sizes = node_segments.value_counts().rename('node')", new="seg_node_sizes = link_segments.value_counts().rename('node')", rule="R-C18-2"),
    dict(name="position-through-loc", file=TOPO, old="    for i in valve_layer.index:  # valve numbers are index labels, not positions\n        # identify the node-side and link-side segments\n        node_seg = node_segments[valve_layer.loc[i,'node']]\n        link_seg = link_segments[valve_layer.loc[i,'link']] \n        # if the node and link are in the same segment, set criticality to 0\n        if node_seg == link_seg:\n            VC_val_i = 0 ",
         new="    for i in range(n_valves):\n        # identify the node-side and link-side segments\n        node_seg = node_segments[valve_layer.loc[i,'node']]\n        link_seg = link_segments[valve_layer.loc[i,'link']] \n        # if the node and link are in the same segment, set criticality to 0\n        if node_seg == link_seg:\n            VC_val_i = 0 ", rule="R-C18-3"),
    dict(name="positions-through-iloc-preserving", file=TOPO, old="    for i in valve_layer.index:  # valve numbers are index labels, not positions\n        # identify the node-side and link-side segments\n        node_seg = node_segments[valve_layer.loc[i,'node']]\n        link_seg = link_segments[valve_layer.loc[i,'link']] \n        # if the node and link are in the same segment, set criticality to 0\n        if node_seg == link_seg:\n            VC_dem_i = 0.0",
         new="    for i in valve_layer.index:\n        row = valve_layer.loc[i]\n        node_seg = node_segments[row['node']]\n        link_seg = link_segments[row['link']] \n        if link_seg == node_seg:\n            VC_dem_i = 0.0", silent=True),
    dict(name="same-segment-not-zero", file=TOPO, old="        if node_seg == link_seg:\n            VC_len_i = 0\n", new="        if node_seg == link_seg:\n            VC_len_i = 1\n", rule="R-C18-4"),
    dict(name="helper-arguments-swapped", file=TOPO, old="valve_attr['num_surround'] = _valve_criticality(valve_layer, node_segments, link_segments)", new="valve_attr['num_surround'] = _valve_criticality(valve_layer, link_segments, node_segments)", rule="R-C18-4"),
]
