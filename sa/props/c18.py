"""C18 -- valve segmentation: structural clauses, and the partition itself on a fixture family.

That valve_segments computes THE partition induced by the valve layer on EVERY multigraph is a fact about graph reachability through
networkx at run time; it is decided here only on a finite family of fixture graphs (R-C18-6, T3: the parsed function is run by the in-house
interpreter on real networkx multigraphs, pandas replaced by sa/minipandas.py, and compared with a union-find reference).  Beyond that, four
clauses of the statement are visible in the shape of the code and are necessary for it:

R-C18-1  every label handed out is positive: a fresh label is the counter AFTER an increment (the counter starts at 0), on every path;
R-C18-2  the reported sizes count the members of the reported labelling: segment_size is computed from the value counts of the very two
         series that are returned (not from an earlier copy, not from one series twice);
R-C18-3  valve_segment_attributes reports one row per valve, addressed by valve NUMBER: rows of the valve layer are read by label
         (.loc / .at with a variable ranging over the layer's index) or by position (.iloc with a range), never a position through .loc --
         "any subset of link-node pairs" includes layers whose index has gaps (valve_segments itself drops duplicate rows in place);
R-C18-4  zero when both sides are the same segment: in each of the three criticality helpers the value stored for a valve is 0 on every path
         on which the node-side label equals the link-side label, and the three helpers are wired to num_surround / demand_increase /
         length_increase with the arguments in the helper's own parameter order.
"""
import ast

import sympy as sp

from ..src import walk, calls, call_name, dotted, loc, unparse, norm, AnchorError, ExtractError
from ..cfg import CFG
from ..symx import SymExec, Opaque

TOPO = "wntr/metrics/topographic.py"

EXPLANATION = (
    "Structural clauses (T1) of valve segmentation in wntr/metrics/topographic.py: (R-C18-1) CFG dominance: every store of the running label counter into the "
    "label array is dominated by an increment of the counter, which is initialised to 0 (labels are positive); copies of an existing label are listed, not "
    "decided; (R-C18-2) name-based, flow-insensitive def-use (that nothing is rebound after counting is judged by line number): the returned segment_size "
    "derives from value_counts of both returned series; (R-C18-3) row addressing, an AST pattern match on how the loop iterable is spelled (a closed list of "
    "spellings, anything else is an analysis error; the parameter must be named valve_layer): every .loc/.at/.iloc/.iat access to the valve layer in "
    "valve_segment_attributes' helpers uses an index variable whose source (the layer's index vs a range of positions) matches the accessor, and the per-valve "
    "result is keyed by the valve number; (R-C18-4) T2, symbolic path enumeration of the three criticality helpers: the stored value is 0 on the path where "
    "node-side and link-side labels are equal (that path is selected by a substring match on the path-condition text: `==`, node_segments[, link_segments[; "
    "first such test and last store only), and (AST match of call arguments against parameter names) valve_segment_attributes passes its arguments in each "
    "helper's parameter order. (R-C18-6) T3, bounded: valve_segments interpreted (sa/concrete.py; real networkx graphs, pandas stand-ins of sa/minipandas.py) on 15 hand-made "
    "and 24 pseudo-random small multigraphs (parallel and anti-parallel links, loops, several components, empty layer, duplicated rows, links valved at both ends, nodes valved on "
    "every link): labels positive, blocks equal to the union-find partition induced by the valve layer, size table equal to the block counts. The partition on every multigraph "
    "(reachability without passing a valve) is NOT decided beyond these fixtures. (R-C18-7) T3, bounded to the same fixtures: valve_segment_attributes interpreted on "
    "layers whose index has gaps: num_surround = other non-bypassed valves with a side in one of the two segments, demand / length gain (D1 + D2)/max(D1, D2) - 1, zeros for a bypassed valve.")
RULE_TEXT = "one instance = one label store, one size input, one row access, one same-segment path or one helper call binding"
ASSUMPTIONS = ["that the labelling is the partition induced by the valve layer is decided on the 39 fixture graphs of R-C18-6 only (graphs of 3..7 nodes); sa/minipandas.py models the pandas "
               "operations valve_segments uses and is part of the trusted base",
               "R-C18-1 does not decide that a COPIED label (link takes the label of its node) is non-zero; it lists those stores"]

HELPERS = ("_valve_criticality", "_valve_criticality_demand", "_valve_criticality_length")


# ------------------------------------------------------------------------------------------------ small def-use helpers
def top_assignments(fn):
    """name -> list of (stmt, value) for every simple-name assignment anywhere in fn (nested blocks included, nested defs excluded)"""
    out = {}
    for n in walk(fn):
        if isinstance(n, ast.Assign):
            for t in n.targets:
                for x in ([t] if isinstance(t, ast.Name) else (t.elts if isinstance(t, (ast.Tuple, ast.List)) else [])):
                    if isinstance(x, ast.Name):
                        out.setdefault(x.id, []).append((n, n.value))
        elif isinstance(n, ast.AugAssign) and isinstance(n.target, ast.Name):
            out.setdefault(n.target.id, []).append((n, n.value))
    return out


def names_in(e):
    return {x.id for x in ast.walk(e) if isinstance(x, ast.Name)}


def depends(fn, name, seen=None):
    """transitive set of names a local's definitions read, and the definition expressions met on the way"""
    defs = top_assignments(fn)
    seen = set() if seen is None else seen
    exprs = []
    todo = [name]
    while todo:
        n = todo.pop()
        if n in seen:
            continue
        seen.add(n)
        for st, v in defs.get(n, []):
            exprs.append((n, v))
            # attribute stores on the name (x.index = ...) do not redefine it
            todo.extend(names_in(v) - seen)
    return seen, exprs


# ------------------------------------------------------------------------------------------------ R-C18-1
def label_rules(repo, chk):
    fn = repo.func(TOPO, "valve_segments")
    chk.fn(fn)
    g = CFG(fn)
    defs = top_assignments(fn)
    # the counter: a name initialised to the constant 0 and only ever changed by `+= 1` / `= x + 1`
    counters = []
    for nm, ds in defs.items():
        inits = [v for st, v in ds if isinstance(st, ast.Assign) and isinstance(v, ast.Constant) and v.value == 0 and type(v.value) is int]
        incs = [st for st, v in ds if (isinstance(st, ast.AugAssign) and isinstance(st.op, ast.Add) and isinstance(v, ast.Constant) and v.value == 1)
                or (isinstance(st, ast.Assign) and isinstance(v, ast.BinOp) and isinstance(v.op, ast.Add) and nm in names_in(v)
                    and any(isinstance(x, ast.Constant) and x.value == 1 for x in (v.left, v.right)))]
        if len(inits) == 1 and incs and len(inits) + len(incs) == len(ds):
            counters.append((nm, incs))
    # the label container: the subscripted name that receives the counter
    stores = []
    for n in walk(fn):
        if isinstance(n, ast.Assign) and len(n.targets) == 1 and isinstance(n.targets[0], ast.Subscript) and isinstance(n.targets[0].value, ast.Name):
            stores.append(n)
    cand = [(nm, incs) for nm, incs in counters if any(isinstance(s.value, ast.Name) and s.value.id == nm for s in stores)]
    if len(cand) != 1:
        raise ExtractError("valve_segments: running label counter not identified (candidates %s)" % [c[0] for c in cand])
    counter, incs = cand[0]
    arrays = {s.targets[0].value.id for s in stores if isinstance(s.value, ast.Name) and s.value.id == counter}
    if len(arrays) != 1:
        raise ExtractError("valve_segments: label array not unique: %s" % sorted(arrays))
    arr = arrays.pop()
    dom = g.dominators()
    inc_nodes = set(g.nodes_where(lambda nd, d: d.get("node") in incs or d.get("stmt") in incs))
    if not inc_nodes:
        # statements are stored under 'node' for simple statements
        inc_nodes = {i for i, d in g.g.nodes(data=True) if d.get("node") is not None and any(d["node"] is s for s in incs)}
    nfresh = ncopy = 0
    for s in stores:
        if s.targets[0].value.id != arr:
            continue
        sn = [i for i, d in g.g.nodes(data=True) if d.get("node") is s]
        if not sn:
            continue          # unreachable
        sn = sn[0]
        if isinstance(s.value, ast.Name) and s.value.id == counter:
            nfresh += 1
            doms = set()
            cur = sn
            while cur in dom and dom[cur] != cur:
                cur = dom[cur]
                doms.add(cur)
            chk.expect(bool(doms & inc_nodes), "R-C18-1", "fresh segment label at `%s` is the counter after an increment" % norm(s), loc(TOPO, s),
                       "the counter starts at 0: a label taken before the first increment on some path is 0, not a positive segment number",
                       expected="%s += 1 dominates the store" % counter, found="no increment of %s dominates it" % counter)
        elif isinstance(s.value, ast.Subscript) and isinstance(s.value.value, ast.Name) and s.value.value.id == arr:
            ncopy += 1
            chk.note("label copied from another element at line %d (%s): non-zero only if the source was labelled (not decided)" % (s.lineno, norm(s)))
        elif isinstance(s.value, ast.Constant):
            chk.expect(isinstance(s.value.value, int) and s.value.value > 0, "R-C18-1", "constant label at `%s` is positive" % norm(s), loc(TOPO, s), found=s.value.value)
            nfresh += 1
        else:
            raise ExtractError("valve_segments: label store with an unrecognised value: %s" % norm(s))
    chk.extra["label_stores"] = {"fresh": nfresh, "copied": ncopy, "counter": counter, "array": arr}
    chk.floor("R-C18-1", 3)
    return fn


# ------------------------------------------------------------------------------------------------ R-C18-2
def size_rules(repo, chk, fn):
    rets = [n for n in walk(fn) if isinstance(n, ast.Return) and n.value is not None]
    if len(rets) != 1 or not isinstance(rets[0].value, ast.Tuple) or len(rets[0].value.elts) != 3 or not all(isinstance(e, ast.Name) for e in rets[0].value.elts):
        raise ExtractError("valve_segments: expected one `return node_segments, link_segments, sizes` of three names")
    a, b, c = (e.id for e in rets[0].value.elts)
    deps, exprs = depends(fn, c)
    counted = set()
    for nm, v in exprs:
        for call in calls(v):
            if isinstance(call.func, ast.Attribute) and call.func.attr in ("value_counts", "groupby") and isinstance(call.func.value, ast.Name):
                counted.add(call.func.value.id)
            if isinstance(call.func, ast.Attribute) and call.func.attr in ("value_counts",) and isinstance(call.func.value, ast.Call):
                counted |= names_in(call.func.value)
            if call_name(call) in ("collections.Counter", "Counter", "np.unique", "numpy.unique", "np.bincount") and call.args:
                counted |= names_in(call.args[0])
    for nm, what in ((a, "node"), (b, "link")):
        chk.expect(nm in counted, "R-C18-2", "segment sizes count the members of the returned %s labelling `%s`" % (what, nm), loc(TOPO, rets[0]),
                   "the size table must be the value counts of the series that is returned", expected="%s.value_counts() feeds %s" % (nm, c),
                   found="counted: %s" % sorted(counted))
    # the returned series are not re-labelled after they were counted
    count_line = max([v.lineno for nm, v in exprs] or [0])
    for n in walk(fn):
        if isinstance(n, ast.Assign) and n.lineno > count_line:
            for t in n.targets:
                if isinstance(t, ast.Name) and t.id in (a, b):
                    chk.bad("R-C18-2", "returned labelling `%s` is not rebound after its members were counted" % t.id, loc(TOPO, n), found=norm(n))
    chk.floor("R-C18-2", 2)


# ------------------------------------------------------------------------------------------------ R-C18-3
LABEL_ACC = ("loc", "at")
POS_ACC = ("iloc", "iat")


def index_source(fn, name, layer):
    """'label' | 'position' | None for a loop variable"""
    for n in walk(fn):
        if isinstance(n, ast.For):
            tg = n.target
            names = [tg.id] if isinstance(tg, ast.Name) else [e.id for e in getattr(tg, "elts", []) if isinstance(e, ast.Name)]
            if name not in names:
                continue
            it = n.iter
            if isinstance(it, ast.Name):
                # a local holding the index labels of a (filtered) view of the layer: filtering keeps the labels
                ds = [v for st, v in top_assignments(fn).get(it.id, [])]
                if ds and all(isinstance(d, ast.Attribute) and d.attr == "index" and layer in names_in(d) for d in ds):
                    return "label"
                return None
            if isinstance(it, ast.Attribute) and it.attr == "index" and dotted(it.value) == layer:
                return "label"
            if isinstance(it, ast.Call) and isinstance(it.func, ast.Attribute) and dotted(it.func.value) == layer and it.func.attr in ("iterrows", "itertuples", "keys"):
                return "label" if (not isinstance(tg, ast.Name) and names and names[0] == name) or it.func.attr == "keys" else None
            if isinstance(it, ast.Call) and call_name(it) in ("list", "sorted", "iter") and it.args and unparse(it.args[0]) == layer + ".index":
                return "label"
            if isinstance(it, ast.Call) and call_name(it) == "range":
                arg = it.args[-1] if len(it.args) <= 2 else it.args[1]
                defs = top_assignments(fn)
                t = unparse(arg)
                if isinstance(arg, ast.Name) and len(defs.get(arg.id, [])) == 1:
                    t = unparse(defs[arg.id][0][1])
                if t in ("len(%s)" % layer, "%s.shape[0]" % layer, "len(%s.index)" % layer):
                    return "position"
            if isinstance(it, ast.Call) and call_name(it) == "enumerate":
                return "position" if names and names[0] == name else ("label" if it.args and unparse(it.args[0]) == layer + ".index" else None)
            return None
    return None


def addressing_rules(repo, chk):
    n_acc = 0
    for h in HELPERS:
        fn = repo.func(TOPO, h)
        chk.fn(fn)
        params = [a.arg for a in fn.args.args]
        layer = "valve_layer" if "valve_layer" in params else None
        if layer is None:
            raise ExtractError("%s: no valve_layer parameter (%s)" % (h, params))
        for n in walk(fn):
            if isinstance(n, ast.Subscript) and isinstance(n.value, ast.Attribute) and n.value.attr in LABEL_ACC + POS_ACC and dotted(n.value.value) == layer:
                idx = n.slice.elts[0] if isinstance(n.slice, ast.Tuple) and n.slice.elts else n.slice
                if not isinstance(idx, ast.Name):
                    continue       # a mask or a slice: selects rows by content, not by number
                src = index_source(fn, idx.id, layer)
                if src is None:
                    raise ExtractError("%s: cannot tell whether `%s` in `%s` is a valve number or a position" % (h, idx.id, norm(n)))
                want = "label" if n.value.attr in LABEL_ACC else "position"
                n_acc += 1
                chk.expect(src == want, "R-C18-3", "%s: `%s` addresses a row of the valve layer by %s with a %s" % (h, norm(n), "number" if want == "label" else "position", "valve number" if src == "label" else "position"),
                           loc(TOPO, n), "a valve layer whose index is not 0..n-1 (a subset, or after valve_segments dropped a duplicate row) is read at the wrong row or raises KeyError",
                           expected="index variable from %s.index" % layer if want == "label" else "index variable from range(len(%s))" % layer, found="%s ranges over %ss" % (idx.id, src))
        # the per-valve result is keyed by the valve number
        rets = [r for r in walk(fn) if isinstance(r, ast.Return) and r.value is not None]
        keyed = None
        for st in walk(fn):
            if isinstance(st, ast.Assign) and isinstance(st.targets[0], ast.Subscript) and isinstance(st.targets[0].value, ast.Name) and isinstance(st.targets[0].slice, ast.Name):
                res = st.targets[0].value.id
                if any(res in names_in(r.value) for r in rets) or any(res in depends(fn, x)[0] for r in rets for x in names_in(r.value)):
                    keyed = (st, index_source(fn, st.targets[0].slice.id, layer))
        if keyed is not None:
            chk.expect(keyed[1] == "label", "R-C18-3", "%s: the result is indexed by valve number" % h, loc(TOPO, keyed[0]), found="keyed by a %s" % keyed[1])
    chk.floor("R-C18-3", 6)


# ------------------------------------------------------------------------------------------------ R-C18-4
def same_segment_rules(repo, chk):
    for h in HELPERS:
        fn = repo.func(TOPO, h)
        params = [a.arg for a in fn.args.args]
        if "node_segments" not in params or "link_segments" not in params:
            raise ExtractError("%s: label parameters not found (%s)" % (h, params))
        def hook(name, node, args, kwargs, st, ex_, recv):
            # a local dict literal filled in the loop and then wrapped (pd.Series(d)): its entries are the per-valve values
            for a in list(args) + list(kwargs.values()):
                if isinstance(a, dict):
                    for k, v in a.items():
                        st.events.append(("store", "<result>[%s]" % k, v, getattr(node, "lineno", 0), ()))
            return NotImplemented
        ex = SymExec(call_hook=hook)
        paths = ex.run(fn)
        seen_same = 0
        for p in paths:
            if p.raised is not None:
                continue
            same = None
            for t, v in p.conds:
                if same is None and "==" in t and "node_segments[" in t and "link_segments[" in t and "|" not in t and "&" not in t:
                    same = v        # the first such test on the path is the one on the valve itself (inner loops come later)
            if same is not True:
                continue
            # the per-valve value: a subscript store event, or an entry of a local dict literal filled in the loop
            vals = [e[2] for e in p.events if e[0] == "store" and "[" in e[1] and not e[1].startswith(("node_segments", "link_segments"))]
            for nm, val in p.env.items():
                if isinstance(val, dict) and val:
                    vals.extend(val.values())
            if not vals:
                chk.bad("R-C18-4", "%s: a value is stored for a valve whose two sides are one segment" % h, loc(fn), found="no store on the path")
                continue
            seen_same += 1
            v = vals[-1]
            try:
                z = sp.simplify(ex.S(v)) == 0
            except ExtractError:
                z = False
            chk.expect(bool(z), "R-C18-4", "%s: zero when node side and link side are the same segment" % h, loc(TOPO, fn), found=str(v))
        if not seen_same:
            chk.bad("R-C18-4", "%s: the same-segment case is distinguished" % h, loc(fn), "no path compares the node-side label with the link-side label")
    # wiring in valve_segment_attributes
    fn = repo.func(TOPO, "valve_segment_attributes")
    chk.fn(fn)
    want = {"num_surround": "_valve_criticality", "demand_increase": "_valve_criticality_demand", "length_increase": "_valve_criticality_length"}
    got = {}
    for st in walk(fn):
        if isinstance(st, ast.Assign) and isinstance(st.targets[0], ast.Subscript) and isinstance(st.targets[0].slice, ast.Constant) and isinstance(st.value, ast.Call):
            got[st.targets[0].slice.value] = st
    apar = [a.arg for a in fn.args.args]
    for col, helper in sorted(want.items()):
        st = got.get(col)
        if st is None:
            chk.bad("R-C18-4", "valve_segment_attributes fills column %r" % col, loc(fn), found=sorted(got))
            continue
        c = st.value
        okh = call_name(c) == helper
        hp = [a.arg for a in repo.func(TOPO, helper).args.args]
        bound = dict(zip(hp, [unparse(a) for a in c.args]))
        bound.update({k.arg: unparse(k.value) for k in c.keywords})
        oka = all(bound.get(p) == p for p in ("valve_layer", "node_segments", "link_segments")) and all(v in apar for v in bound.values())
        chk.expect(okh and oka, "R-C18-4", "column %r comes from %s with the layer and the two labellings in the helper's parameter order" % (col, helper), loc(TOPO, st),
                   found="%s(%s)" % (call_name(c), ", ".join("%s=%s" % kv for kv in bound.items())))
    chk.floor("R-C18-4", 6)


# ------------------------------------------------------------------------------------------------ R-C18-5
def dedup_rules(repo, chk, fn):
    """duplicates allowed: when valve_segments works on a de-duplicated COPY of the layer, every later read of the layer goes through that copy
    (a pass that still reads the caller's frame sees a one-valve link as a two-valve link and leaves it unlabelled)."""
    params = [a.arg for a in fn.args.args]
    if len(params) < 2:
        raise ExtractError("valve_segments: expected (G, valve_layer)")
    layer = params[1]
    copies = {}          # name -> line of the statement that makes it a de-duplicated copy
    aliases = {layer}
    inplace = False
    for n in walk(fn):
        if isinstance(n, ast.Assign) and len(n.targets) == 1 and isinstance(n.targets[0], ast.Name):
            v = n.value
            if isinstance(v, ast.Name) and v.id in aliases:
                aliases.add(n.targets[0].id)
            if isinstance(v, ast.Call) and isinstance(v.func, ast.Attribute) and v.func.attr == "drop_duplicates" and isinstance(v.func.value, ast.Name) and v.func.value.id in aliases | set(copies):
                if not any(k.arg == "inplace" and getattr(k.value, "value", None) is True for k in v.keywords):
                    copies[n.targets[0].id] = n.lineno
        if isinstance(n, ast.Expr) and isinstance(n.value, ast.Call) and isinstance(n.value.func, ast.Attribute) and n.value.func.attr == "drop_duplicates":
            if any(k.arg == "inplace" and getattr(k.value, "value", None) is True for k in n.value.keywords):
                inplace = True
    copies.pop(layer, None) if inplace else None
    dedup_names = set(copies) - ({layer} if layer in copies and not inplace else set())
    if layer in copies:
        # the parameter name itself is rebound to the copy: one name, nothing to confuse
        chk.ok("R-C18-5", "the valve layer is read through one name after de-duplication", loc(TOPO, fn), "parameter rebound to the de-duplicated frame")
        return
    if not copies:
        chk.expect(inplace, "R-C18-5", "duplicate valve rows are dropped before the labelling passes", loc(TOPO, fn),
                   "the statement allows duplicated (link, node) rows; the passes count rows per link", found="no drop_duplicates on the layer")
        return
    first = min(copies.values())
    stale = []
    for n in walk(fn):
        if isinstance(n, ast.Name) and isinstance(n.ctx, ast.Load) and n.id == layer and n.lineno > first:
            par = getattr(n, "_parent", None)
            # reading rows / columns of the caller's frame (subscript, attribute, call argument); `valves = valve_layer` style aliasing before the copy is not a read
            if isinstance(par, (ast.Subscript, ast.Attribute, ast.Compare, ast.Call)):
                stale.append(n)
    chk.expect(not stale, "R-C18-5", "after de-duplication every pass reads the de-duplicated valve layer", loc(TOPO, stale[0]) if stale else loc(TOPO, fn),
               "a pass that still reads the caller's frame counts a duplicated row twice: a link with one valve listed twice is taken for a link with two valves and keeps label 0",
               expected="reads through %s" % sorted(copies), found=["line %d: %s" % (x.lineno, norm(getattr(x, "_parent", x))) for x in stale[:4]])


# ------------------------------------------------------------------------------------------------ R-C18-6 the partition, on fixtures
def partition_fixtures():
    """(label, nodes, [(start, end, link name)], [(link, node) valve pairs]): hand-made corner cases plus a deterministic pseudo-random family"""
    out = [
        ("path, no valve", ["A", "B", "C"], [("A", "B", "L1"), ("B", "C", "L2")], []),
        ("path, one valve in the middle", ["A", "B", "C"], [("A", "B", "L1"), ("B", "C", "L2")], [("L1", "B")]),
        ("two components, empty layer", ["A", "B", "C", "D"], [("A", "B", "L1"), ("C", "D", "L2")], []),
        ("two components, one valve", ["A", "B", "C", "D", "E"], [("A", "B", "L1"), ("C", "D", "L2"), ("D", "E", "L3")], [("L3", "D")]),
        ("link with a valve at each end", ["A", "B", "C"], [("A", "B", "L1"), ("B", "C", "L2")], [("L1", "A"), ("L1", "B")]),
        ("node with a valve on each of its links", ["A", "B", "C", "D"], [("A", "B", "L1"), ("B", "C", "L2"), ("B", "D", "L3")], [("L1", "B"), ("L2", "B"), ("L3", "B")]),
        ("loop cut by two valves", ["A", "B", "C", "D"], [("A", "B", "L1"), ("B", "C", "L2"), ("C", "D", "L3"), ("D", "A", "L4")], [("L1", "A"), ("L3", "C")]),
        ("loop cut by one valve only (no separation)", ["A", "B", "C"], [("A", "B", "L1"), ("B", "C", "L2"), ("C", "A", "L3")], [("L2", "B")]),
        ("parallel links, one valved", ["A", "B", "C"], [("A", "B", "L1"), ("A", "B", "L2"), ("B", "C", "L3")], [("L1", "A")]),
        ("parallel links, both valved at the same node", ["A", "B", "C"], [("A", "B", "L1"), ("B", "A", "L2"), ("B", "C", "L3")], [("L1", "B"), ("L2", "B")]),
        ("duplicated valve rows", ["A", "B", "C"], [("A", "B", "L1"), ("B", "C", "L2")], [("L2", "B"), ("L2", "B"), ("L1", "A")]),
        ("dead end behind a valve", ["A", "B", "C", "D"], [("A", "B", "L1"), ("B", "C", "L2"), ("C", "D", "L3")], [("L3", "C")]),
        ("valve at a dead-end node", ["A", "B", "C"], [("A", "B", "L1"), ("B", "C", "L2")], [("L2", "C")]),
        ("valves on both sides of a junction", ["A", "B", "C", "D", "E"], [("A", "B", "L1"), ("B", "C", "L2"), ("C", "D", "L3"), ("C", "E", "L4")], [("L2", "B"), ("L3", "C"), ("L1", "B")]),
        ("isolated node without links", ["A", "B", "Z"], [("A", "B", "L1")], [("L1", "A")]),
    ]
    # linear congruential generator: the family is the same on every run
    state = [20240917]

    def rnd(n):
        state[0] = (state[0] * 1103515245 + 12345) % (2 ** 31)
        return (state[0] >> 8) % n
    for k in range(24):
        nn = 4 + rnd(4)
        nodes = ["n%d" % i for i in range(nn)]
        nl = nn - 1 + rnd(4)
        links = []
        for j in range(nl):
            a = rnd(nn)
            b = (a + 1 + rnd(nn - 1)) % nn
            links.append((nodes[a], nodes[b], "p%d" % j))
        valves = []
        for (a, b, name) in links:
            r = rnd(6)
            if r == 0:
                valves.append((name, a))
            elif r == 1:
                valves.append((name, b))
            elif r == 2 and k % 3 == 0:
                valves += [(name, a), (name, b)]
        out.append(("pseudo-random #%d (%d nodes, %d links, %d valves)" % (k, nn, nl, len(valves)), nodes, links, valves))
    return out


def induced_partition(nodes, links, valves):
    """reference: blocks of the elements (('N', node) / ('L', link)); a link is joined with each end node unless a valve sits on that (link, node) pair"""
    parent = {}

    def find(x):
        parent.setdefault(x, x)
        while parent[x] != x:
            parent[x] = parent[parent[x]]
            x = parent[x]
        return x
    for n in nodes:
        find(("N", n))
    vs = set(valves)
    for a, b, name in links:
        find(("L", name))
        for end in (a, b):
            if (name, end) not in vs:
                parent[find(("L", name))] = find(("N", end))
    blocks = {}
    for x in list(parent):
        blocks.setdefault(find(x), set()).add(x)
    return sorted(map(sorted, blocks.values()))


def partition_rules(repo, chk):
    """R-C18-6 (T3, bounded to the fixture family): valve_segments, interpreted by sa/concrete.py on real networkx multigraphs and stand-ins for the pandas
    objects (sa/minipandas.py), returns on every fixture (a) labels that are positive integers, (b) a labelling whose blocks ARE the partition induced by the
    valve layer (two elements share a label iff they are connected without passing a valve), for nodes and links together, and (c) a size table with one row per
    label holding the number of links and of nodes carrying it."""
    import networkx as nx
    from ..concrete import World, stdlib_overrides, Namespace, ProgramError, NDArr
    from ..minipandas import pandas_namespace, MiniFrame, MiniSeries
    ov, _st = stdlib_overrides()
    npn = ov["numpy"]
    zeros = lambda shape=None, dtype=None, **k: NDArr([0] * (shape if isinstance(shape, int) else list(shape)[0]), dtype)
    ov["numpy"] = Namespace("numpy", **dict({k_: getattr(npn, k_) for k_ in dir(npn) if not k_.startswith("_")}, zeros=zeros))
    ov["pandas"] = pandas_namespace()
    ov["networkx"] = Namespace("networkx", connected_components=nx.connected_components, MultiGraph=nx.MultiGraph, MultiDiGraph=nx.MultiDiGraph, Graph=nx.Graph,
                               number_connected_components=nx.number_connected_components, node_connected_component=nx.node_connected_component)
    world = World(repo, ov, fuel=30000000)
    fn = repo.func(TOPO, "valve_segments")
    chk.fn(fn)
    vs_ = world.function(TOPO, "valve_segments")
    n_ok = 0
    for label, nodes, links, valves in partition_fixtures():
        G = nx.MultiDiGraph()
        for n_ in nodes:
            G.add_node(n_)
        for a, b, name in links:
            G.add_edge(a, b, key=name)
        layer = MiniFrame({"link": [v[0] for v in valves], "node": [v[1] for v in valves]})
        try:
            res = vs_(G, layer)
        except ProgramError as e:
            chk.bad("R-C18-6", "valve_segments returns the induced partition [%s]" % label, loc(TOPO, fn), "the interpreted function raised on a legitimate input",
                    expected="a labelling", found="%s (line %s)" % (e, e.lineno))
            continue
        if not (isinstance(res, tuple) and len(res) == 3 and isinstance(res[0], MiniSeries) and isinstance(res[1], MiniSeries) and isinstance(res[2], MiniFrame)):
            raise ExtractError("valve_segments did not return (series, series, frame) in the interpreted world: %r" % (res,))
        ns, ls, sizes = res
        lab = {}
        for k_, v in ns.items():
            lab[("N", k_)] = v
        for k_, v in ls.items():
            lab[("L", k_)] = v
        want = induced_partition(nodes, links, valves)
        blocks = {}
        for x, v in lab.items():
            blocks.setdefault(v, set()).add(x)
        got = sorted(map(sorted, blocks.values()))
        positive = all(isinstance(v, int) and not isinstance(v, bool) and v > 0 for v in lab.values())
        complete = set(lab) == {("N", n_) for n_ in nodes} | {("L", l_[2]) for l_ in links}
        try:
            sz = {r: (sizes["link"][r], sizes["node"][r]) for r in sizes.index}
        except (KeyError, Exception) as e:          # noqa
            sz = "size table without 'link' / 'node' columns: %s" % e
        want_sz = {v: (len([x for x in b if x[0] == "L"]), len([x for x in b if x[0] == "N"])) for v, b in blocks.items()}
        ok = positive and complete and got == want and sz == want_sz
        n_ok += 1
        chk.expect(ok, "R-C18-6", "valve_segments returns the induced partition [%s]" % label, loc(TOPO, fn),
                   "two elements may share a segment label iff they are connected without passing a valve; labels positive; every node and link labelled; the size table counts "
                   "the links and nodes of each label (interpreted on a real networkx multigraph, pandas replaced by sa/minipandas)",
                   expected="blocks %s" % want, found="blocks %s%s%s%s" % (got, "" if positive else "; non-positive label", "" if complete else "; elements missing", "" if sz == want_sz else "; sizes %s instead of %s" % (sz, want_sz)))
    chk.floor("R-C18-6", 35)


def attribute_rules(repo, chk):
    """R-C18-7 (T3, bounded to the fixtures of R-C18-6 that have at least one valve): valve_segment_attributes, interpreted, reports for every valve NUMBER (index labels
    with gaps) the number of OTHER valves that bound one of the two segments it separates (a bypassed valve, both sides in one segment, bounds nothing) and the relative demand /
    pipe length gained by merging the two segments, all three zero when both sides are the same segment.  Segment labels are those of the reference partition."""
    import networkx as nx          # noqa: F401  (the stand-in world needs the module name only)
    from ..concrete import World, stdlib_overrides, ProgramError
    from ..minipandas import pandas_namespace, MiniFrame, MiniSeries
    ov, _st = stdlib_overrides()
    ov["pandas"] = pandas_namespace()
    world = World(repo, ov, fuel=30000000)
    fn = repo.func(TOPO, "valve_segment_attributes")
    chk.fn(fn)
    vsa = world.function(TOPO, "valve_segment_attributes")
    n = 0
    for label, nodes, links, valves in partition_fixtures():
        dedup = []
        for v in valves:
            if v not in dedup:
                dedup.append(v)
        if not dedup:
            continue
        blocks = induced_partition(nodes, links, valves)
        seg = {x: i + 1 for i, b in enumerate(blocks) for x in map(tuple, b)}
        numbers = [3 * k + 2 for k in range(len(dedup))]                 # valve numbers with gaps, not starting at 0
        layer = MiniFrame({"link": [v[0] for v in dedup], "node": [v[1] for v in dedup]}, index=numbers)
        ns = MiniSeries([seg[("N", n_)] for n_ in nodes], nodes)
        ls = MiniSeries([seg[("L", l_[2])] for l_ in links], [l_[2] for l_ in links])
        dem_nodes = nodes[:-1] if len(nodes) > 2 else nodes                 # the demand table need not cover every node
        demand = MiniSeries([0.5 * (k + 1) for k in range(len(dem_nodes))], dem_nodes)
        length = MiniSeries([100.0 + 10.0 * k for k in range(len(links))], [l_[2] for l_ in links])
        try:
            res = vsa(layer, ns, ls, demand, length)
        except ProgramError as e:
            chk.bad("R-C18-7", "valve_segment_attributes reports surrounding valves and merge gains [%s]" % label, loc(TOPO, fn), "the interpreted function raised on a legitimate input",
                    expected="a table indexed by valve number", found="%s (line %s)" % (e, e.lineno))
            continue
        if not isinstance(res, MiniFrame):
            raise ExtractError("valve_segment_attributes did not return a frame in the interpreted world: %r" % (res,))
        sides = {num: (seg[("L", v[0])], seg[("N", v[1])]) for num, v in zip(numbers, dedup)}
        dsum = lambda s_: sum(d for n_, d in zip(dem_nodes, demand.values) if seg[("N", n_)] == s_)
        lsum = lambda s_: sum(L for l_, L in zip(links, length.values) if seg[("L", l_[2])] == s_)
        want = {}
        for num, (a, b) in sides.items():
            if a == b:
                want[num] = (0, 0.0, 0.0)
                continue
            others = [m for m, (c, d) in sides.items() if m != num and c != d and ({c, d} & {a, b})]
            gain = lambda x, y: 0.0 if x == 0 and y == 0 else (x + y) / max(x, y) - 1
            want[num] = (len(others), gain(dsum(a), dsum(b)), gain(lsum(a), lsum(b)))
        try:
            got = {num: (res["num_surround"][num], res["demand_increase"][num], res["length_increase"][num]) for num in numbers}
        except KeyError as e:
            got = "row / column missing: %s (index %s, columns %s)" % (e, list(res.index), list(res.columns))
        ok = isinstance(got, dict) and list(res.index) == numbers and all(got[m][0] == want[m][0] and abs(got[m][1] - want[m][1]) < 1e-12 and abs(got[m][2] - want[m][2]) < 1e-12 for m in numbers)
        n += 1
        chk.expect(ok, "R-C18-7", "valve_segment_attributes reports surrounding valves and merge gains [%s]" % label, loc(TOPO, fn),
                   "per valve number: other non-bypassed valves with a side in one of the two segments; (D1 + D2)/max(D1, D2) - 1 for demand and length; zeros when both sides are one segment",
                   expected=want, found=got)
    chk.floor("R-C18-7", 25)


def run(repo, chk):
    partition_rules(repo, chk)
    attribute_rules(repo, chk)
    fn = label_rules(repo, chk)
    dedup_rules(repo, chk, fn)
    size_rules(repo, chk, fn)
    addressing_rules(repo, chk)
    same_segment_rules(repo, chk)


WITNESSES = [
    dict(name="surrounding-count-includes-the-valve-itself", file=TOPO, old="            VC_val_i = len(V_list) - 1\n", new="            VC_val_i = len(V_list)\n", rule="R-C18-7"),
    dict(name="demand-gain-relative-to-the-smaller-side", file=TOPO, old="                VC_dem_i = (D_link + D_node) / max(D_link, D_node) - 1\n", new="                VC_dem_i = (D_link + D_node) / min(D_link, D_node) - 1\n", rule="R-C18-7"),
    dict(name="length-gain-sums-one-side-twice", file=TOPO, old="            links_in_link_seg = link_segments[link_segments == link_seg].index\n", new="            links_in_link_seg = link_segments[link_segments == node_seg].index\n", rule="R-C18-7"),
    dict(name="quiet-surrounding-valves-through-a-set", file=TOPO, silent=True, old="            VC_val_i = len(V_list) - 1\n", new="            VC_val_i = len(set(V_list) - {i})\n"),
    dict(name="two-valve-link-joins-its-neighbour", file=TOPO, old="        elif link_valves.shape[0] == 2:\n            continue\n", new="        elif link_valves.shape[0] == 2:\n            seg_label[link_index] = seg_label[all_names.index('N_'+node1_name)]\n", rule="R-C18-6"),
    dict(name="quiet-link-prelabelled-when-it-has-one-valve", file=TOPO, old="        if set(link_valves['node']) >= set([start_node, end_node]):\n", new="        if len(set(link_valves['node']) & set([start_node, end_node])) >= 1:\n", silent=True),   # the label given here to a link with ONE valve is overwritten by the last pass: same partition
    dict(name="valved-edges-stay-in-the-graph", file=TOPO, old="    uG.remove_edges_from(valved_edges)\n", new="    pass\n", rule="R-C18-6"),
    dict(name="empty-layer-is-one-segment", file=TOPO, old="    # First check for duplicate valves\n", new="    if len(valve_layer) == 0:\n        node_segments = pd.Series(1, index=list(G.nodes()), dtype=int)\n        link_segments = pd.Series(1, index=[k for u,v,k in G.edges(keys=True)], dtype=int)\n        return node_segments, link_segments, pd.DataFrame({'link': len(link_segments), 'node': len(node_segments)}, index=[1], dtype=int)\n    # First check for duplicate valves\n", rule="R-C18-6"),
    dict(name="quiet-node-pass-iterates-graph-nodes", file=TOPO, silent=True, old="    for node_name in node_names:\n        node_valves = valve_layer[valve_layer['node']==node_name]\n        node_links = [k for u,v,k in uG.edges(node_name[2:], keys=True)]\n",
         new="    for plain_name in uG.nodes():\n        node_name = 'N_' + plain_name\n        node_valves = valve_layer[valve_layer['node']==node_name]\n        node_links = [k for u,v,k in uG.edges(plain_name, keys=True)]\n"),
    dict(name="later-pass-reads-the-callers-frame", file=TOPO, old="    if valve_layer.duplicated().any():\n        valve_layer.drop_duplicates(inplace = True)\n", new="    valves = valve_layer\n    if valves.duplicated().any():\n        valves = valves.drop_duplicates()\n",
         also=[("        link_valves = valve_layer[valve_layer['link']==link_name]\n        if set(link_valves['node'])", "        link_valves = valves[valves['link']==link_name]\n        if set(link_valves['node'])")], rule="R-C18-5"),
    dict(name="layer-rebound-to-its-copy-preserving", file=TOPO, old="    if valve_layer.duplicated().any():\n        valve_layer.drop_duplicates(inplace = True)\n", new="    if valve_layer.duplicated().any():\n        valve_layer = valve_layer.drop_duplicates()\n", silent=True),
    dict(name="label-before-increment", file=TOPO, old="        seg_index += 1\n        for node in component:", new="        for node in component:", rule="R-C18-1"),
    dict(name="sizes-from-one-series-twice", file=TOPO, old="seg_node_sizes = node_segments.value_counts().rename('node')", new="seg_node_sizes = link_segments.value_counts().rename('node')", rule="R-C18-2"),
    dict(name="position-through-loc", file=TOPO, old="    for i in valve_layer.index:  # valve numbers are index labels, not positions\n        # identify the node-side and link-side segments\n        node_seg = node_segments[valve_layer.loc[i,'node']]\n        link_seg = link_segments[valve_layer.loc[i,'link']] \n        # if the node and link are in the same segment, set criticality to 0\n        if node_seg == link_seg:\n            VC_val_i = 0 ",
         new="    for i in range(n_valves):\n        # identify the node-side and link-side segments\n        node_seg = node_segments[valve_layer.loc[i,'node']]\n        link_seg = link_segments[valve_layer.loc[i,'link']] \n        # if the node and link are in the same segment, set criticality to 0\n        if node_seg == link_seg:\n            VC_val_i = 0 ", rule="R-C18-3"),
    dict(name="positions-through-iloc-preserving", file=TOPO, old="    for i in valve_layer.index:  # valve numbers are index labels, not positions\n        # identify the node-side and link-side segments\n        node_seg = node_segments[valve_layer.loc[i,'node']]\n        link_seg = link_segments[valve_layer.loc[i,'link']] \n        # if the node and link are in the same segment, set criticality to 0\n        if node_seg == link_seg:\n            VC_dem_i = 0.0",
         new="    for i in valve_layer.index:\n        row = valve_layer.loc[i]\n        node_seg = node_segments[row['node']]\n        link_seg = link_segments[row['link']] \n        if link_seg == node_seg:\n            VC_dem_i = 0.0", silent=True),
    dict(name="same-segment-not-zero", file=TOPO, old="        if node_seg == link_seg:\n            VC_len_i = 0\n", new="        if node_seg == link_seg:\n            VC_len_i = 1\n", rule="R-C18-4"),
    dict(name="helper-arguments-swapped", file=TOPO, old="valve_attr['num_surround'] = _valve_criticality(valve_layer, node_segments, link_segments)", new="valve_attr['num_surround'] = _valve_criticality(valve_layer, link_segments, node_segments)", rule="R-C18-4"),
]
